module demo

go 1.22

require github.com/goose-lang/goose v0.0.0

require github.com/goose-lang/primitive v0.1.0 // indirect

replace github.com/goose-lang/goose => /repo
