// Demonstration against the real code (no scheduler, real sync/time):
// after one WaitTimeout call timed out, its helper goroutine is still parked
// on the condition variable and consumes the next Signal; a second
// WaitTimeout call then misses the signal and returns only on its time-out.
//
// run: cd /verif/findings/C16_stolen_signal && go test -count=1 .   (go.mod replaces goose => /repo)
package demo

import (
	"sync"
	"testing"
	"time"

	"github.com/goose-lang/goose/machine"
)

func TestSignalStolenByLeakedHelper(t *testing.T) {
	mu := new(sync.Mutex)
	cond := sync.NewCond(mu)
	mu.Lock()
	machine.WaitTimeout(cond, 20) // times out: nobody signals
	go func() {
		time.Sleep(100 * time.Millisecond)
		mu.Lock()
		cond.Signal()
		mu.Unlock()
	}()
	start := time.Now()
	machine.WaitTimeout(cond, 3000) // should return promptly after the signal (~100ms)
	el := time.Since(start)
	mu.Unlock()
	if el > 1500*time.Millisecond {
		t.Fatalf("second WaitTimeout returned after %v: the signal sent at ~100ms was consumed by the first call's leaked helper", el)
	}
}
