#!/bin/bash
# Build the framework offline and warm the private build cache (incl. -race).
set -e
export GOFLAGS=-mod=mod GOPROXY=off GOSUMDB=off GOTOOLCHAIN=local
export GOCACHE=/verif/.cache/go-build
mkdir -p /verif/.cache /verif/evidence
cd /verif/mc
go build $(go list ./... | grep -v -e cmd/c16 -e cmd/gooseb)   # these only build with their overlay
go build -race -tags free -o /dev/null ./cmd/c10
echo "setup ok"
