#!/bin/bash
# Build the framework offline and warm the private build cache (incl. -race).
set -e
export GOFLAGS=-mod=mod GOPROXY=off GOSUMDB=off GOTOOLCHAIN=local
export GOCACHE=/verif/.cache/go-build
mkdir -p /verif/.cache /verif/evidence
cd /verif/mc
go build $(go list ./... | grep -v cmd/c16)   # cmd/c16 only builds with its overlay
go build -race -tags free -o /dev/null ./cmd/c10
echo "setup ok"
