#!/bin/bash
# check.sh <Cxx> <quick|thorough|--replay file>
# Rebuilds the instrumented harness from /repo's current working tree and runs it.
set -u
ID="$1"; MODE="${2:-quick}"; ARG="${3:-}"; [ -n "$ARG" ] && ARG=$(realpath "$ARG")
export GOFLAGS=-mod=mod GOPROXY=off GOSUMDB=off GOTOOLCHAIN=local
export GOCACHE=/verif/.cache/go-build
export GODEBUG=goindex=0
REPO=/repo
V=/verif
W="$V/.work/$ID.$$"
mkdir -p "$W" "$V/evidence" "$V/.cache"; [ "$MODE" != "--replay" ] && rm -rf "$V/replays/$ID"
trap 'rm -rf "$W"' EXIT
# scratch directories of the harnesses (real-kernel replays, goose output) live under the work directory, so shard
# processes that leave through os.Exit cannot leak them into /tmp
export TMPDIR="$W/tmp"; mkdir -p "$TMPDIR"
cd "$V/mc" || exit 3
LC=$(echo "$ID" | tr 'A-Z' 'a-z')

build() { # build <out> <pkg> [extra go build args]
  local out="$1" pkg="$2"; shift 2
  if ! go build "$@" -o "$out" "$pkg" 2>"$W/build.err"; then
    echo "harness error: build of $pkg failed:" >&2; head -40 "$W/build.err" >&2
    return 1
  fi
}
# bridge: add the per-declaration translation file to package goose by overlay and build cmd/gooseb
bridge() {
  mkdir -p "$W/br"
  printf '{"Replace": {"%s/zz_verif_bridge.go": "%s/mc/bridge/bridge.go.txt"}}' "$REPO" "$V" > "$W/br/ov.json"
  # the bridge file calls unexported functions of package goose (declsOrError, NewPkgCtx ...): a refactor of the
  # translator may leave it uncompilable; the checks then run without it (parts that need it are reported as skipped)
  BRIDGE_BIN="$W/gooseb"
  build "$W/gooseb" ./cmd/gooseb -overlay "$W/br/ov.json" 2>"$W/br/err.txt" || { echo "note: bridge does not build against this tree, continuing without it: $(head -3 "$W/br/err.txt" | tr '\n' ' ')" >&2; BRIDGE_BIN=""; }
}
instr() { go run ./cmd/instr -dir "$W/ov" -o "$W/ov.json" "$@" || { echo "harness error: instrumentation failed" >&2; exit 3; }; }

case "$ID" in
C10)
  instr $REPO/machine/disk/mem.go=sync,yield,copy $REPO/machine/disk/file.go=unix,sync
  build "$W/bin" ./cmd/c10 -overlay "$W/ov.json" || exit 3
  build "$W/free" ./cmd/c10 -race -tags free || exit 3
  export VERIF_FREE_BIN="$W/free"
  ;;
C09)
  instr $REPO/machine/disk/file.go=unix,sync
  build "$W/bin" ./cmd/$LC -overlay "$W/ov.json" || exit 3
  ;;
C11)
  instr $REPO/machine/disk/file.go=unix,sync
  build "$W/bin" ./cmd/$LC -overlay "$W/ov.json" || exit 3
  build "$W/free" ./cmd/$LC -race -tags free || exit 3
  export VERIF_FREE_BIN="$W/free"
  ;;
C12)
  instr $REPO/machine/filesys/dir.go=unix,sync
  build "$W/bin" ./cmd/$LC -overlay "$W/ov.json" || exit 3
  ;;
C13)
  instr $REPO/machine/filesys/dir.go=unix,sync $REPO/machine/filesys/mem.go=sync,yield,copy
  build "$W/bin" ./cmd/$LC -overlay "$W/ov.json" || exit 3
  ;;
C14)
  instr $REPO/machine/filesys/dir.go=unix,yield,sync,maprange $REPO/machine/filesys/mem.go=sync,yield,copy,maprange
  build "$W/bin" ./cmd/$LC -overlay "$W/ov.json" || exit 3
  build "$W/free" ./cmd/$LC -race -tags free || exit 3
  export VERIF_FREE_BIN="$W/free"
  ;;
C15)
  PRIM=$(go list -m -f '{{.Dir}}' github.com/goose-lang/primitive 2>/dev/null)
  [ -n "$PRIM" ] || { echo "harness error: primitive module not found" >&2; exit 3; }
  instr $REPO/machine/prims.go=yield,sync,time,chan,go $PRIM/prims.go=sync,time,chan,go
  build "$W/bin" ./cmd/$LC -overlay "$W/ov.json" || exit 3
  build "$W/free" ./cmd/$LC -race -tags free || exit 3
  export VERIF_FREE_BIN="$W/free"
  ;;
C16)
  PRIM=$(go list -m -f '{{.Dir}}' github.com/goose-lang/primitive 2>/dev/null)
  [ -n "$PRIM" ] || { echo "harness error: primitive module not found" >&2; exit 3; }
  instr $REPO/machine/prims.go=sync,time,chan,go $PRIM/prims.go=sync,time,chan,go
  build "$W/bin" ./cmd/$LC -overlay "$W/ov.json" || exit 3
  ;;
C18)
  build "$W/bin" ./cmd/$LC || exit 3
  (cd $REPO && go build -o "$W/test_gen" ./cmd/test_gen) || { echo "harness error: test_gen does not build" >&2; exit 3; }
  EXTRA_ARGS="-bin $W/test_gen"
  ;;
C17)
  build "$W/bin" ./cmd/$LC || exit 3
  (cd $REPO && go build -o "$W/goose" ./cmd/goose) || { echo "harness error: goose does not build" >&2; exit 3; }
  EXTRA_ARGS="-bin $W/goose"
  ;;
C01|C02)
  build "$W/bin" ./cmd/c01 || exit 3
  (cd $REPO && go build -o "$W/goose" ./cmd/goose) || { echo "harness error: goose does not build" >&2; exit 3; }
  bridge
  EXTRA_ARGS="-prop $ID -bin $W/goose -bridge=$BRIDGE_BIN"
  ;;
C04|C08)
  build "$W/bin" ./cmd/$LC || exit 3
  (cd $REPO && go build -o "$W/goose" ./cmd/goose) || { echo "harness error: goose does not build" >&2; exit 3; }
  EXTRA_ARGS="-bin $W/goose"
  ;;
C03)
  build "$W/bin" ./cmd/$LC || exit 3
  (cd $REPO && go build -o "$W/goose" ./cmd/goose) || { echo "harness error: goose does not build" >&2; exit 3; }
  EXTRA_ARGS="-bin $W/goose"
  ;;
C05|C07)
  build "$W/bin" ./cmd/$LC || exit 3
  (cd $REPO && go build -o "$W/goose" ./cmd/goose) || { echo "harness error: goose does not build" >&2; exit 3; }
  bridge
  EXTRA_ARGS="-bin $W/goose -bridge=$BRIDGE_BIN"
  ;;
C06)
  instr $REPO/interface.go=sync,go,chan,yieldloops,load,maprange $REPO/goose.go=maprange $REPO/types.go=maprange $REPO/errors.go=maprange $REPO/idents.go=maprange $REPO/internal/coq/coq.go=maprange
  build "$W/bin" ./cmd/$LC -overlay "$W/ov.json" || exit 3
  (cd $REPO && go build -o "$W/goose" ./cmd/goose) || { echo "harness error: goose does not build" >&2; exit 3; }
  (cd $REPO && go build -race -o "$W/goose_race" ./cmd/goose) || { echo "harness error: goose -race does not build" >&2; exit 3; }
  EXTRA_ARGS="-bin $W/goose -race $W/goose_race"
  ;;
*) echo "unknown property $ID" >&2; exit 3;;
esac

if [ "$MODE" = "--replay" ]; then
  "$W/bin" ${EXTRA_ARGS:-} -replay "$ARG"; exit $?
fi
"$W/bin" ${EXTRA_ARGS:-} -tier "$MODE"
exit $?
