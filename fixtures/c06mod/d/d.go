package d

import "example.com/c06/a"

// Pair has the same name as a.Pair but another shape.
type Pair struct {
	first  uint64
	second bool
}

func Add(p Pair) uint64 {
	if p.second {
		return p.first
	}
	return a.Twice(p.first)
}
