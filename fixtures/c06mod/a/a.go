// Package a is plain.
package a

type Pair struct {
	x uint64
	y uint64
}

func Add(p Pair) uint64 {
	return p.x + p.y
}

func Twice(v uint64) uint64 {
	return Add(Pair{x: v, y: v})
}
