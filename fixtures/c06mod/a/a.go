// Package a is plain.
package a

type Pair struct {
	x uint64
	y uint64
}

func Add(p Pair) uint64 {
	return p.x + p.y
}

func Twice(v uint64) uint64 {
	return Add(Pair{x: v, y: v})
}

// a package-level variable (translated as a constant)
var Levela uint64 = 3

func ReadLevela() uint64 {
	return Levela + 1
}
