package e

import "sync"

type Counter struct {
	mu *sync.Mutex
	n  uint64
}

func (c *Counter) Inc() uint64 {
	c.mu.Lock()
	c.n = c.n + 1
	r := c.n
	c.mu.Unlock()
	return r
}

func Bad3(x uint64) uint64 {
	x *= 2
	return x
}
