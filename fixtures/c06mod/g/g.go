// Package g uses the struct type, method, constant and constructor of package f:
// what goose records about f.Entry must not depend on who asks first.
package g

import "example.com/c06/f"

type Table struct {
	first f.Entry
	rows  []f.Entry
}

func Build(k uint64) uint64 {
	e := f.Entry{Key: k, Val: 1}
	t := Table{first: e, rows: make([]f.Entry, 1)}
	t.rows[0] = f.Mk(k)
	p := &f.Entry{Key: 2, Val: f.Limit}
	return t.first.Key + t.rows[0].Val + e.Sum() + f.Use(p) + p.Val
}
