module example.com/c06

go 1.22

require github.com/goose-lang/goose v0.0.0

require golang.org/x/sys v0.22.0 // indirect

replace github.com/goose-lang/goose => /repo
