// Package h: one declaration with many independent forward references (the
// order in which they are pulled forward must not vary from run to run).
package h

func Top(x uint64) uint64 {
	var t T5
	t.v = H4
	return h1(x) + h2(x) + h3(x) + t.v + uint64(len(make([]T6, 1))) + H7
}

func h3(x uint64) uint64 {
	return x + 3
}

const H7 uint64 = 7

type T6 struct {
	w uint64
}

func h1(x uint64) uint64 {
	return x + 1
}

type T5 struct {
	v uint64
}

const H4 uint64 = 4

func h2(x uint64) uint64 {
	return x + 2
}

// a package-level variable (translated as a constant)
var Levelh uint64 = 3

func ReadLevelh() uint64 {
	return Levelh + 1
}
