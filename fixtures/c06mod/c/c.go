package c

func Good1(x uint64) uint64 {
	return x + 1
}

func Bad1(x uint64) uint64 {
	switch x {
	case 1:
		return 2
	}
	return x
}

func Good2(x uint64) uint64 {
	var y uint64 = Good1(x)
	y += 2
	return y
}

func Bad2(x uint64) uint64 {
	defer func() {}()
	return x
}

// Bad3 has a map key type that is not an identifier (the error message must not
// depend on where the translator's data happens to live).
func Bad3(m map[[2]uint64]uint64) uint64 {
	return uint64(len(m))
}

// a package-level variable (translated as a constant)
var Levelc uint64 = 3

func ReadLevelc() uint64 {
	return Levelc + 1
}
