package c

func Good1(x uint64) uint64 {
	return x + 1
}

func Bad1(x uint64) uint64 {
	switch x {
	case 1:
		return 2
	}
	return x
}

func Good2(x uint64) uint64 {
	var y uint64 = Good1(x)
	y += 2
	return y
}

func Bad2(x uint64) uint64 {
	defer func() {}()
	return x
}
