package b

import "github.com/goose-lang/goose/machine/disk"

func ReadFirst() disk.Block {
	return disk.Read(0)
}
