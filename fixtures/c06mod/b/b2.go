package b

import "github.com/goose-lang/goose/machine/disk"

type Pair struct {
	blk disk.Block
	n   uint64
}

func WriteIt(p *Pair) {
	disk.Write(p.n, p.blk)
}
