// Package f exports a struct, a method, a constant and an interface for package g.
package f

const Limit uint64 = 10

type Entry struct {
	Key uint64
	Val uint64
}

func (e Entry) Sum() uint64 {
	return e.Key + e.Val
}

type Summer interface {
	Sum() uint64
}

func Mk(k uint64) Entry {
	return Entry{Key: k, Val: Limit}
}

func Use(e *Entry) uint64 {
	e.Val = e.Val + 1
	return e.Key
}

// a package-level variable (translated as a constant)
var Levelf uint64 = 3

func ReadLevelf() uint64 {
	return Levelf + 1
}
