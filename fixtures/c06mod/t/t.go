// Package t reaches two different FFIs: it is refused, which must not hurt the packages translated with it.
package t

import (
	"github.com/goose-lang/goose/machine/async_disk"
	"github.com/goose-lang/goose/machine/disk"
)

func Both() uint64 {
	return disk.Size() + async_disk.BlockSize
}
