// Package good translates cleanly.
package good

// Add adds.
func Add(x uint64, y uint64) uint64 {
	return x + y
}

type Pair struct {
	a uint64
	b uint64
}

func (p Pair) Sum() uint64 {
	return Add(p.a, p.b)
}
