// Package other is alone on its path.
package other

func Other() uint64 {
	return 3
}
