// Package ab lives in a-b.
package ab

func Dash() uint64 {
	return 1
}
