module example.com/coll

go 1.22
