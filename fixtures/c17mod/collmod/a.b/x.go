// Package ab lives in a.b.
package ab

func Dot() uint64 {
	return 2
}
