module example.com/fix

go 1.22
