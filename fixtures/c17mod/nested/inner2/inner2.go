package inner2

import "example.com/fix/nested/inner"

func Inc2(x uint64) uint64 {
	return inner.Inc(inner.Inc(x))
}
