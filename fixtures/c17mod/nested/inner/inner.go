package inner

func Inc(x uint64) uint64 {
	return x + 1
}
