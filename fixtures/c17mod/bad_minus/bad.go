package bad

func First(x uint64) uint64 {
	return x + 1
}










func Last(x uint64) uint64 {
	return First(x) + 2
}
