package bad

import "example.com/fix/good"

func First(x uint64) uint64 {
	return good.Add(x, 1)
}










func Last(x uint64) uint64 {
	return First(x) + 2
}
