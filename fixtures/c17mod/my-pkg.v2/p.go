package mypkg

func Id(x uint64) uint64 {
	return x
}
