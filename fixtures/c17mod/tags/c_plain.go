//go:build !goose

package tags

func OnlyPlain() uint64 {
	return 3
}
