package tags

func OnWindowsOnly() uint64 {
	return 8
}
