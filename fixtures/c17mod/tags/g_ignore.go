//go:build ignore

package tags

func Ignored() uint64 {
	return 7
}
