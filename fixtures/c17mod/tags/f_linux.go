//go:build linux

package tags

func OnLinux() uint64 {
	return 6
}
