package tags

func Always() uint64 {
	return 1
}
