//go:build cgo

package tags

func WithCgo() uint64 {
	return 4
}
