//go:build !cgo

package tags

func WithoutCgo() uint64 {
	return 5
}
