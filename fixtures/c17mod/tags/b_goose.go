//go:build goose

package tags

func OnlyGoose() uint64 {
	return 2
}
