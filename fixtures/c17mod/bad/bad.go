package bad

import "example.com/fix/good"

func First(x uint64) uint64 {
	return good.Add(x, 1)
}

// Unsupported uses a switch statement, which goose rejects.
func Unsupported(x uint64) uint64 {
	switch x {
	case 1:
		return 2
	}
	return x
}

func Last(x uint64) uint64 {
	return First(x) + 2
}
