package loadfail

func Broken(x uint64) uint64 {
	return x + "not a number"
}
