package mcx

import (
	"context"
	"encoding/json"
	"fmt"
	"os"
	"os/exec"
	"strings"
	"time"

	"verif/ev"
)

// RacePass runs the free-running -race build of the same scenario bodies
// (binary named by VERIF_FREE_BIN) with GOMAXPROCS 1, 2, 16.
func RacePass(acc *ev.Acc, prop, tier string) {
	bin := os.Getenv("VERIF_FREE_BIN")
	if bin == "" {
		acc.NotExhaustive("race pass not run (no free binary)")
		return
	}
	for _, procs := range []string{"1", "2", "16"} {
		// the free-running pass only looks for data races; it has no say on deadlocks (the controlled
		// exploration decides those), so a run that does not come back is cut off and recorded, not judged
		limit := 5 * time.Minute
		if len(acc.Violations) > 0 {
			limit = time.Minute // the controlled exploration already has something to report
		}
		ctx, cancel := context.WithTimeout(context.Background(), limit)
		cmd := exec.CommandContext(ctx, bin, "-tier", tier)
		cmd.Env = append(os.Environ(), "GOMAXPROCS="+procs, "GORACE=halt_on_error=0 exitcode=66")
		var stderr strings.Builder
		cmd.Stderr = &stderr
		out, err := cmd.Output()
		timedOut := ctx.Err() != nil
		cancel()
		if timedOut {
			acc.NotExhaustive("free-running race pass cut off at GOMAXPROCS=" + procs + " (it blocked; deadlocks are decided by the controlled exploration)")
			break
		}
		races := strings.Count(stderr.String(), "WARNING: DATA RACE")
		acc.Add("race_pass_runs", 1)
		acc.Add("race_pass_races", int64(races))
		if races > 0 {
			first := stderr.String()
			if len(first) > 3000 {
				first = first[:3000]
			}
			acc.Violate(ev.Violation{Key: prop + "/data-race", Msg: fmt.Sprintf("race detector reported %d data race(s) in the free-running pass (GOMAXPROCS=%s): %s", races, procs, first), Replay: map[string]any{"mode": "free-race", "gomaxprocs": procs}})
			continue
		}
		if err != nil {
			fmt.Fprintln(os.Stderr, "harness error: free binary:", err, stderr.String())
			os.Exit(3)
		}
		lines := strings.Split(strings.TrimSpace(string(out)), "\n")
		var a ev.Acc
		if json.Unmarshal([]byte(lines[len(lines)-1]), &a) == nil {
			acc.Add("race_pass_free_runs", a.Counters["free_runs"])
			for _, v := range a.Violations {
				acc.Violate(v)
			}
		}
	}
}
