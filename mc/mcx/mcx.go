// Package mcx: glue between csched exploration and ev accumulation.
package mcx

import (
	"fmt"
	"os"
	"sort"
	"strings"
	"time"

	"verif/csched"
	"verif/ev"
)

// Case is one closed scenario. Mk is called once per execution and returns the
// thread-0 body and the verdict function evaluated after the execution.
type Case struct {
	Prop, ID string
	Bound    int
	MaxSteps int
	Deadline time.Time
	Mk       func() (body func(), verdict func(s *csched.Sched) (kind, msg, outcome string))
	Replay   any // scenario description stored in replay files
}

// Explore runs the case and records coverage / the first failure.
func Explore(c Case, acc *ev.Acc) {
	if c.MaxSteps == 0 {
		c.MaxSteps = 20000
	}
	outcomes := map[string]bool{}
	exec := func(prefix []byte, keep bool) (*csched.Sched, error) {
		body, verdict := c.Mk()
		s := csched.Run(prefix, c.MaxSteps, keep, body)
		if s.Horizon {
			return s, fmt.Errorf("horizon: execution exceeded %d steps", c.MaxSteps)
		}
		kind, msg, out := verdict(s)
		outcomes[out] = true
		if kind != "" {
			return s, fmt.Errorf("%s: %s", kind, msg)
		}
		return s, nil
	}
	st, fail, err := csched.Explore(csched.Options{Bound: c.Bound, MaxSteps: c.MaxSteps, Deadline: c.Deadline}, exec)
	if err != nil {
		fmt.Fprintln(os.Stderr, "HARNESS ERROR", c.ID, err)
		os.Exit(3)
	}
	acc.Add("scenarios", 1)
	acc.Add("executions", st.Execs)
	acc.Add("transitions", st.ChoicePoints)
	acc.SetMax("max_choice_points_per_execution", int64(st.MaxPoints))
	acc.Add("scenario_outcomes", int64(len(outcomes)))
	if len(outcomes) > 1 {
		acc.Add("scenarios_with_several_outcomes", 1)
	}
	if st.Capped {
		acc.NotExhaustive(st.CapReason)
	}
	var outs []string
	for o := range outcomes {
		outs = append(outs, o)
	}
	sort.Strings(outs)
	if len(outs) > 6 {
		outs = outs[:6]
	}
	acc.Sample(map[string]any{"scenario": c.ID, "executions": st.Execs, "bound": c.Bound, "some_outcomes": outs}, 3)
	if fail != nil {
		kind := strings.SplitN(fail.Err, ":", 2)[0]
		acc.Violate(ev.Violation{
			Key:    c.Prop + "/" + c.ID + "/" + kind,
			Msg:    fmt.Sprintf("%s with %d deviations: %s", c.ID, fail.Level, fail.Err),
			Replay: map[string]any{"scenario": c.Replay, "id": c.ID, "choices": fail.Choices, "trace": fail.Trace},
		})
	}
}

// ReplayOne runs a single recorded schedule and prints the trace.
func ReplayOne(c Case, choices []byte) (violated bool) {
	body, verdict := c.Mk()
	s := csched.Run(choices, 20000, true, body)
	for _, l := range s.Trace {
		fmt.Println(l)
	}
	kind, msg, out := verdict(s)
	fmt.Println("outcome:", out)
	if kind != "" {
		fmt.Printf("%s: %s\n", kind, msg)
		return true
	}
	return false
}

// ThreadPanics lists panics of controlled threads.
func ThreadPanics(s *csched.Sched) string {
	var out []string
	for _, t := range s.Threads() {
		if t.PanicVal != nil {
			out = append(out, fmt.Sprintf("t%d: %v", t.ID, t.PanicVal))
		}
	}
	return strings.Join(out, "; ")
}

// Finish fields for model-checking-level evidence from csched explorations.
func Extra(acc *ev.Acc, more map[string]any) map[string]any {
	m := map[string]any{
		"states":                        acc.Counters["executions"] + acc.Counters["states"],
		"traces_validated_against_impl": acc.Counters["executions"] + acc.Counters["traces_validated_against_impl"],
		"states_note":                   "states counts complete executions (distinct schedules / histories / crash images) of the real implementation plus BFS states where a BFS is part of the check; transitions = choice points taken + BFS transitions",
	}
	for k, v := range more {
		m[k] = v
	}
	return m
}
