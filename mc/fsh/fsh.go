// Package fsh: shared pieces of the filesystem harnesses (C12, C13, C14):
// implementations under test, data alphabet, dump.
package fsh

import (
	"fmt"
	"os"
	"sort"
	"strings"

	"github.com/goose-lang/goose/machine/filesys"

	"verif/libh"
	"verif/simunix"
)

// Dirs are the directory names every harness uses: one a prefix of the other.  VERIF_FS_DIRS
// replaces them (spelling variants such as "d2/": the same directory spelled with a trailing slash throughout).
var Dirs = func() []string {
	if v := os.Getenv("VERIF_FS_DIRS"); v != "" {
		return strings.Split(v, ",")
	}
	return []string{"d", "d2"}
}()
var NamesAB = []string{"f", "f.tmp"} // the second name is what a careless implementation would call its temporary file for the first

func Big(n int, seed byte) []byte {
	b := make([]byte, n)
	for i := range b {
		b[i] = 'A' + byte((i*7+int(seed))%26)
	}
	return b
}

var Data = [][]byte{{}, []byte("a"), []byte("bc"), Big(5000, 1)}

// Impl is one implementation under test.
type Impl struct {
	Name   string
	Fs     filesys.Filesys
	K      *simunix.Kernel
	Global bool
}

var ImplNames = []string{"mem", "dir", "global_mem", "global_dir"}

// Use makes the implementation current (kernel + global instance).
func (im *Impl) Use() {
	if im.K != nil {
		simunix.K = im.K
	}
	if im.Global {
		filesys.Fs = im.Fs
	}
}

// New makes a fresh instance with the two directories created.
func New(name string, trace bool) *Impl {
	im := &Impl{Name: name}
	switch name {
	case "mem", "global_mem":
		im.Fs = filesys.NewMemFs()
	case "dir", "global_dir":
		im.K = simunix.New()
		im.K.NoTrace = !trace
		simunix.K = im.K
		im.Fs = filesys.NewDirFs(".")
	default:
		panic("impl " + name)
	}
	im.Global = name == "global_mem" || name == "global_dir"
	for _, d := range Dirs {
		im.Fs.Mkdir(d)
	}
	return im
}

func (im *Impl) Create(d, n string) (filesys.File, bool) {
	im.Use()
	if im.Global {
		return filesys.Create(d, n)
	}
	return im.Fs.Create(d, n)
}
func (im *Impl) Append(f filesys.File, data []byte) {
	im.Use()
	if im.Global {
		filesys.Append(f, data)
		return
	}
	im.Fs.Append(f, data)
}
func (im *Impl) Close(f filesys.File) {
	im.Use()
	if im.Global {
		filesys.Close(f)
		return
	}
	im.Fs.Close(f)
}
func (im *Impl) Open(d, n string) filesys.File {
	im.Use()
	if im.Global {
		return filesys.Open(d, n)
	}
	return im.Fs.Open(d, n)
}
func (im *Impl) ReadAt(f filesys.File, off, l uint64) []byte {
	im.Use()
	if im.Global {
		return filesys.ReadAt(f, off, l)
	}
	return im.Fs.ReadAt(f, off, l)
}
func (im *Impl) Delete(d, n string) {
	im.Use()
	if im.Global {
		filesys.Delete(d, n)
		return
	}
	im.Fs.Delete(d, n)
}
func (im *Impl) AtomicCreate(d, n string, data []byte) {
	im.Use()
	if im.Global {
		filesys.AtomicCreate(d, n, data)
		return
	}
	im.Fs.AtomicCreate(d, n, data)
}
func (im *Impl) Link(od, on, nd, nn string) bool {
	im.Use()
	if im.Global {
		return filesys.Link(od, on, nd, nn)
	}
	return im.Fs.Link(od, on, nd, nn)
}
func (im *Impl) List(d string) []string {
	im.Use()
	var l []string
	if im.Global {
		l = filesys.List(d)
	} else {
		l = im.Fs.List(d)
	}
	l = append([]string(nil), l...)
	sort.Strings(l)
	return l
}

// Dump reads everything back through the public API.
func (im *Impl) Dump() (out map[string]string, problem string) {
	out = map[string]string{}
	problem = libh.Try(func() {
		for _, d := range Dirs {
			out[d+"/"] = ""
			for _, n := range im.List(d) {
				h := im.Open(d, n)
				data := im.ReadAt(h, 0, 1<<20)
				im.Close(h)
				if _, dup := out[d+"/"+n]; dup {
					panic(fmt.Sprintf("List(%s) returned %q twice", d, n))
				}
				out[d+"/"+n] = string(data)
			}
		}
	})
	return
}

func Short(b []byte) string {
	if len(b) > 24 {
		return fmt.Sprintf("%q…(%d bytes)", b[:12], len(b))
	}
	return fmt.Sprintf("%q", b)
}

func DiffDump(got, want map[string]string) string {
	for k, w := range want {
		g, ok := got[k]
		if !ok {
			return fmt.Sprintf("%s missing (reference has %s)", k, Short([]byte(w)))
		}
		if g != w {
			return fmt.Sprintf("%s = %s, reference %s", k, Short([]byte(g)), Short([]byte(w)))
		}
	}
	for k := range got {
		if _, ok := want[k]; !ok {
			return fmt.Sprintf("%s exists, absent in the reference", k)
		}
	}
	return ""
}
