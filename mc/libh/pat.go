// Package libh: helpers shared by the library harnesses (block patterns,
// panic capture, temp dirs).
package libh

import (
	"fmt"
	"os"
	"strings"

	"verif/csched"
)

const BlockSize = 4096

// Pattern ids: "0" zero block, "A","B" position-dependent patterns, "D" dirty
// filler; a leading "~" is the byte-wise complement.
func Pat(id string) []byte {
	if c, ok := patCache[id]; ok {
		return append([]byte(nil), c...)
	}
	b := genPat(id)
	patCache[id] = b
	return append([]byte(nil), b...)
}

var patCache = map[string][]byte{}

func genPat(id string) []byte {
	b := make([]byte, BlockSize)
	flip := strings.HasPrefix(id, "~")
	base := strings.TrimPrefix(id, "~")
	for i := range b {
		var x byte
		switch base {
		case "0":
			x = 0
		case "A":
			x = byte((i*31+101)%251) | 1
		case "B":
			x = byte((i*17+7)%241) | 2
		case "C":
			x = byte((i*13+3)%239) | 4
		case "D":
			x = 0xEE
		default:
			panic("pattern " + id)
		}
		if flip {
			x = ^x
		}
		b[i] = x
	}
	return b
}

var allIDs = []string{"0", "A", "B", "C", "D", "~0", "~A", "~B", "~C", "~D"}

// Classify names a block by pattern id, or describes it.
func Classify(b []byte) string {
	if len(b) != BlockSize {
		return fmt.Sprintf("len%d", len(b))
	}
	for _, id := range allIDs {
		p, ok := patCache[id]
		if !ok {
			Pat(id)
			p = patCache[id]
		}
		if string(p) == string(b) {
			return id
		}
	}
	// describe: which pattern at start / end
	return fmt.Sprintf("?mixed(first=%d,mid=%d,last=%d)", b[0], b[BlockSize/2], b[BlockSize-1])
}

func Flip(id string) string {
	if strings.HasPrefix(id, "~") {
		return id[1:]
	}
	return "~" + id
}

func FlipBytes(b []byte) {
	for i := range b {
		b[i] = ^b[i]
	}
}

// Try runs f and reports a panic as a string ("" = returned normally).
func Try(f func()) (panicked string) {
	defer func() {
		if r := recover(); r != nil {
			if csched.IsAbort(r) {
				panic(r)
			}
			panicked = fmt.Sprint(r)
			if panicked == "" {
				panicked = "panic"
			}
		}
	}()
	f()
	return ""
}

// TempDir makes a scratch directory for real-kernel replays.
func TempDir(tag string) string {
	d, err := os.MkdirTemp("", "verif-"+tag+"-")
	if err != nil {
		panic(err)
	}
	return d
}
