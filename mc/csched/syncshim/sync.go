// Package syncshim mirrors the part of package sync used by the code under
// test; every operation is a csched scheduling point and blocking is modelled
// as "not enabled".  Outside a controlled run the types degrade to
// single-threaded bookkeeping.
package syncshim

import (
	"verif/csched"
)

type Locker interface {
	Lock()
	Unlock()
}

type Mutex struct {
	held     bool
	vc       csched.VC
	Releases int // number of Unlocks so far (lets timed waits skip stuttering re-acquisitions)
}

func (m *Mutex) Lock() {
	if s := csched.S; csched.Active() {
		s.Point(func() bool { return !m.held }, "Mutex.Lock")
		csched.Acquire(m.vc)
	}
	m.held = true
}

func (m *Mutex) TryLock() bool {
	if s := csched.S; csched.Active() {
		s.Point(nil, "Mutex.TryLock")
	}
	if m.held {
		return false
	}
	csched.Acquire(m.vc)
	m.held = true
	return true
}

func (m *Mutex) Unlock() {
	if s := csched.S; csched.Active() {
		s.Point(nil, "Mutex.Unlock")
		if !m.held {
			panic("sync: unlock of unlocked mutex")
		}
		m.vc = csched.CurVC().Copy()
		csched.Tick()
	} else if csched.S != nil {
		return // aborting: no-op
	}
	m.held = false
	m.Releases++
}

// Held is for harness oracles.
func (m *Mutex) Held() bool { return m.held }

type RWMutex struct {
	w       bool
	wmu     bool // a writer has announced itself (Go: holds rw.w and has made readerCount negative): new readers wait
	readers int
	vc      csched.VC // released by writers
	rvc     csched.VC // released by readers
}

func (m *RWMutex) Lock() {
	if s := csched.S; csched.Active() {
		// as in sync.RWMutex: the writer first announces itself, which blocks readers that
		// arrive later (also a second RLock by a goroutine that already holds one), then
		// waits for the readers that are inside
		s.Point(func() bool { return !m.wmu }, "RWMutex.Lock")
		m.wmu = true
		if m.readers > 0 {
			s.Point(func() bool { return m.readers == 0 }, "RWMutex.Lock(wait for readers)")
		}
		csched.Acquire(m.vc)
		csched.Acquire(m.rvc)
	}
	m.wmu = true
	m.w = true
}

func (m *RWMutex) Unlock() {
	if s := csched.S; csched.Active() {
		s.Point(nil, "RWMutex.Unlock")
		if !m.w {
			panic("sync: Unlock of unlocked RWMutex")
		}
		m.vc = csched.CurVC().Copy()
		csched.Tick()
	} else if csched.S != nil {
		return
	}
	m.w = false
	m.wmu = false
}

func (m *RWMutex) RLock() {
	if s := csched.S; csched.Active() {
		s.Point(func() bool { return !m.wmu }, "RWMutex.RLock")
		csched.Acquire(m.vc)
	}
	m.readers++
}

func (m *RWMutex) RUnlock() {
	if s := csched.S; csched.Active() {
		s.Point(nil, "RWMutex.RUnlock")
		if m.readers <= 0 {
			panic("sync: RUnlock of unlocked RWMutex")
		}
		m.rvc = m.rvc.Join(csched.CurVC())
		csched.Tick()
	} else if csched.S != nil {
		return
	}
	m.readers--
}

func (m *RWMutex) RLocker() Locker { return (*rlocker)(m) }

type rlocker RWMutex

func (r *rlocker) Lock()   { (*RWMutex)(r).RLock() }
func (r *rlocker) Unlock() { (*RWMutex)(r).RUnlock() }

type waiter struct {
	signalled bool
	vc        csched.VC
}

type Cond struct {
	L       Locker
	waiters []*waiter
}

func NewCond(l Locker) *Cond { return &Cond{L: l} }

func (c *Cond) Wait() {
	if s := csched.S; csched.Active() {
		s.Point(nil, "Cond.Wait")
		w := &waiter{}
		c.waiters = append(c.waiters, w)
		c.L.Unlock()
		s.Point(func() bool { return w.signalled }, "Cond.Wait(parked)")
		csched.Acquire(w.vc)
		c.L.Lock()
		return
	}
	if csched.S != nil {
		return
	}
	panic("syncshim: Cond.Wait outside a controlled run would block forever")
}

func (c *Cond) Signal() {
	if s := csched.S; csched.Active() {
		s.Point(nil, "Cond.Signal")
	}
	if len(c.waiters) > 0 {
		w := c.waiters[0]
		c.waiters = c.waiters[1:]
		w.signalled = true
		w.vc = csched.CurVC().Copy()
		csched.Tick()
	}
}

func (c *Cond) Broadcast() {
	if s := csched.S; csched.Active() {
		s.Point(nil, "Cond.Broadcast")
	}
	for _, w := range c.waiters {
		w.signalled = true
		w.vc = csched.CurVC().Copy()
	}
	if len(c.waiters) > 0 {
		csched.Tick()
	}
	c.waiters = nil
}

// WaitOrTimeout models a timed wait on the logical clock: the lock is released
// and re-acquired; the waiter resumes when it was signalled or (time-out) at
// any point after some other thread released the lock in between (stutter-free
// subset of "the timer may fire at any time").
func (c *Cond) WaitOrTimeout() {
	s := csched.S
	if !csched.Active() {
		return
	}
	s.Point(nil, "Cond.WaitOrTimeout")
	m, ok := c.L.(*Mutex)
	if !ok {
		c.Wait()
		return
	}
	w := &waiter{}
	c.waiters = append(c.waiters, w)
	m.Unlock()
	mine := m.Releases
	s.Point(func() bool { return (w.signalled || m.Releases > mine) && !m.held }, "Cond.WaitOrTimeout(parked)")
	// leave the waiter list if we timed out
	for i, x := range c.waiters {
		if x == w {
			c.waiters = append(c.waiters[:i:i], c.waiters[i+1:]...)
			break
		}
	}
	csched.Acquire(w.vc)
	csched.Acquire(m.vc)
	m.held = true
}

// NumWaiters is for harness oracles.
func (c *Cond) NumWaiters() int { return len(c.waiters) }

type WaitGroup struct {
	n  int
	vc csched.VC
}

func (wg *WaitGroup) Add(delta int) {
	if s := csched.S; csched.Active() {
		s.Point(nil, "WaitGroup.Add")
		wg.vc = wg.vc.Join(csched.CurVC())
		csched.Tick()
	} else if csched.S != nil {
		return
	}
	wg.n += delta
	if wg.n < 0 {
		panic("sync: negative WaitGroup counter")
	}
}

func (wg *WaitGroup) Done() { wg.Add(-1) }

func (wg *WaitGroup) Wait() {
	if s := csched.S; csched.Active() {
		s.Point(func() bool { return wg.n == 0 }, "WaitGroup.Wait")
		csched.Acquire(wg.vc)
	}
}

type Once struct {
	done bool
	m    Mutex
}

func (o *Once) Do(f func()) {
	o.m.Lock()
	defer o.m.Unlock()
	if !o.done {
		o.done = true
		f()
	}
}

// Pool mirrors sync.Pool: Get may return any object handed to Put earlier (most recent first) or a
// fresh one; both are scheduling points.
type Pool struct {
	New        func() any
	items      []any
	registered bool
}

func (p *Pool) register() {
	if !p.registered {
		p.registered = true
		csched.OnRunStart(func() { p.items = nil })
	}
}

func (p *Pool) Get() any {
	p.register()
	csched.Yield("Pool.Get")
	if n := len(p.items); n > 0 {
		x := p.items[n-1]
		p.items = p.items[:n-1]
		return x
	}
	if p.New != nil {
		return p.New()
	}
	return nil
}

func (p *Pool) Put(x any) {
	p.register()
	csched.Yield("Pool.Put")
	p.items = append(p.items, x)
}

// Map mirrors the part of sync.Map that is commonly used; every operation is one atomic step
// after a scheduling point.
type Map struct {
	m     map[any]any
	order []any
}

func (m *Map) Load(k any) (any, bool) {
	csched.Yield("Map.Load")
	v, ok := m.m[k]
	return v, ok
}

func (m *Map) Store(k, v any) {
	csched.Yield("Map.Store")
	if m.m == nil {
		m.m = map[any]any{}
	}
	if _, ok := m.m[k]; !ok {
		m.order = append(m.order, k)
	}
	m.m[k] = v
}

func (m *Map) LoadOrStore(k, v any) (any, bool) {
	csched.Yield("Map.LoadOrStore")
	if old, ok := m.m[k]; ok {
		return old, true
	}
	if m.m == nil {
		m.m = map[any]any{}
	}
	m.order = append(m.order, k)
	m.m[k] = v
	return v, false
}

func (m *Map) Delete(k any) {
	csched.Yield("Map.Delete")
	delete(m.m, k)
}

func (m *Map) Range(f func(k, v any) bool) {
	csched.Yield("Map.Range")
	for _, k := range append([]any(nil), m.order...) {
		if v, ok := m.m[k]; ok {
			if !f(k, v) {
				return
			}
		}
	}
}
