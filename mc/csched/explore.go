package csched

import (
	"fmt"
	"time"
)

// Options bound an exploration.
type Options struct {
	Bound    int   // max deviations (preemptions + costed data choices)
	MaxExecs int64 // 0 = unlimited
	MaxSteps int   // per-execution horizon
	Deadline time.Time
}

type Stats struct {
	Execs          int64
	ByLevel        []int64
	BoundCompleted int // highest deviation level fully explored (-1 if none)
	Capped         bool
	CapReason      string
	ChoicePoints   int64
	MaxPoints      int
	Deadlocks      int64
	Horizons       int64
}

type Failure struct {
	Choices []byte
	Err     string
	Trace   []string
	Level   int
}

// ExecFn runs one execution that replays prefix, checks the oracle, and returns
// the finished scheduler and a non-nil error for a violation.
type ExecFn func(prefix []byte, keepTrace bool) (*Sched, error)

// HarnessError is fatal: nondeterminism the harness does not control.
type HarnessError struct{ Msg string }

func (e *HarnessError) Error() string { return "harness error: " + e.Msg }

// Explore enumerates every execution with at most opt.Bound deviations, in
// order of increasing deviation count (so the first failure has the fewest
// deviations).  Each execution is run exactly once.
func Explore(opt Options, exec ExecFn) (Stats, *Failure, error) {
	st := Stats{BoundCompleted: -1, ByLevel: make([]int64, opt.Bound+1)}
	levels := make([][][]byte, opt.Bound+2)
	levels[0] = [][]byte{nil}
	for lvl := 0; lvl <= opt.Bound; lvl++ {
		stack := levels[lvl]
		levels[lvl] = nil
		for len(stack) > 0 {
			if opt.MaxExecs > 0 && st.Execs >= opt.MaxExecs {
				st.Capped, st.CapReason = true, fmt.Sprintf("max executions %d", opt.MaxExecs)
				return st, nil, nil
			}
			if !opt.Deadline.IsZero() && st.Execs%64 == 0 && time.Now().After(opt.Deadline) {
				st.Capped, st.CapReason = true, "internal deadline"
				return st, nil, nil
			}
			prefix := stack[len(stack)-1]
			stack = stack[:len(stack)-1]
			s, err := exec(prefix, false)
			st.Execs++
			st.ByLevel[lvl]++
			if s.Diverged {
				return st, nil, &HarnessError{fmt.Sprintf("prefix %v: %s", prefix, s.DivergeMsg)}
			}
			if len(s.Choices) < len(prefix) {
				return st, nil, &HarnessError{fmt.Sprintf("prefix %v longer than execution %v", prefix, s.Choices)}
			}
			st.ChoicePoints += int64(len(s.Points))
			if len(s.Points) > st.MaxPoints {
				st.MaxPoints = len(s.Points)
			}
			if s.Deadlock {
				st.Deadlocks++
			}
			if s.Horizon {
				st.Horizons++
			}
			if err != nil {
				// replay twice; observations must be identical
				full := append([]byte(nil), s.Choices...)
				for i := 0; i < 2; i++ {
					s2, err2 := exec(full, true)
					if err2 == nil || err2.Error() != err.Error() || s2.Diverged {
						return st, nil, &HarnessError{fmt.Sprintf("failure not reproducible: first %q, replay %v (choices %v)", err, err2, full)}
					}
					if i == 1 {
						return st, &Failure{Choices: full, Err: err.Error(), Trace: s2.Trace, Level: lvl}, nil
					}
				}
			}
			for i := len(prefix); i < len(s.Points); i++ {
				p := s.Points[i]
				if p.N <= 1 {
					continue
				}
				d := p.Before + p.Cost
				if d > opt.Bound {
					continue
				}
				for alt := 1; alt < p.N; alt++ {
					np := make([]byte, i+1)
					copy(np, s.Choices[:i])
					np[i] = byte(alt)
					if d == lvl {
						stack = append(stack, np)
					} else {
						levels[d] = append(levels[d], np)
					}
				}
			}
		}
		st.BoundCompleted = lvl
	}
	return st, nil, nil
}
