package csched

// Chan models a Go channel under the controlled scheduler (enough for the
// channel forms the code under test uses: make, close, receive, send, select
// over receives).
type Chan[T any] struct {
	buf     []T
	cap     int
	closed  bool
	waiting int // receivers currently parked on this channel
	vc      VC
}

func MakeChan[T any](n int) *Chan[T] { return &Chan[T]{cap: n} }

type Selectable interface {
	ready() bool
	addWaiter(d int)
}

func (c *Chan[T]) ready() bool     { return len(c.buf) > 0 || c.closed }
func (c *Chan[T]) addWaiter(d int) { c.waiting += d }

func CloseChan[T any](c *Chan[T]) {
	if s := S; s != nil && !s.aborting {
		s.Point(nil, "chan.close")
	}
	if c.closed {
		panic("close of closed channel")
	}
	c.closed = true
	c.vc = c.vc.Join(CurVC())
	Tick()
}

func (c *Chan[T]) take() (v T, ok bool) {
	if len(c.buf) > 0 {
		v = c.buf[0]
		c.buf = c.buf[1:]
		Acquire(c.vc)
		return v, true
	}
	Acquire(c.vc)
	return v, false // closed
}

func Recv[T any](c *Chan[T]) T {
	s := S
	if s == nil || s.aborting {
		v, _ := c.take()
		return v
	}
	c.waiting++
	s.Point(c.ready, "chan.recv")
	c.waiting--
	v, _ := c.take()
	return v
}

func Send[T any](c *Chan[T], v T) {
	s := S
	if s != nil && !s.aborting {
		s.Point(func() bool {
			return c.closed || len(c.buf) < c.cap || (c.cap == 0 && c.waiting > len(c.buf))
		}, "chan.send")
	}
	if c.closed {
		panic("send on closed channel")
	}
	c.buf = append(c.buf, v)
	c.vc = c.vc.Join(CurVC())
	Tick()
}

// TrySend is a non-blocking send (used by timers).
func TrySend[T any](c *Chan[T], v T) bool {
	if c.closed || len(c.buf) >= c.cap {
		return false
	}
	c.buf = append(c.buf, v)
	c.vc = c.vc.Join(CurVC())
	Tick()
	return true
}

// Select blocks until one of the receive cases is ready, consumes from it and
// returns its index. Among several ready cases the choice is free
// nondeterminism (cost 0).
func Select(cases ...Selectable) int {
	s := S
	if s != nil && !s.aborting {
		for _, c := range cases {
			c.addWaiter(1)
		}
		s.Point(func() bool {
			for _, c := range cases {
				if c.ready() {
					return true
				}
			}
			return false
		}, "select")
		for _, c := range cases {
			c.addWaiter(-1)
		}
	}
	var rdy []int
	for i, c := range cases {
		if c.ready() {
			rdy = append(rdy, i)
		}
	}
	if len(rdy) == 0 {
		return -1
	}
	k := rdy[Choose(len(rdy), 0)]
	cases[k].(consumer).consume()
	return k
}

type consumer interface{ consume() }

func (c *Chan[T]) consume() { c.take() }
