// Package timeshim mirrors the part of package time used by the code under
// test, on a logical clock.  A timer created by After may fire at any point
// the explorer chooses (if the harness policy allows that timer to fire at all).
package timeshim

import (
	"time"

	"verif/csched"
)

type Duration = time.Duration
type Time = time.Time

const (
	Nanosecond  = time.Nanosecond
	Microsecond = time.Microsecond
	Millisecond = time.Millisecond
	Second      = time.Second
	Minute      = time.Minute
	Hour        = time.Hour
)

var logical int64

// MayFire decides, per timer (index in creation order within the execution),
// whether it is allowed to fire.  Reset by Reset().
var MayFire = func(i int, d Duration) bool { return true }
var timers int

// Fired counts timers that fired in this execution.
var Fired int

func Reset() { timers, Fired, logical = 0, 0, 0 }

func Now() Time {
	logical++
	return time.Unix(0, logical)
}

func Sleep(d Duration) { csched.Yield("time.Sleep") }

func Since(t Time) Duration { return Now().Sub(t) }

func After(d Duration) *csched.Chan[Time] {
	c := csched.MakeChan[Time](1)
	idx := timers
	timers++
	allowed := MayFire(idx, d)
	if csched.S == nil {
		if allowed {
			csched.TrySend(c, Now())
		}
		return c
	}
	csched.GoDaemon(func() {
		csched.S.Point(func() bool { return allowed }, "timer.fire")
		Fired++
		csched.TrySend(c, Now())
	})
	return c
}

// Timer is the handle returned by AfterFunc and NewTimer.
type Timer struct {
	C              *csched.Chan[Time] // nil for AfterFunc timers
	f              func()
	stopped, fired bool
	gen            int
}

// Stop prevents the timer from firing; it reports whether it did so before the timer fired.
func (t *Timer) Stop() bool {
	was := !t.stopped && !t.fired
	t.stopped = true
	return was
}

// Reset re-arms the timer; it reports whether the timer had been active.
func (t *Timer) Reset(d Duration) bool {
	was := !t.stopped && !t.fired
	t.stopped, t.fired = false, false
	t.gen++
	t.arm(d)
	return was
}

func (t *Timer) arm(d Duration) {
	idx := timers
	timers++
	allowed := MayFire(idx, d)
	if csched.S == nil {
		return
	}
	gen := t.gen
	csched.GoDaemon(func() {
		csched.S.Point(func() bool { return allowed && !t.stopped && t.gen == gen }, "timer.fire")
		t.fired = true
		Fired++
		if t.f != nil {
			t.f()
		} else {
			csched.TrySend(t.C, Now())
		}
	})
}

// NewTimer: the channel receives at any point the explorer chooses after the call (if the
// harness policy allows that timer to fire and it has not been stopped).
func NewTimer(d Duration) *Timer {
	t := &Timer{C: csched.MakeChan[Time](1)}
	t.arm(d)
	return t
}

// AfterFunc runs f in its own thread at any point the explorer chooses after
// the call (if the harness policy allows that timer to fire and it has not been stopped).
func AfterFunc(d Duration, f func()) *Timer {
	t := &Timer{f: f}
	t.arm(d)
	return t
}
