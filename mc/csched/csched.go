// Package csched is a cooperative controlled scheduler plus a stateless,
// deviation-bounded explorer.  One real goroutine per logical thread; exactly
// one runs at a time.  Hooked operations call Point before taking effect; the
// scheduler then picks the next thread from the enabled set.  The schedule of
// an execution is the list of choices made at points that had more than one
// alternative.
package csched

import (
	"fmt"
	"runtime/debug"
	"sort"
	"strings"
)

type abortT struct{}

var abortSentinel = abortT{}

// IsAbort reports whether a recovered value is the scheduler's abort sentinel;
// user-level recover() wrappers must re-panic it.
func IsAbort(r any) bool { _, ok := r.(abortT); return ok }

// VC is a vector clock.
type VC []int

func (a VC) Join(b VC) VC {
	if len(b) > len(a) {
		n := make(VC, len(b))
		copy(n, a)
		a = n
	}
	for i, x := range b {
		if x > a[i] {
			a[i] = x
		}
	}
	return a
}
func (a VC) Copy() VC { return append(VC(nil), a...) }

// Leq: a happens-before-or-equal b
func (a VC) Leq(b VC) bool {
	for i, x := range a {
		if x == 0 {
			continue
		}
		if i >= len(b) || x > b[i] {
			return false
		}
	}
	return true
}

type Thread struct {
	ID       int
	wake     chan struct{}
	exited   chan struct{}
	done     bool
	started  bool
	enabled  func() bool
	Desc     string
	VC       VC
	PanicVal any
	Stack    string
	Daemon   bool // daemon threads may remain blocked at the end without it being a deadlock
}

func (t *Thread) isEnabled() bool { return t.enabled == nil || t.enabled() }

// Point describes one recorded choice point.
type Point struct {
	N      int // number of alternatives
	Cost   int // cost (deviations) of taking an alternative other than 0
	Before int // deviations accumulated before this point
	Kind   byte
}

type Sched struct {
	threads     []*Thread
	cur         *Thread
	prefix      []byte
	Choices     []byte
	Points      []Point
	Steps       int
	MaxSteps    int
	Deviations  int
	aborting    bool
	abortBy     *Thread
	Deadlock    bool
	Horizon     bool
	Diverged    bool // replay prefix did not fit
	DivergeMsg  string
	finished    chan struct{}
	Trace       []string
	KeepTrace   bool
	BlockedDesc []string
}

// S is the active scheduler (nil when code runs uncontrolled).
var S *Sched

func Active() bool { return S != nil && !S.aborting }

func (s *Sched) Cur() *Thread { return s.cur }

func (s *Sched) logf(format string, a ...any) {
	if s.KeepTrace {
		s.Trace = append(s.Trace, fmt.Sprintf("t%d ", s.cur.ID)+fmt.Sprintf(format, a...))
	}
}

// Logf appends to the execution trace (if kept).
func Logf(format string, a ...any) {
	if S != nil && S.KeepTrace && S.cur != nil {
		S.logf(format, a...)
	}
}

// Run executes body as thread 0 under a fresh scheduler, replaying prefix and
// taking choice 0 afterwards. It returns when every thread finished, or on
// deadlock / horizon (remaining threads are aborted).
// resetHooks run at the start of every execution: shim objects that live in package-level variables of
// the code under test (a sync.Pool, say) must not carry state from one explored execution into the next.
var resetHooks []func()

func OnRunStart(f func()) { resetHooks = append(resetHooks, f) }

func Run(prefix []byte, maxSteps int, keepTrace bool, body func()) *Sched {
	for _, h := range resetHooks {
		h()
	}
	s := &Sched{prefix: prefix, MaxSteps: maxSteps, finished: make(chan struct{}), KeepTrace: keepTrace}
	if S != nil {
		panic("csched: nested Run")
	}
	S = s
	t := s.newThread(body)
	t.VC = VC{1}
	s.cur = t
	t.wake <- struct{}{}
	<-s.finished
	S = nil
	return s
}

func (s *Sched) newThread(f func()) *Thread {
	t := &Thread{ID: len(s.threads), wake: make(chan struct{}, 1), exited: make(chan struct{}, 1)}
	s.threads = append(s.threads, t)
	go func() {
		<-t.wake
		t.started = true
		defer func() {
			r := recover()
			if r != nil && !IsAbort(r) {
				t.PanicVal = r
				t.Stack = string(debug.Stack())
			}
			t.done = true
			s.onExit(t)
		}()
		if s.aborting {
			return
		}
		f()
	}()
	return t
}

// Go spawns a controlled thread.
func Go(f func()) {
	s := S
	if s == nil {
		go f()
		return
	}
	if s.aborting {
		return
	}
	parent := s.cur
	t := s.newThread(f)
	// happens-before: spawn
	t.VC = parent.VC.Copy()
	for len(t.VC) <= t.ID {
		t.VC = append(t.VC, 0)
	}
	t.VC[t.ID] = 1
	parent.VC[parent.ID]++
	s.logf("go t%d", t.ID)
	s.Point(nil, "after-go")
}

// GoDaemon spawns a thread whose being blocked forever at the end is not a deadlock.
func GoDaemon(f func()) {
	s := S
	if s == nil {
		go f()
		return
	}
	n := len(s.threads)
	Go(f)
	if n < len(s.threads) {
		s.threads[n].Daemon = true
	}
}

func (s *Sched) pick(self *Thread, selfEnabled bool) *Thread {
	var en [8]*Thread
	list := en[:0]
	if self != nil && !self.done && selfEnabled {
		list = append(list, self)
	}
	for _, t := range s.threads {
		if t != self && !t.done && t.isEnabled() {
			list = append(list, t)
		}
	}
	if len(list) == 0 {
		return nil
	}
	idx := 0
	if len(list) > 1 {
		cost := 0
		if len(list) > 0 && list[0] == self {
			cost = 1
		}
		idx = s.choose(len(list), cost, 'T')
	}
	return list[idx]
}

func (s *Sched) choose(n, cost int, kind byte) int {
	k := len(s.Choices)
	idx := 0
	if k < len(s.prefix) {
		idx = int(s.prefix[k])
		if idx >= n {
			s.Diverged = true
			s.DivergeMsg = fmt.Sprintf("replay divergence at point %d: choice %d of %d", k, idx, n)
			idx = 0
		}
	}
	s.Choices = append(s.Choices, byte(idx))
	s.Points = append(s.Points, Point{N: n, Cost: cost, Before: s.Deviations, Kind: kind})
	if idx != 0 {
		s.Deviations += cost
	}
	return idx
}

// Choose is a data choice point with n alternatives (default 0); a non-default
// answer costs `cost` deviations.
func Choose(n, cost int) int {
	s := S
	if s == nil || s.aborting || n <= 1 {
		return 0
	}
	return s.choose(n, cost, 'D')
}

// Point is a scheduling point: the current thread is about to perform an
// operation that is enabled iff enabled() (nil = always).
func (s *Sched) Point(enabled func() bool, desc string) {
	if s.aborting {
		return
	}
	self := s.cur
	s.Steps++
	if s.MaxSteps > 0 && s.Steps > s.MaxSteps {
		s.Horizon = true
		s.abortAll(self)
		panic(abortSentinel)
	}
	self.enabled = enabled
	self.Desc = desc
	next := s.pick(self, self.isEnabled())
	if next == nil {
		s.noteDeadlock()
		s.abortAll(self)
		panic(abortSentinel)
	}
	if next != self {
		s.cur = next
		next.wake <- struct{}{}
		<-self.wake
		if s.aborting {
			panic(abortSentinel)
		}
	}
	self.enabled = nil
	if s.KeepTrace {
		s.logf("%s", desc)
	}
}

func (s *Sched) noteDeadlock() {
	s.Deadlock = true
	for _, t := range s.threads {
		if !t.done {
			s.BlockedDesc = append(s.BlockedDesc, fmt.Sprintf("t%d:%s", t.ID, t.Desc))
		}
	}
}

// abortAll unwinds every other unfinished thread, one at a time.
func (s *Sched) abortAll(self *Thread) {
	s.aborting = true
	s.abortBy = self
	for _, t := range s.threads {
		if t == self || t.done {
			continue
		}
		s.cur = t
		t.wake <- struct{}{}
		<-t.exited
	}
	s.cur = self
}

func (s *Sched) onExit(t *Thread) {
	if s.aborting {
		if t == s.abortBy {
			close(s.finished)
		} else {
			t.exited <- struct{}{}
		}
		return
	}
	next := s.pick(nil, false)
	if next != nil {
		s.cur = next
		next.wake <- struct{}{}
		return
	}
	// nobody enabled
	alldone := true
	for _, u := range s.threads {
		if !u.done && !u.Daemon {
			alldone = false
		}
	}
	if !alldone {
		s.noteDeadlock()
	}
	s.abortAll(t)
	close(s.finished)
}

// Yield is an always-enabled scheduling point.
func Yield(site string) {
	if s := S; s != nil && !s.aborting {
		s.Point(nil, site)
	}
}

// Threads returns the threads of the finished execution.
func (s *Sched) Threads() []*Thread { return s.threads }

func (s *Sched) String() string {
	var b strings.Builder
	fmt.Fprintf(&b, "choices=%v deadlock=%v horizon=%v steps=%d", s.Choices, s.Deadlock, s.Horizon, s.Steps)
	return b.String()
}

// HB helpers for clients that want happens-before race detection.
func Tick() {
	if s := S; s != nil && s.cur != nil {
		s.cur.VC[s.cur.ID]++
	}
}
func CurVC() VC {
	if s := S; s != nil && s.cur != nil {
		return s.cur.VC
	}
	return nil
}
func Acquire(from VC) {
	if s := S; s != nil && s.cur != nil {
		s.cur.VC = s.cur.VC.Join(from)
	}
}
func CurID() int {
	if s := S; s != nil && s.cur != nil {
		return s.cur.ID
	}
	return 0
}

// Copy is builtin copy split in two halves with a preemption point between
// them, so that a copy that is not protected by a lock can be observed torn.
func Copy[E any](dst, src []E) int {
	n := len(dst)
	if len(src) < n {
		n = len(src)
	}
	if S == nil || S.aborting || n < 2 {
		return copy(dst, src)
	}
	h := n / 2
	copy(dst[:h], src[:h])
	Yield("copy-mid")
	copy(dst[h:n], src[h:n])
	return n
}

// MapOrder returns the keys of m in an order chosen by the explorer: Go leaves
// the iteration order of maps unspecified, so every order is a behaviour.  The
// default (choice 0) is the order of the keys' printed form; maps of up to 4
// keys get all permutations, larger ones all rotations of that order and of
// its reverse.  Each non-default order costs one deviation.
func MapOrder[M ~map[K]V, K comparable, V any](m M) []K {
	keys := make([]K, 0, len(m))
	for k := range m {
		keys = append(keys, k)
	}
	sort.Slice(keys, func(i, j int) bool { return fmt.Sprint(keys[i]) < fmt.Sprint(keys[j]) })
	n := len(keys)
	if n < 2 || S == nil || S.aborting {
		return keys
	}
	if n <= 4 {
		f := 1
		for i := 2; i <= n; i++ {
			f *= i
		}
		c := Choose(f, 1)
		// c-th permutation (factorial number system)
		pool := append([]K(nil), keys...)
		out := make([]K, 0, n)
		for i := n; i >= 1; i-- {
			f /= i
			idx := c / f
			c %= f
			out = append(out, pool[idx])
			pool = append(pool[:idx], pool[idx+1:]...)
		}
		return out
	}
	c := Choose(2*n, 1)
	out := make([]K, n)
	for i := range out {
		if c < n {
			out[i] = keys[(i+c)%n]
		} else {
			out[i] = keys[(2*n-1-i-(c-n)+n)%n]
		}
	}
	return out
}
