// Package refmodel holds the boring reference models the real implementations
// are compared with.
package refmodel

import (
	"crypto/sha1"
	"fmt"
	"sort"
	"strings"
)

// FS is the reference model of machine/filesys: independent descriptors, hard
// links share an inode, unlinked-but-open files stay readable.
type FS struct {
	Dirs    map[string]bool
	Inodes  map[int][]byte
	Names   map[[2]string]int
	NextI   int
	Handles map[int]*Handle // abstract handle id -> handle
	NextH   int
}

type Handle struct {
	Ino    int
	Append bool
}

func NewFS() *FS {
	return &FS{Dirs: map[string]bool{}, Inodes: map[int][]byte{}, Names: map[[2]string]int{}, Handles: map[int]*Handle{}, NextI: 1, NextH: 1}
}

func (m *FS) Clone() *FS {
	n := NewFS()
	for k, v := range m.Dirs {
		n.Dirs[k] = v
	}
	for k, v := range m.Inodes {
		n.Inodes[k] = append([]byte(nil), v...)
	}
	for k, v := range m.Names {
		n.Names[k] = v
	}
	for k, v := range m.Handles {
		c := *v
		n.Handles[k] = &c
	}
	n.NextI, n.NextH = m.NextI, m.NextH
	return n
}

func (m *FS) Mkdir(d string) { m.Dirs[d] = true }

func (m *FS) Exists(d, n string) bool { _, ok := m.Names[[2]string{d, n}]; return ok }

// Create returns (handle, ok).
func (m *FS) Create(d, n string) (int, bool) {
	if m.Exists(d, n) {
		return 0, false
	}
	ino := m.NextI
	m.NextI++
	m.Inodes[ino] = nil
	m.Names[[2]string{d, n}] = ino
	h := m.NextH
	m.NextH++
	m.Handles[h] = &Handle{Ino: ino, Append: true}
	return h, true
}

func (m *FS) Append(h int, data []byte) {
	hd := m.Handles[h]
	m.Inodes[hd.Ino] = append(m.Inodes[hd.Ino], data...)
}

func (m *FS) Close(h int) { delete(m.Handles, h) }

func (m *FS) Open(d, n string) int {
	ino := m.Names[[2]string{d, n}]
	h := m.NextH
	m.NextH++
	m.Handles[h] = &Handle{Ino: ino}
	return h
}

func (m *FS) ReadAt(h int, off, length uint64) []byte {
	data := m.Inodes[m.Handles[h].Ino]
	if off >= uint64(len(data)) {
		return nil
	}
	end := off + length
	if end > uint64(len(data)) || end < off {
		end = uint64(len(data))
	}
	return append([]byte(nil), data[off:end]...)
}

func (m *FS) Delete(d, n string) { delete(m.Names, [2]string{d, n}) }

func (m *FS) AtomicCreate(d, n string, data []byte) {
	ino := m.NextI
	m.NextI++
	m.Inodes[ino] = append([]byte(nil), data...)
	m.Names[[2]string{d, n}] = ino
}

func (m *FS) Link(od, on, nd, nn string) bool {
	if m.Exists(nd, nn) {
		return false
	}
	m.Names[[2]string{nd, nn}] = m.Names[[2]string{od, on}]
	return true
}

func (m *FS) List(d string) []string {
	var out []string
	for k := range m.Names {
		if k[0] == d {
			out = append(out, k[1])
		}
	}
	sort.Strings(out)
	return out
}

func (m *FS) Len(h int) int { return len(m.Inodes[m.Handles[h].Ino]) }

// Key is the canonical state: names -> renumbered inode, inode contents, and
// the inode/mode behind each given slot (slots are harness-level handle holders).
func (m *FS) Key(slots []int) string {
	var keys [][2]string
	for k := range m.Names {
		keys = append(keys, k)
	}
	sort.Slice(keys, func(i, j int) bool {
		if keys[i][0] != keys[j][0] {
			return keys[i][0] < keys[j][0]
		}
		return keys[i][1] < keys[j][1]
	})
	ren := map[int]int{}
	num := func(ino int) int {
		if r, ok := ren[ino]; ok {
			return r
		}
		ren[ino] = len(ren) + 1
		return ren[ino]
	}
	var sb strings.Builder
	for _, k := range keys {
		fmt.Fprintf(&sb, "%s/%s=%d;", k[0], k[1], num(m.Names[k]))
	}
	for i, h := range slots {
		if h == 0 {
			fmt.Fprintf(&sb, "s%d=-;", i)
			continue
		}
		hd := m.Handles[h]
		fmt.Fprintf(&sb, "s%d=%d,%v;", i, num(hd.Ino), hd.Append)
	}
	// contents of reachable inodes in renumbered order
	inv := make([]int, len(ren)+1)
	for ino, r := range ren {
		inv[r] = ino
	}
	for r := 1; r < len(inv); r++ {
		fmt.Fprintf(&sb, "i%d=%x;", r, sha1.Sum(m.Inodes[inv[r]]))
	}
	return fmt.Sprintf("%x", sha1.Sum([]byte(sb.String())))
}

// Dump is the full observable content (for equality with the implementations).
func (m *FS) Dump() map[string]string {
	out := map[string]string{}
	for d := range m.Dirs {
		out[d+"/"] = ""
	}
	for k, ino := range m.Names {
		out[k[0]+"/"+k[1]] = string(m.Inodes[ino])
	}
	return out
}
