// Package simunix is a simulated kernel exposing the subset of
// golang.org/x/sys/unix used by machine/disk and machine/filesys (plus the
// neighbouring calls a small change to that code could start using).  It owns
// three kinds of nondeterminism: the schedule (every call is one atomic step
// preceded by a csched point), faults (errno / short write on a chosen call
// instance) and crashes (durability tracking + enumeration of post-crash
// images).
package simunix

import (
	"fmt"
	"sort"
	"strings"
	"syscall"

	"verif/csched"
)

type Errno = syscall.Errno

const PageSize = 4096

type Inode struct {
	Ino     int
	Dir     bool
	Data    []byte
	Entries map[string]int // name -> ino (directories)
	Nlink   int
	Opens   int
	// modification time on a logical clock: advanced whenever the contents (file) or the
	// entry table (directory) differ from what the previous stat of this inode saw
	MtimeGen int64
	mtimeSig string
	// durability
	Durable []byte   // contents as of the last fsync (nil for never-synced)
	Pending []PWrite // data operations since then, in order
}

type PWrite struct {
	Trunc bool
	Off   int64 // or new size for Trunc
	Data  []byte
}

type FD struct {
	Ino     int
	Flags   int
	Off     int64
	DirPos  int
	DirLast string // last real name returned by getdents on this descriptor (cursor by name: see ReadDirent)
}

type MetaOp struct {
	Kind           string // create mkdir link unlink rename
	Dir, Dir2, Ino int
	Name, Name2    string
}

type Call struct {
	Name string
	Args []any
	Ret  []any
	Err  Errno
}

func (c Call) String() string {
	s := fmt.Sprintf("%s%v -> %v", c.Name, c.Args, c.Ret)
	if c.Err != 0 {
		s += " errno=" + c.Err.Error()
	}
	return s
}

type Fault struct {
	Err   Errno
	Short int // for write/pwrite: return this many bytes (0<Short<len) instead of all
}

type Kernel struct {
	Inodes  map[int]*Inode
	NextIno int
	Fds     map[int]*FD
	Root    int
	// durable namespace: ino -> entries, as of the last journal commit
	DurableNS map[int]map[string]int
	DurableIn map[int]bool // inodes that exist durably (dir flag looked up in Inodes)
	Journal   []MetaOp
	// control
	Trace     []Call
	NCalls    int
	Faults    map[int]Fault // by call index
	OnCall    func(k *Kernel, idx int, name string)
	Monitor   func(k *Kernel, c Call) // invariant monitors (after each call)
	NoTrace   bool
	FaultHits int
	NoTmpfile bool // O_TMPFILE answers EOPNOTSUPP (a filesystem without unnamed temporary files)
	// FaultNames: every call of this name fails with this errno (a persistent condition, unlike Faults)
	FaultNames map[string]Errno
	MaxCalls   int // panic beyond this many calls (0: no limit)
}

// K is the kernel the package-level functions operate on.
var K *Kernel

func New() *Kernel {
	k := &Kernel{Inodes: map[int]*Inode{}, Fds: map[int]*FD{}, NextIno: 2, Faults: map[int]Fault{}}
	root := &Inode{Ino: 1, Dir: true, Entries: map[string]int{}, Nlink: 2}
	k.Inodes[1] = root
	k.Root = 1
	k.DurableNS = map[int]map[string]int{1: {}}
	k.DurableIn = map[int]bool{1: true}
	return k
}

// Clone deep-copies the kernel state (not the hooks).
func (k *Kernel) Clone() *Kernel {
	n := &Kernel{Inodes: map[int]*Inode{}, Fds: map[int]*FD{}, NextIno: k.NextIno, Root: k.Root,
		DurableNS: map[int]map[string]int{}, DurableIn: map[int]bool{}, Faults: map[int]Fault{}, NCalls: k.NCalls}
	for i, in := range k.Inodes {
		c := *in
		c.Data = append([]byte(nil), in.Data...)
		if in.Durable != nil {
			c.Durable = append([]byte{}, in.Durable...)
		}
		c.Pending = append([]PWrite(nil), in.Pending...)
		if in.Entries != nil {
			c.Entries = map[string]int{}
			for a, b := range in.Entries {
				c.Entries[a] = b
			}
		}
		n.Inodes[i] = &c
	}
	for i, f := range k.Fds {
		c := *f
		n.Fds[i] = &c
	}
	for i, m := range k.DurableNS {
		c := map[string]int{}
		for a, b := range m {
			c[a] = b
		}
		n.DurableNS[i] = c
	}
	for i, b := range k.DurableIn {
		n.DurableIn[i] = b
	}
	n.Journal = append([]MetaOp(nil), k.Journal...)
	return n
}

func (k *Kernel) enter(name string, args ...any) (idx int, f Fault, faulted bool) {
	csched.Yield("sys:" + name)
	idx = k.NCalls
	k.NCalls++
	if k.MaxCalls > 0 && k.NCalls > k.MaxCalls {
		panic(fmt.Sprintf("simunix: more than %d system calls in one run (a retry loop that never ends?)", k.MaxCalls))
	}
	if k.OnCall != nil {
		k.OnCall(k, idx, name)
	}
	f, faulted = k.Faults[idx]
	if e, ok := k.FaultNames[name]; ok && !faulted {
		f, faulted = Fault{Err: e}, true
	}
	if faulted {
		k.FaultHits++
	}
	return
}

func (k *Kernel) leave(c Call) {
	if !k.NoTrace {
		k.Trace = append(k.Trace, c)
	}
	if k.Monitor != nil {
		k.Monitor(k, c)
	}
	csched.Logf("%s", c.String())
}

func errOf(e Errno) error {
	if e == 0 {
		return nil
	}
	return e
}

// ---------------------------------------------------------------- paths

func (k *Kernel) lookupDir(start int, comps []string) (*Inode, Errno) {
	cur := k.Inodes[start]
	for _, c := range comps {
		if !cur.Dir {
			return nil, syscall.ENOTDIR
		}
		switch c {
		case "", ".":
			continue
		case "..":
			// only root-relative trees of depth <= 2 are used; treat .. at root as root
			parent := k.parentOf(cur.Ino)
			cur = k.Inodes[parent]
			continue
		}
		ino, ok := cur.Entries[c]
		if !ok {
			return nil, syscall.ENOENT
		}
		cur = k.Inodes[ino]
	}
	if !cur.Dir {
		return nil, syscall.ENOTDIR
	}
	return cur, 0
}

func (k *Kernel) parentOf(ino int) int {
	for _, in := range k.Inodes {
		if in.Dir {
			for _, c := range in.Entries {
				if c == ino && k.Inodes[c].Dir {
					return in.Ino
				}
			}
		}
	}
	return k.Root
}

// resolve returns the parent directory and final component of path relative to dirfd.
func (k *Kernel) resolve(dirfd int, path string) (dir *Inode, name string, e Errno) {
	start := k.Root
	if !strings.HasPrefix(path, "/") && dirfd != AT_FDCWD {
		fd, ok := k.Fds[dirfd]
		if !ok {
			return nil, "", syscall.EBADF
		}
		if !k.Inodes[fd.Ino].Dir {
			return nil, "", syscall.ENOTDIR
		}
		start = fd.Ino
	}
	if path == "" {
		return nil, "", syscall.ENOENT
	}
	comps := strings.Split(path, "/")
	for _, c := range comps {
		if len(c) > 255 { // NAME_MAX
			return nil, "", syscall.ENAMETOOLONG
		}
	}
	// strip trailing empties
	for len(comps) > 0 && comps[len(comps)-1] == "" {
		comps = comps[:len(comps)-1]
	}
	if len(comps) == 0 { // "/" itself
		return k.Inodes[start], ".", 0
	}
	dir, e = k.lookupDir(start, comps[:len(comps)-1])
	if e != 0 {
		return nil, "", e
	}
	return dir, comps[len(comps)-1], 0
}

func (k *Kernel) newFd(ino, flags int) int {
	fd := 3
	for {
		if _, used := k.Fds[fd]; !used {
			break
		}
		fd++
	}
	k.Fds[fd] = &FD{Ino: ino, Flags: flags}
	k.Inodes[ino].Opens++
	return fd
}

func (k *Kernel) journal(op MetaOp) { k.Journal = append(k.Journal, op) }

func (k *Kernel) dropIfDead(in *Inode) {
	// inodes are never reclaimed: a dead inode may still be named by the
	// durable namespace (its unlink is not committed yet) and is needed to
	// build post-crash images; it is unreachable from the live tree.
	_ = in
}

// ---------------------------------------------------------------- open

func (k *Kernel) openat(dirfd int, path string, flags int, mode uint32) (int, Errno) {
	if flags&O_TMPFILE == O_TMPFILE {
		// an unnamed file in the given directory: an inode without a link (it gets one through
		// linkat of /proc/self/fd/N, or disappears with its last descriptor)
		if k.NoTmpfile {
			return -1, syscall.EOPNOTSUPP
		}
		if flags&O_ACCMODE == O_RDONLY {
			return -1, syscall.EINVAL
		}
		pd, pn, e := k.resolve(dirfd, path)
		if e != 0 {
			return -1, e
		}
		target := pd
		if pn != "." {
			ino, ok := pd.Entries[pn]
			if !ok {
				return -1, syscall.ENOENT
			}
			target = k.Inodes[ino]
		}
		if !target.Dir {
			return -1, syscall.ENOTDIR
		}
		in := &Inode{Ino: k.NextIno, Nlink: 0}
		k.NextIno++
		k.Inodes[in.Ino] = in
		return k.newFd(in.Ino, flags&^O_TMPFILE|flags&O_ACCMODE), 0
	}
	dir, name, e := k.resolve(dirfd, path)
	if e != 0 {
		return -1, e
	}
	var in *Inode
	if name == "." {
		in = dir
	} else if name == ".." {
		in = k.Inodes[k.parentOf(dir.Ino)]
	} else if ino, ok := dir.Entries[name]; ok {
		if flags&O_CREAT != 0 && flags&O_EXCL != 0 {
			return -1, syscall.EEXIST
		}
		in = k.Inodes[ino]
	} else {
		if flags&O_CREAT == 0 {
			return -1, syscall.ENOENT
		}
		in = &Inode{Ino: k.NextIno, Nlink: 1}
		k.NextIno++
		k.Inodes[in.Ino] = in
		dir.Entries[name] = in.Ino
		k.journal(MetaOp{Kind: "create", Dir: dir.Ino, Name: name, Ino: in.Ino})
	}
	acc := flags & O_ACCMODE
	if in.Dir && acc != O_RDONLY {
		return -1, syscall.EISDIR
	}
	if !in.Dir && flags&O_DIRECTORY != 0 {
		return -1, syscall.ENOTDIR
	}
	if flags&O_TRUNC != 0 && !in.Dir && acc != O_RDONLY {
		k.truncate(in, 0)
	}
	return k.newFd(in.Ino, flags), 0
}

func (k *Kernel) truncate(in *Inode, size int64) {
	if int64(len(in.Data)) == size {
		return
	}
	if int64(len(in.Data)) > size {
		in.Data = in.Data[:size:size]
	} else {
		in.Data = append(in.Data, make([]byte, size-int64(len(in.Data)))...)
	}
	in.Pending = append(in.Pending, PWrite{Trunc: true, Off: size})
}

func (k *Kernel) writeAt(in *Inode, off int64, p []byte) {
	end := off + int64(len(p))
	if int64(len(in.Data)) < end {
		in.Data = append(in.Data, make([]byte, end-int64(len(in.Data)))...)
	}
	copy(in.Data[off:end], p)
	// page-granular pending items
	for s := off; s < end; {
		pe := (s/PageSize + 1) * PageSize
		if pe > end {
			pe = end
		}
		in.Pending = append(in.Pending, PWrite{Off: s, Data: append([]byte(nil), p[s-off:pe-off]...)})
		s = pe
	}
}

// Tree renders the current namespace and contents canonically (for oracles and
// for comparison with the real kernel).
func (k *Kernel) Tree() map[string]string {
	out := map[string]string{}
	var walk func(prefix string, in *Inode)
	walk = func(prefix string, in *Inode) {
		names := make([]string, 0, len(in.Entries))
		for n := range in.Entries {
			names = append(names, n)
		}
		sort.Strings(names)
		for _, n := range names {
			c := k.Inodes[in.Entries[n]]
			if c.Dir {
				out[prefix+n+"/"] = ""
				walk(prefix+n+"/", c)
			} else {
				out[prefix+n] = string(c.Data)
			}
		}
	}
	walk("", k.Inodes[k.Root])
	return out
}

// ReadFile returns the contents of a path from the root ("" ,false if absent).
func (k *Kernel) ReadFile(path string) ([]byte, bool) {
	dir, name, e := k.resolve(AT_FDCWD, path)
	if e != 0 {
		return nil, false
	}
	ino, ok := dir.Entries[name]
	if !ok || k.Inodes[ino].Dir {
		return nil, false
	}
	return k.Inodes[ino].Data, true
}

// WriteFileDurable installs a file (and needed directories are assumed to exist) as durable prior state.
func (k *Kernel) WriteFileDurable(path string, data []byte) {
	dir, name, e := k.resolve(AT_FDCWD, path)
	if e != 0 {
		panic("simunix: WriteFileDurable: " + e.Error())
	}
	in := &Inode{Ino: k.NextIno, Nlink: 1, Data: append([]byte{}, data...), Durable: append([]byte{}, data...)}
	k.NextIno++
	k.Inodes[in.Ino] = in
	dir.Entries[name] = in.Ino
	k.commitJournalState()
}

// MkdirDurable creates a directory as durable prior state.
func (k *Kernel) MkdirDurable(path string) {
	dir, name, e := k.resolve(AT_FDCWD, path)
	if e != 0 {
		panic("simunix: MkdirDurable: " + e.Error())
	}
	in := &Inode{Ino: k.NextIno, Nlink: 2, Dir: true, Entries: map[string]int{}}
	k.NextIno++
	k.Inodes[in.Ino] = in
	dir.Entries[name] = in.Ino
	k.commitJournalState()
}

// commitJournalState makes the current namespace the durable one.
func (k *Kernel) commitJournalState() {
	k.Journal = nil
	k.DurableNS = map[int]map[string]int{}
	k.DurableIn = map[int]bool{}
	for ino, in := range k.Inodes {
		if in.Dir {
			m := map[string]int{}
			for a, b := range in.Entries {
				m[a] = b
			}
			k.DurableNS[ino] = m
		}
	}
	for ino, in := range k.Inodes {
		if in.Nlink > 0 || in.Dir {
			k.DurableIn[ino] = true
		}
	}
}
