package simunix

import (
	"crypto/sha1"
	"encoding/binary"
	"fmt"
	"sort"
	"strconv"
	"strings"
	"syscall"

	realunix "golang.org/x/sys/unix"
)

const (
	O_RDONLY            = realunix.O_RDONLY
	O_WRONLY            = realunix.O_WRONLY
	O_RDWR              = realunix.O_RDWR
	O_ACCMODE           = realunix.O_ACCMODE
	O_CREAT             = realunix.O_CREAT
	O_EXCL              = realunix.O_EXCL
	O_TMPFILE           = realunix.O_TMPFILE
	O_CLOEXEC           = realunix.O_CLOEXEC
	O_NOFOLLOW          = realunix.O_NOFOLLOW
	O_DSYNC             = realunix.O_DSYNC
	AT_SYMLINK_FOLLOW   = realunix.AT_SYMLINK_FOLLOW
	AT_SYMLINK_NOFOLLOW = realunix.AT_SYMLINK_NOFOLLOW
	AT_EMPTY_PATH       = realunix.AT_EMPTY_PATH
	O_TRUNC             = realunix.O_TRUNC
	O_APPEND            = realunix.O_APPEND
	O_DIRECTORY         = realunix.O_DIRECTORY
	O_SYNC              = realunix.O_SYNC
	AT_FDCWD            = realunix.AT_FDCWD
	AT_REMOVEDIR        = realunix.AT_REMOVEDIR
	S_IFMT              = realunix.S_IFMT
	S_IFREG             = realunix.S_IFREG
	S_IFDIR             = realunix.S_IFDIR
	SEEK_SET            = 0
	SEEK_CUR            = 1
	SEEK_END            = 2

	EEXIST    = syscall.EEXIST
	ENOENT    = syscall.ENOENT
	EIO       = syscall.EIO
	ENOSPC    = syscall.ENOSPC
	EBADF     = syscall.EBADF
	EISDIR    = syscall.EISDIR
	ENOTDIR   = syscall.ENOTDIR
	EINVAL    = syscall.EINVAL
	ENOTEMPTY = syscall.ENOTEMPTY
	EINTR     = syscall.EINTR
	EAGAIN    = syscall.EAGAIN
	EACCES    = syscall.EACCES
	EPERM     = syscall.EPERM
	// not produced by the simulated kernel itself, but injectable as faults and
	// available to code under test that distinguishes them
	EROFS        = syscall.EROFS
	EFBIG        = syscall.EFBIG
	EDQUOT       = syscall.EDQUOT
	ENOMEM       = syscall.ENOMEM
	EBUSY        = syscall.EBUSY
	ENXIO        = syscall.ENXIO
	ENODEV       = syscall.ENODEV
	EOVERFLOW    = syscall.EOVERFLOW
	ESPIPE       = syscall.ESPIPE
	EMFILE       = syscall.EMFILE
	ENFILE       = syscall.ENFILE
	ENAMETOOLONG = syscall.ENAMETOOLONG
	ELOOP        = syscall.ELOOP
	EXDEV        = syscall.EXDEV
	EMLINK       = syscall.EMLINK
	ETXTBSY      = syscall.ETXTBSY
	ENOTSUP      = syscall.ENOTSUP
	EOPNOTSUPP   = syscall.EOPNOTSUPP
	ENOSYS       = syscall.ENOSYS
	EFAULT       = syscall.EFAULT
	EDEADLK      = syscall.EDEADLK
	ENOLCK       = syscall.ENOLCK
	ERANGE       = syscall.ERANGE
	EPIPE        = syscall.EPIPE
	EWOULDBLOCK  = syscall.EWOULDBLOCK
	ETIMEDOUT    = syscall.ETIMEDOUT
	ESTALE       = syscall.ESTALE
	ENOTTY       = syscall.ENOTTY
	ENOTSOCK     = syscall.ENOTSOCK
	ENODATA      = syscall.ENODATA
	ECANCELED    = syscall.ECANCELED
)

type Stat_t = realunix.Stat_t

func Open(path string, flags int, mode uint32) (int, error) {
	return Openat(AT_FDCWD, path, flags, mode)
}

func Openat(dirfd int, path string, flags int, mode uint32) (int, error) {
	k := K
	_, f, faulted := k.enter("openat")
	if faulted {
		k.leave(Call{Name: "openat", Args: []any{dirfd, path, flags}, Ret: []any{-1}, Err: f.Err})
		return -1, f.Err
	}
	fd, e := k.openat(dirfd, path, flags, mode)
	k.leave(Call{Name: "openat", Args: []any{dirfd, path, flags}, Ret: []any{fd}, Err: e})
	return fd, errOf(e)
}

func Creat(path string, mode uint32) (int, error) {
	return Open(path, O_CREAT|O_WRONLY|O_TRUNC, mode)
}

func Close(fd int) error {
	k := K
	_, f, faulted := k.enter("close")
	d, ok := k.Fds[fd]
	if !ok {
		k.leave(Call{Name: "close", Args: []any{fd}, Err: EBADF})
		return EBADF
	}
	// like Linux, the descriptor is released even if close reports an error
	in := k.Inodes[d.Ino]
	delete(k.Fds, fd)
	in.Opens--
	k.dropIfDead(in)
	if faulted {
		k.leave(Call{Name: "close", Args: []any{fd}, Err: f.Err})
		return f.Err
	}
	k.leave(Call{Name: "close", Args: []any{fd}})
	return nil
}

func (k *Kernel) fileFd(fd int, write bool) (*FD, *Inode, Errno) {
	d, ok := k.Fds[fd]
	if !ok {
		return nil, nil, EBADF
	}
	in := k.Inodes[d.Ino]
	acc := d.Flags & O_ACCMODE
	if write && acc == O_RDONLY {
		return nil, nil, EBADF
	}
	if !write && acc == O_WRONLY {
		return nil, nil, EBADF
	}
	if in.Dir {
		return nil, nil, EISDIR
	}
	return d, in, 0
}

func Pread(fd int, p []byte, off int64) (int, error) {
	k := K
	_, f, faulted := k.enter("pread")
	if faulted && f.Short == 0 {
		k.leave(Call{Name: "pread", Args: []any{fd, len(p), off}, Ret: []any{-1}, Err: f.Err})
		return -1, f.Err
	}
	_, in, e := k.fileFd(fd, false)
	if e == 0 && off < 0 {
		e = EINVAL
	}
	if e != 0 {
		k.leave(Call{Name: "pread", Args: []any{fd, len(p), off}, Ret: []any{-1}, Err: e})
		return -1, e
	}
	n := 0
	if off < int64(len(in.Data)) {
		lim := len(p)
		if faulted && f.Short > 0 && f.Short < lim {
			lim = f.Short // a short read: fewer bytes than asked for and available
		}
		n = copy(p[:lim], in.Data[off:])
	}
	k.leave(Call{Name: "pread", Args: []any{fd, len(p), off}, Ret: []any{n, string(p[:n])}})
	return n, nil
}

func Read(fd int, p []byte) (int, error) {
	k := K
	_, f, faulted := k.enter("read")
	if faulted {
		k.leave(Call{Name: "read", Args: []any{fd, len(p)}, Ret: []any{-1}, Err: f.Err})
		return -1, f.Err
	}
	d, in, e := k.fileFd(fd, false)
	if e != 0 {
		k.leave(Call{Name: "read", Args: []any{fd, len(p)}, Ret: []any{-1}, Err: e})
		return -1, e
	}
	n := 0
	if d.Off < int64(len(in.Data)) {
		n = copy(p, in.Data[d.Off:])
	}
	d.Off += int64(n)
	k.leave(Call{Name: "read", Args: []any{fd, len(p)}, Ret: []any{n, string(p[:n])}})
	return n, nil
}

func Pwrite(fd int, p []byte, off int64) (int, error) {
	k := K
	_, f, faulted := k.enter("pwrite")
	if faulted && f.Short == 0 {
		k.leave(Call{Name: "pwrite", Args: []any{fd, string(p), off}, Ret: []any{-1}, Err: f.Err})
		return -1, f.Err
	}
	_, in, e := k.fileFd(fd, true)
	if e == 0 && off < 0 {
		e = EINVAL
	}
	if e != 0 {
		k.leave(Call{Name: "pwrite", Args: []any{fd, string(p), off}, Ret: []any{-1}, Err: e})
		return -1, e
	}
	n := len(p)
	if faulted && f.Short > 0 && f.Short < n {
		n = f.Short
	}
	k.writeAt(in, off, p[:n])
	k.leave(Call{Name: "pwrite", Args: []any{fd, string(p), off}, Ret: []any{n}})
	return n, nil
}

func Write(fd int, p []byte) (int, error) {
	k := K
	_, f, faulted := k.enter("write")
	if faulted && f.Short == 0 {
		k.leave(Call{Name: "write", Args: []any{fd, string(p)}, Ret: []any{-1}, Err: f.Err})
		return -1, f.Err
	}
	d, in, e := k.fileFd(fd, true)
	if e != 0 {
		k.leave(Call{Name: "write", Args: []any{fd, string(p)}, Ret: []any{-1}, Err: e})
		return -1, e
	}
	n := len(p)
	if faulted && f.Short > 0 && f.Short < n {
		n = f.Short
	}
	if d.Flags&O_APPEND != 0 {
		d.Off = int64(len(in.Data))
	}
	if n > 0 {
		k.writeAt(in, d.Off, p[:n])
	}
	d.Off += int64(n)
	k.leave(Call{Name: "write", Args: []any{fd, string(p)}, Ret: []any{n}})
	return n, nil
}

func Seek(fd int, offset int64, whence int) (int64, error) {
	k := K
	k.enter("lseek")
	d, ok := k.Fds[fd]
	if !ok {
		k.leave(Call{Name: "lseek", Args: []any{fd, offset, whence}, Ret: []any{-1}, Err: EBADF})
		return -1, EBADF
	}
	in := k.Inodes[d.Ino]
	if in.Dir && whence == SEEK_SET && offset == 0 {
		d.DirPos, d.DirLast = 0, "" // rewinddir
	}
	switch whence {
	case SEEK_SET:
		d.Off = offset
	case SEEK_CUR:
		d.Off += offset
	case SEEK_END:
		d.Off = int64(len(in.Data)) + offset
	}
	k.leave(Call{Name: "lseek", Args: []any{fd, offset, whence}, Ret: []any{d.Off}})
	return d.Off, nil
}

func fsync(name string, fd int) error {
	k := K
	_, f, faulted := k.enter(name)
	if faulted {
		k.leave(Call{Name: name, Args: []any{fd}, Err: f.Err})
		return f.Err
	}
	d, ok := k.Fds[fd]
	if !ok {
		k.leave(Call{Name: name, Args: []any{fd}, Err: EBADF})
		return EBADF
	}
	in := k.Inodes[d.Ino]
	if !in.Dir {
		in.Durable = append([]byte{}, in.Data...)
		in.Pending = nil
	}
	k.commitJournal()
	k.leave(Call{Name: name, Args: []any{fd}})
	return nil
}

func Fsync(fd int) error     { return fsync("fsync", fd) }
func Fdatasync(fd int) error { return fsync("fdatasync", fd) }

// Sync flushes everything.
func Sync() {
	k := K
	k.enter("sync")
	for _, in := range k.Inodes {
		if !in.Dir {
			in.Durable = append([]byte{}, in.Data...)
			in.Pending = nil
		}
	}
	k.commitJournal()
	k.leave(Call{Name: "sync"})
}

// commitJournal applies all journalled metadata operations to the durable namespace.
func (k *Kernel) commitJournal() {
	applyJournal(k.DurableNS, k.DurableIn, k.Journal, k)
	k.Journal = nil
}

func applyJournal(ns map[int]map[string]int, exists map[int]bool, ops []MetaOp, k *Kernel) {
	for _, op := range ops {
		switch op.Kind {
		case "create", "link":
			ns[op.Dir][op.Name] = op.Ino
			exists[op.Ino] = true
		case "mkdir":
			ns[op.Dir][op.Name] = op.Ino
			ns[op.Ino] = map[string]int{}
			exists[op.Ino] = true
		case "unlink":
			delete(ns[op.Dir], op.Name)
		case "rmdir":
			ino := ns[op.Dir][op.Name]
			delete(ns[op.Dir], op.Name)
			delete(ns, ino)
		case "rename":
			ino := ns[op.Dir][op.Name]
			delete(ns[op.Dir], op.Name)
			ns[op.Dir2][op.Name2] = ino
		}
	}
}

func Fstat(fd int, st *Stat_t) error {
	k := K
	_, f, faulted := k.enter("fstat")
	if faulted {
		k.leave(Call{Name: "fstat", Args: []any{fd}, Err: f.Err})
		return f.Err
	}
	d, ok := k.Fds[fd]
	if !ok {
		k.leave(Call{Name: "fstat", Args: []any{fd}, Err: EBADF})
		return EBADF
	}
	in := k.Inodes[d.Ino]
	*st = Stat_t{}
	st.Ino = uint64(in.Ino)
	st.Nlink = uint64(in.Nlink)
	sig := ""
	if in.Dir {
		var es []string
		for n, c := range in.Entries {
			es = append(es, fmt.Sprintf("%s=%d", n, c))
		}
		sort.Strings(es)
		sig = strings.Join(es, ",")
	} else {
		sig = fmt.Sprintf("%d:%x", len(in.Data), sha1.Sum(in.Data))
	}
	if sig != in.mtimeSig {
		in.mtimeSig = sig
		in.MtimeGen++
	}
	st.Mtim.Sec = 1000000 + in.MtimeGen
	st.Ctim.Sec = st.Mtim.Sec
	if in.Dir {
		st.Mode = S_IFDIR | 0755
		st.Size = 4096
	} else {
		st.Mode = S_IFREG | 0644
		st.Size = int64(len(in.Data))
	}
	k.leave(Call{Name: "fstat", Args: []any{fd}, Ret: []any{int(st.Mode & S_IFMT), st.Size}})
	return nil
}

func Ftruncate(fd int, length int64) error {
	k := K
	_, f, faulted := k.enter("ftruncate")
	if faulted {
		k.leave(Call{Name: "ftruncate", Args: []any{fd, length}, Err: f.Err})
		return f.Err
	}
	_, in, e := k.fileFd(fd, true)
	if e == EISDIR {
		e = EINVAL
	}
	if e == 0 && length < 0 {
		e = EINVAL
	}
	if e != 0 {
		k.leave(Call{Name: "ftruncate", Args: []any{fd, length}, Err: e})
		return e
	}
	k.truncate(in, length)
	k.leave(Call{Name: "ftruncate", Args: []any{fd, length}})
	return nil
}

func Mkdir(path string, mode uint32) error { return Mkdirat(AT_FDCWD, path, mode) }

func Mkdirat(dirfd int, path string, mode uint32) error {
	k := K
	_, f, faulted := k.enter("mkdirat")
	if faulted {
		k.leave(Call{Name: "mkdirat", Args: []any{dirfd, path}, Err: f.Err})
		return f.Err
	}
	dir, name, e := k.resolve(dirfd, path)
	if e == 0 {
		if _, ok := dir.Entries[name]; ok || name == "." || name == ".." {
			e = EEXIST
		}
	}
	if e != 0 {
		k.leave(Call{Name: "mkdirat", Args: []any{dirfd, path}, Err: e})
		return e
	}
	in := &Inode{Ino: k.NextIno, Dir: true, Entries: map[string]int{}, Nlink: 2}
	k.NextIno++
	k.Inodes[in.Ino] = in
	dir.Entries[name] = in.Ino
	k.journal(MetaOp{Kind: "mkdir", Dir: dir.Ino, Name: name, Ino: in.Ino})
	k.leave(Call{Name: "mkdirat", Args: []any{dirfd, path}})
	return nil
}

func Unlink(path string) error { return Unlinkat(AT_FDCWD, path, 0) }
func Rmdir(path string) error  { return Unlinkat(AT_FDCWD, path, AT_REMOVEDIR) }

func Unlinkat(dirfd int, path string, flags int) error {
	k := K
	_, f, faulted := k.enter("unlinkat")
	if faulted {
		k.leave(Call{Name: "unlinkat", Args: []any{dirfd, path, flags}, Err: f.Err})
		return f.Err
	}
	dir, name, e := k.resolve(dirfd, path)
	var in *Inode
	if e == 0 {
		ino, ok := dir.Entries[name]
		if !ok {
			e = ENOENT
		} else {
			in = k.Inodes[ino]
			if in.Dir && flags&AT_REMOVEDIR == 0 {
				e = EISDIR
			} else if !in.Dir && flags&AT_REMOVEDIR != 0 {
				e = ENOTDIR
			} else if in.Dir && len(in.Entries) > 0 {
				e = ENOTEMPTY
			}
		}
	}
	if e != 0 {
		k.leave(Call{Name: "unlinkat", Args: []any{dirfd, path, flags}, Err: e})
		return e
	}
	delete(dir.Entries, name)
	if in.Dir {
		delete(k.Inodes, in.Ino)
		k.journal(MetaOp{Kind: "rmdir", Dir: dir.Ino, Name: name})
	} else {
		in.Nlink--
		k.journal(MetaOp{Kind: "unlink", Dir: dir.Ino, Name: name})
		k.dropIfDead(in)
	}
	k.leave(Call{Name: "unlinkat", Args: []any{dirfd, path, flags}})
	return nil
}

func Rename(from, to string) error { return Renameat(AT_FDCWD, from, AT_FDCWD, to) }

func Renameat(olddirfd int, oldpath string, newdirfd int, newpath string) error {
	k := K
	_, f, faulted := k.enter("renameat")
	if faulted {
		k.leave(Call{Name: "renameat", Args: []any{olddirfd, oldpath, newdirfd, newpath}, Err: f.Err})
		return f.Err
	}
	sdir, sname, e := k.resolve(olddirfd, oldpath)
	var ddir *Inode
	var dname string
	if e == 0 {
		ddir, dname, e = k.resolve(newdirfd, newpath)
	}
	var src *Inode
	if e == 0 {
		ino, ok := sdir.Entries[sname]
		if !ok {
			e = ENOENT
		} else {
			src = k.Inodes[ino]
		}
	}
	if e == 0 {
		if tino, ok := ddir.Entries[dname]; ok {
			t := k.Inodes[tino]
			switch {
			case t == src:
				// same inode: no-op
				k.leave(Call{Name: "renameat", Args: []any{olddirfd, oldpath, newdirfd, newpath}})
				return nil
			case t.Dir && !src.Dir:
				e = EISDIR
			case !t.Dir && src.Dir:
				e = ENOTDIR
			case t.Dir && len(t.Entries) > 0:
				e = ENOTEMPTY
			}
		}
	}
	if e != 0 {
		k.leave(Call{Name: "renameat", Args: []any{olddirfd, oldpath, newdirfd, newpath}, Err: e})
		return e
	}
	if tino, ok := ddir.Entries[dname]; ok {
		t := k.Inodes[tino]
		if t.Dir {
			delete(k.Inodes, tino)
		} else {
			t.Nlink--
			k.dropIfDead(t)
		}
	}
	delete(sdir.Entries, sname)
	ddir.Entries[dname] = src.Ino
	k.journal(MetaOp{Kind: "rename", Dir: sdir.Ino, Name: sname, Dir2: ddir.Ino, Name2: dname})
	k.leave(Call{Name: "renameat", Args: []any{olddirfd, oldpath, newdirfd, newpath}})
	return nil
}

func Link(oldpath, newpath string) error { return Linkat(AT_FDCWD, oldpath, AT_FDCWD, newpath, 0) }

func Linkat(olddirfd int, oldpath string, newdirfd int, newpath string, flags int) error {
	k := K
	_, f, faulted := k.enter("linkat")
	if faulted {
		k.leave(Call{Name: "linkat", Args: []any{olddirfd, oldpath, newdirfd, newpath}, Err: f.Err})
		return f.Err
	}
	var src *Inode
	var sdir *Inode
	var sname string
	var e Errno
	if strings.HasPrefix(oldpath, "/proc/self/fd/") && flags&AT_SYMLINK_FOLLOW != 0 {
		// the documented way to give an O_TMPFILE file a name
		n, perr := strconv.Atoi(strings.TrimPrefix(oldpath, "/proc/self/fd/"))
		if d, ok := k.Fds[n]; perr == nil && ok && !k.Inodes[d.Ino].Dir {
			src = k.Inodes[d.Ino]
		} else {
			e = ENOENT
		}
	} else {
		sdir, sname, e = k.resolve(olddirfd, oldpath)
	}
	var ddir *Inode
	var dname string
	if e == 0 {
		ddir, dname, e = k.resolve(newdirfd, newpath)
	}
	if e == 0 && src == nil {
		ino, ok := sdir.Entries[sname]
		if !ok {
			e = ENOENT
		} else {
			src = k.Inodes[ino]
			if src.Dir {
				e = EPERM
			}
		}
	}
	if e == 0 {
		if _, ok := ddir.Entries[dname]; ok {
			e = EEXIST
		}
	}
	if e != 0 {
		k.leave(Call{Name: "linkat", Args: []any{olddirfd, oldpath, newdirfd, newpath}, Err: e})
		return e
	}
	ddir.Entries[dname] = src.Ino
	src.Nlink++
	k.journal(MetaOp{Kind: "link", Dir: ddir.Ino, Name: dname, Ino: src.Ino})
	k.leave(Call{Name: "linkat", Args: []any{olddirfd, oldpath, newdirfd, newpath}})
	return nil
}

// ReadDirent fills buf with linux_dirent64 records.
func ReadDirent(fd int, buf []byte) (int, error) {
	k := K
	_, f, faulted := k.enter("getdents64")
	if faulted {
		k.leave(Call{Name: "getdents64", Args: []any{fd}, Ret: []any{-1}, Err: f.Err})
		return -1, f.Err
	}
	d, ok := k.Fds[fd]
	var e Errno
	if !ok {
		e = EBADF
	} else if !k.Inodes[d.Ino].Dir {
		e = ENOTDIR
	}
	if e != 0 {
		k.leave(Call{Name: "getdents64", Args: []any{fd}, Ret: []any{-1}, Err: e})
		return -1, e
	}
	in := k.Inodes[d.Ino]
	// The cursor is the last name returned, not an index: as POSIX requires, an entry that is
	// neither added nor removed during the scan is returned exactly once, whatever is created
	// or deleted around it; entries created during the scan may or may not appear.
	var names []string
	if d.DirPos < 1 {
		names = append(names, ".")
	}
	if d.DirPos < 2 {
		names = append(names, "..")
	}
	var real []string
	for n := range in.Entries {
		if d.DirLast == "" || n > d.DirLast {
			real = append(real, n)
		}
	}
	sort.Strings(real)
	names = append(names, real...)
	n := 0
	var returned []string
	for len(names) > 0 {
		name := names[0]
		reclen := (19 + len(name) + 1 + 7) &^ 7
		if n+reclen > len(buf) {
			if n == 0 {
				k.leave(Call{Name: "getdents64", Args: []any{fd}, Ret: []any{-1}, Err: EINVAL})
				return -1, EINVAL
			}
			break
		}
		rec := buf[n : n+reclen]
		for i := range rec {
			rec[i] = 0
		}
		ino := uint64(in.Ino)
		typ := byte(4)
		if c, ok := in.Entries[name]; ok {
			ino = uint64(c)
			if !k.Inodes[c].Dir {
				typ = 8
			}
		}
		binary.LittleEndian.PutUint64(rec[0:], ino)
		binary.LittleEndian.PutUint64(rec[8:], uint64(d.DirPos+1))
		binary.LittleEndian.PutUint16(rec[16:], uint16(reclen))
		rec[18] = typ
		copy(rec[19:], name)
		n += reclen
		names = names[1:]
		d.DirPos++
		if name != "." && name != ".." {
			returned = append(returned, name)
			d.DirLast = name
		}
	}
	k.leave(Call{Name: "getdents64", Args: []any{fd}, Ret: []any{n > 0, returned}})
	return n, nil
}

func Getdents(fd int, buf []byte) (int, error) { return ReadDirent(fd, buf) }

// ParseDirent is the real parser.
func ParseDirent(buf []byte, max int, names []string) (consumed int, count int, newnames []string) {
	return realunix.ParseDirent(buf, max, names)
}

// Fallocate (mode 0): the file is at least off+len bytes long afterwards; it never shrinks.
func Fallocate(fd int, mode uint32, off int64, length int64) error {
	k := K
	_, f, faulted := k.enter("fallocate")
	if faulted {
		k.leave(Call{Name: "fallocate", Args: []any{fd, mode, off, length}, Err: f.Err})
		return f.Err
	}
	_, in, e := k.fileFd(fd, true)
	if e == 0 && (mode != 0 || off < 0 || length <= 0) {
		e = EINVAL
		if mode != 0 {
			e = EOPNOTSUPP
		}
	}
	if e != 0 {
		k.leave(Call{Name: "fallocate", Args: []any{fd, mode, off, length}, Err: e})
		return e
	}
	if int64(len(in.Data)) < off+length {
		k.truncate(in, off+length)
	}
	k.leave(Call{Name: "fallocate", Args: []any{fd, mode, off, length}})
	return nil
}
