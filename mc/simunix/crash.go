package simunix

// CrashImages enumerates the file-system states a crash at this instant may
// leave behind: every prefix of the metadata journal (at or beyond the last
// commit) combined with every subset of the unsynced data operations of every
// file (page granularity).  max bounds the number of images; truncated reports
// whether the bound cut the enumeration.
func (k *Kernel) CrashImages(max int) (imgs []*Kernel, truncated bool) {
	for p := 0; p <= len(k.Journal); p++ {
		ns := map[int]map[string]int{}
		for ino, m := range k.DurableNS {
			c := map[string]int{}
			for a, b := range m {
				c[a] = b
			}
			ns[ino] = c
		}
		exists := map[int]bool{}
		applyJournal(ns, exists, k.Journal[:p], k)
		// files referenced by the namespace, in deterministic order
		var files []int
		seen := map[int]bool{}
		var walk func(dir int)
		walk = func(dir int) {
			names := sortedKeys(ns[dir])
			for _, n := range names {
				c := ns[dir][n]
				if _, isDir := ns[c]; isDir {
					walk(c)
				} else if !seen[c] {
					seen[c] = true
					files = append(files, c)
				}
			}
		}
		walk(k.Root)
		// cartesian product of pending subsets
		counts := make([]int, len(files))
		for i, f := range files {
			counts[i] = 1 << uint(len(k.Inodes[f].Pending))
			if len(k.Inodes[f].Pending) > 12 {
				counts[i] = 1 << 12
				truncated = true
			}
		}
		idx := make([]int, len(files))
		for {
			if len(imgs) >= max {
				return imgs, true
			}
			img := New()
			img.NextIno = k.NextIno
			img.Inodes = map[int]*Inode{}
			for dir, m := range ns {
				in := &Inode{Ino: dir, Dir: true, Entries: map[string]int{}, Nlink: 2}
				for a, b := range m {
					in.Entries[a] = b
				}
				img.Inodes[dir] = in
			}
			for i, f := range files {
				src := k.Inodes[f]
				data := append([]byte{}, src.Durable...)
				for j, w := range src.Pending {
					if j >= 12 || idx[i]&(1<<uint(j)) == 0 {
						continue
					}
					data = applyPW(data, w)
				}
				img.Inodes[f] = &Inode{Ino: f, Data: data, Durable: append([]byte{}, data...)}
			}
			for _, in := range img.Inodes {
				if in.Dir {
					for _, c := range in.Entries {
						if !img.Inodes[c].Dir {
							img.Inodes[c].Nlink++
						}
					}
				}
			}
			img.commitJournalState()
			imgs = append(imgs, img)
			// next index vector
			j := 0
			for j < len(idx) {
				idx[j]++
				if idx[j] < counts[j] {
					break
				}
				idx[j] = 0
				j++
			}
			if j == len(idx) {
				break
			}
		}
	}
	return imgs, truncated
}

func applyPW(data []byte, w PWrite) []byte {
	if w.Trunc {
		if int64(len(data)) > w.Off {
			return data[:w.Off]
		}
		return append(data, make([]byte, w.Off-int64(len(data)))...)
	}
	end := w.Off + int64(len(w.Data))
	if int64(len(data)) < end {
		data = append(data, make([]byte, end-int64(len(data)))...)
	}
	copy(data[w.Off:end], w.Data)
	return data
}

func sortedKeys(m map[string]int) []string {
	out := make([]string, 0, len(m))
	for k := range m {
		out = append(out, k)
	}
	for i := 1; i < len(out); i++ {
		for j := i; j > 0 && out[j] < out[j-1]; j-- {
			out[j], out[j-1] = out[j-1], out[j]
		}
	}
	return out
}
