package simunix

import (
	"fmt"
	"os"
	"path/filepath"
	"sort"
	"strings"

	realunix "golang.org/x/sys/unix"
)

// ReplayOnKernel re-issues a recorded (fault-free) trace against the real
// kernel inside dir (which must exist and mirror the prior state) and checks
// that every call returns what the simulation returned, and that the final
// tree equals want (the simulation's Tree()).  This is what binds the model to
// reality.
func ReplayOnKernel(trace []Call, dir string, want map[string]string) error {
	fdmap := map[int]int{}
	defer func() {
		for _, r := range fdmap {
			realunix.Close(r)
		}
	}()
	rootfd, err := realunix.Open(dir, realunix.O_DIRECTORY|realunix.O_RDONLY, 0)
	if err != nil {
		return err
	}
	defer realunix.Close(rootfd)
	mapDirfd := func(fd int) int {
		if fd == AT_FDCWD {
			return rootfd
		}
		return fdmap[fd]
	}
	fix := func(p string) string { // absolute paths are relative to the sim root
		p = strings.TrimLeft(p, "/")
		if p == "" {
			return "."
		}
		return p
	}
	errnoOf := func(e error) Errno {
		if e == nil {
			return 0
		}
		if en, ok := e.(Errno); ok {
			return en
		}
		return EIO
	}
	consumed := map[int]bool{}
	for i, c := range trace {
		var got Errno
		mism := func(format string, a ...any) error {
			return fmt.Errorf("call %d %s: real kernel disagrees: %s", i, c.String(), fmt.Sprintf(format, a...))
		}
		switch c.Name {
		case "openat":
			fd, e := realunix.Openat(mapDirfd(c.Args[0].(int)), fix(c.Args[1].(string)), c.Args[2].(int), 0644)
			got = errnoOf(e)
			if e == nil {
				fdmap[c.Ret[0].(int)] = fd
			}
		case "close":
			r, ok := fdmap[c.Args[0].(int)]
			if !ok {
				got = EBADF
			} else {
				got = errnoOf(realunix.Close(r))
				delete(fdmap, c.Args[0].(int))
			}
		case "pread":
			r, ok := fdmap[c.Args[0].(int)]
			if !ok {
				got = EBADF
				break
			}
			buf := make([]byte, c.Args[1].(int))
			n, e := realunix.Pread(r, buf, c.Args[2].(int64))
			got = errnoOf(e)
			if e == nil && c.Err == 0 && (n != c.Ret[0].(int) || string(buf[:n]) != c.Ret[1].(string)) {
				return mism("n=%d data=%q", n, trunc(buf[:n]))
			}
		case "read":
			r, ok := fdmap[c.Args[0].(int)]
			if !ok {
				got = EBADF
				break
			}
			buf := make([]byte, c.Args[1].(int))
			n, e := realunix.Read(r, buf)
			got = errnoOf(e)
			if e == nil && c.Err == 0 && (n != c.Ret[0].(int) || string(buf[:n]) != c.Ret[1].(string)) {
				return mism("n=%d data=%q", n, trunc(buf[:n]))
			}
		case "pwrite":
			r, ok := fdmap[c.Args[0].(int)]
			if !ok {
				got = EBADF
				break
			}
			n, e := realunix.Pwrite(r, []byte(c.Args[1].(string)), c.Args[2].(int64))
			got = errnoOf(e)
			if e == nil && c.Err == 0 && n != c.Ret[0].(int) {
				return mism("n=%d", n)
			}
		case "write":
			r, ok := fdmap[c.Args[0].(int)]
			if !ok {
				got = EBADF
				break
			}
			n, e := realunix.Write(r, []byte(c.Args[1].(string)))
			got = errnoOf(e)
			if e == nil && c.Err == 0 && n != c.Ret[0].(int) {
				return mism("n=%d", n)
			}
		case "lseek":
			r, ok := fdmap[c.Args[0].(int)]
			if !ok {
				got = EBADF
				break
			}
			o, e := realunix.Seek(r, c.Args[1].(int64), c.Args[2].(int))
			got = errnoOf(e)
			if e == nil && c.Err == 0 && o != c.Ret[0].(int64) {
				return mism("off=%d", o)
			}
		case "fsync", "fdatasync":
			r, ok := fdmap[c.Args[0].(int)]
			if !ok {
				got = EBADF
				break
			}
			got = errnoOf(realunix.Fsync(r))
		case "sync":
		case "fstat":
			r, ok := fdmap[c.Args[0].(int)]
			if !ok {
				got = EBADF
				break
			}
			var st realunix.Stat_t
			e := realunix.Fstat(r, &st)
			got = errnoOf(e)
			if e == nil && c.Err == 0 {
				if int(st.Mode&realunix.S_IFMT) != c.Ret[0].(int) {
					return mism("mode=%o", st.Mode)
				}
				if st.Mode&realunix.S_IFMT == realunix.S_IFREG && st.Size != c.Ret[1].(int64) {
					return mism("size=%d", st.Size)
				}
			}
		case "ftruncate":
			r, ok := fdmap[c.Args[0].(int)]
			if !ok {
				got = EBADF
				break
			}
			got = errnoOf(realunix.Ftruncate(r, c.Args[1].(int64)))
		case "fallocate":
			r, ok := fdmap[c.Args[0].(int)]
			if !ok {
				got = EBADF
				break
			}
			got = errnoOf(realunix.Fallocate(r, c.Args[1].(uint32), c.Args[2].(int64), c.Args[3].(int64)))
		case "mkdirat":
			got = errnoOf(realunix.Mkdirat(mapDirfd(c.Args[0].(int)), fix(c.Args[1].(string)), 0755))
		case "unlinkat":
			got = errnoOf(realunix.Unlinkat(mapDirfd(c.Args[0].(int)), fix(c.Args[1].(string)), c.Args[2].(int)))
		case "renameat":
			got = errnoOf(realunix.Renameat(mapDirfd(c.Args[0].(int)), fix(c.Args[1].(string)), mapDirfd(c.Args[2].(int)), fix(c.Args[3].(string))))
		case "linkat":
			got = errnoOf(realunix.Linkat(mapDirfd(c.Args[0].(int)), fix(c.Args[1].(string)), mapDirfd(c.Args[2].(int)), fix(c.Args[3].(string)), 0))
		case "getdents64":
			// The kernel may split a listing over several calls differently from
			// the simulation: compare the union of names of the group of
			// consecutive getdents calls on this descriptor (up to EOF).
			if consumed[i] {
				continue
			}
			r, ok := fdmap[c.Args[0].(int)]
			if !ok {
				got = EBADF
				break
			}
			if c.Err != 0 {
				break
			}
			var simNames []string
			for j := i; j < len(trace); j++ {
				t := trace[j]
				if t.Name == "close" && t.Args[0].(int) == c.Args[0].(int) {
					break
				}
				if t.Name != "getdents64" || t.Args[0].(int) != c.Args[0].(int) || t.Err != 0 {
					continue
				}
				consumed[j] = true
				ns, _ := t.Ret[1].([]string)
				simNames = append(simNames, ns...)
				if !t.Ret[0].(bool) {
					break
				}
			}
			var realNames []string
			for {
				buf := make([]byte, 8192)
				n, e := realunix.ReadDirent(r, buf)
				if e != nil {
					got = errnoOf(e)
					break
				}
				if n <= 0 {
					break
				}
				_, _, names := realunix.ParseDirent(buf[:n], 1000, nil)
				realNames = append(realNames, names...)
			}
			sort.Strings(realNames)
			sort.Strings(simNames)
			if strings.Join(realNames, "\x00") != strings.Join(simNames, "\x00") {
				return mism("names=%v (sim %v)", realNames, simNames)
			}
		default:
			return fmt.Errorf("call %d: replay of %s not supported", i, c.Name)
		}
		if got != c.Err {
			return mism("errno=%v", got)
		}
	}
	if want != nil {
		have, err := RealTree(dir)
		if err != nil {
			return err
		}
		if len(have) != len(want) {
			return fmt.Errorf("final tree differs: real %v, sim %v", keys(have), keys(want))
		}
		for p, d := range want {
			if h, ok := have[p]; !ok || h != d {
				return fmt.Errorf("final tree differs at %q: real %q (present=%v), sim %q", p, trunc([]byte(h)), ok, trunc([]byte(d)))
			}
		}
	}
	return nil
}

func keys(m map[string]string) []string {
	var out []string
	for k := range m {
		out = append(out, k)
	}
	sort.Strings(out)
	return out
}

func trunc(b []byte) string {
	if len(b) > 40 {
		return string(b[:40]) + fmt.Sprintf("…(%d bytes)", len(b))
	}
	return string(b)
}

// RealTree renders a real directory like Kernel.Tree.
func RealTree(dir string) (map[string]string, error) {
	out := map[string]string{}
	err := filepath.Walk(dir, func(p string, info os.FileInfo, err error) error {
		if err != nil {
			return err
		}
		rel, _ := filepath.Rel(dir, p)
		if rel == "." {
			return nil
		}
		if info.IsDir() {
			out[rel+"/"] = ""
			return nil
		}
		b, err := os.ReadFile(p)
		if err != nil {
			return err
		}
		out[rel] = string(b)
		return nil
	})
	return out, err
}

// MaterializeTree writes a Tree() into a real directory (prior state for replay).
func MaterializeTree(dir string, tree map[string]string) error {
	ks := keys(tree)
	for _, p := range ks {
		if strings.HasSuffix(p, "/") {
			if err := os.MkdirAll(filepath.Join(dir, p), 0755); err != nil {
				return err
			}
		}
	}
	for _, p := range ks {
		if !strings.HasSuffix(p, "/") {
			if err := os.WriteFile(filepath.Join(dir, p), []byte(tree[p]), 0644); err != nil {
				return err
			}
		}
	}
	return nil
}
