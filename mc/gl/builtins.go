package gl

import (
	"encoding/binary"
	"fmt"
	"strconv"

	"verif/csched"
)

type builtin struct {
	arity int
	fn    func(in *Interp, a []Val) Val
}

var builtins map[string]builtin

func (in *Interp) builtinValue(name string) (Val, bool) {
	switch name {
	case "uint64T":
		return VTy{tyU64}, true
	case "uint32T":
		return VTy{tyU32}, true
	case "byteT":
		return VTy{tyU8}, true
	case "boolT":
		return VTy{tyBool}, true
	case "stringT":
		return VTy{tyStr}, true
	case "unitT":
		return VTy{tyUnit}, true
	case "ptrT", "refT":
		return VTy{tyPtr}, true
	case "anyT":
		return VTy{tyAny}, true
	case "ProphIdT", "fileT", "disk.Disk":
		return VTy{&Ty{K: "ext", Name: name}}, true
	case "disk.blockT":
		return VTy{&Ty{K: "slice", Elem: tyU8}}, true
	case "Continue":
		return VBool(true), true
	case "Break":
		return VBool(false), true
	case "Skip":
		return VClos{Params: []string{""}, Body: &Lit{Kind: "unit"}}, true
	case "null":
		return Null, true
	case "slice.nil":
		return SliceNil(), true
	case "disk.BlockSize":
		return VInt{64, 4096}, true
	case "Linearize":
		return VUnit{}, true
	}
	if _, ok := builtins[name]; ok {
		return VBuiltin{Name: name}, true
	}
	return nil, false
}

func u64(v Val, ctx string) uint64 {
	i, ok := v.(VInt)
	if !ok || i.W != 64 {
		stuck("%s: expected a 64-bit integer, got %s", ctx, Show(v))
	}
	return i.N
}

func loc(v Val, ctx string) VLoc {
	l, ok := v.(VLoc)
	if !ok {
		stuck("%s: expected a location, got %s", ctx, Show(v))
	}
	return l
}

func (in *Interp) extra() int {
	if in.ExtraCap != nil {
		return in.ExtraCap()
	}
	return 0
}

func (in *Interp) allocN(n int, t *Ty) VLoc {
	z := flatten(zeroVal(t), nil)
	cells := make([]Val, 0, n*len(z))
	for i := 0; i < n; i++ {
		cells = append(cells, z...)
	}
	return in.alloc(cells)
}

func (in *Interp) copyCells(dst, src VLoc, n int) {
	for i := 0; i < n; i++ {
		in.write(VLoc{dst.B, dst.Off + i}, in.read(VLoc{src.B, src.Off + i}))
	}
}

func mapCell(in *Interp, v Val, ctx string) (VLoc, VMap) {
	l := loc(v, ctx)
	m, ok := in.read(l).(VMap)
	if !ok {
		stuck("%s: location does not hold a map", ctx)
	}
	return l, m
}

func init() {
	T := func(in *Interp, v Val, ctx string) *Ty { return in.asTy(v, ctx) }
	builtins = map[string]builtin{
		// ---- types
		"slice.T": {1, func(in *Interp, a []Val) Val { return VTy{&Ty{K: "slice", Elem: T(in, a[0], "slice.T")}} }},
		"mapT":    {1, func(in *Interp, a []Val) Val { return VTy{&Ty{K: "map", Elem: T(in, a[0], "mapT")}} }},
		"arrayT":  {1, func(in *Interp, a []Val) Val { return VTy{&Ty{K: "ext", Name: "array"}} }},
		"struct.t": {1, func(in *Interp, a []Val) Val {
			d := in.asDesc(a[0], "struct.t")
			return VTy{&Ty{K: "struct", Desc: d}}
		}},
		// ---- references
		"zero_val": {1, func(in *Interp, a []Val) Val { return zeroVal(T(in, a[0], "zero_val")) }},
		"ref":      {1, func(in *Interp, a []Val) Val { return in.alloc(flatten(a[0], nil)) }},
		"ref_to":   {2, func(in *Interp, a []Val) Val { T(in, a[0], "ref_to"); return in.alloc(flatten(a[1], nil)) }},
		"struct.alloc": {2, func(in *Interp, a []Val) Val {
			in.asDesc(a[0], "struct.alloc")
			return in.alloc(flatten(a[1], nil))
		}},
		"struct.load": {2, func(in *Interp, a []Val) Val {
			d := in.asDesc(a[0], "struct.load")
			return in.loadTy(&Ty{K: "struct", Desc: d}, loc(a[1], "struct.load"))
		}},
		"struct.store": {3, func(in *Interp, a []Val) Val {
			d := in.asDesc(a[0], "struct.store")
			in.storeTy(&Ty{K: "struct", Desc: d}, loc(a[1], "struct.store"), a[2])
			return VUnit{}
		}},
		"Fst": {1, func(in *Interp, a []Val) Val {
			p, ok := a[0].(VPair)
			if !ok {
				stuck("Fst of non-pair %s", Show(a[0]))
			}
			return p.A
		}},
		"Snd": {1, func(in *Interp, a []Val) Val {
			p, ok := a[0].(VPair)
			if !ok {
				stuck("Snd of non-pair %s", Show(a[0]))
			}
			return p.B
		}},
		// ---- integers
		"to_u64": {1, func(in *Interp, a []Val) Val { return conv(a[0], 64) }},
		"to_u32": {1, func(in *Interp, a []Val) Val { return conv(a[0], 32) }},
		"to_u8":  {1, func(in *Interp, a []Val) Val { return conv(a[0], 8) }},
		// ---- slices
		"slice.len": {1, func(in *Interp, a []Val) Val { _, n, _ := sliceParts(a[0], "slice.len"); return VInt{64, n} }},
		"slice.cap": {1, func(in *Interp, a []Val) Val { _, _, c := sliceParts(a[0], "slice.cap"); return VInt{64, c} }},
		"slice.ptr": {1, func(in *Interp, a []Val) Val { p, _, _ := sliceParts(a[0], "slice.ptr"); return p }},
		"NewSlice": {2, func(in *Interp, a []Val) Val {
			t := T(in, a[0], "NewSlice")
			n := u64(a[1], "NewSlice")
			if n == 0 {
				return SliceNil()
			}
			if n > 1<<24 {
				panic(&Diverged{"allocation too large for the interpreter"})
			}
			c := n + uint64(in.extra())
			return mkSlice(in.allocN(int(c), t), n, c)
		}},
		"NewSliceWithCap": {3, func(in *Interp, a []Val) Val {
			t := T(in, a[0], "NewSliceWithCap")
			n, c := u64(a[1], "NewSliceWithCap"), u64(a[2], "NewSliceWithCap")
			if c < n {
				stuck("NewSliceWithCap: capacity %d smaller than length %d", c, n)
			}
			if c == 0 {
				return SliceNil()
			}
			if c > 1<<24 {
				panic(&Diverged{"allocation too large for the interpreter"})
			}
			return mkSlice(in.allocN(int(c), t), n, c)
		}},
		"SliceSingleton": {1, func(in *Interp, a []Val) Val {
			return mkSlice(in.alloc(flatten(a[0], nil)), 1, 1)
		}},
		"SliceGet": {3, func(in *Interp, a []Val) Val {
			t := T(in, a[0], "SliceGet")
			p, _, _ := sliceParts(a[1], "SliceGet")
			return in.loadTy(t, offsetLoc(p, t, u64(a[2], "SliceGet index"), "SliceGet"))
		}},
		"SliceSet": {4, func(in *Interp, a []Val) Val {
			t := T(in, a[0], "SliceSet")
			p, _, _ := sliceParts(a[1], "SliceSet")
			in.storeTy(t, offsetLoc(p, t, u64(a[2], "SliceSet index"), "SliceSet"), a[3])
			return VUnit{}
		}},
		"SliceRef": {3, func(in *Interp, a []Val) Val {
			t := T(in, a[0], "SliceRef")
			p, n, _ := sliceParts(a[1], "SliceRef")
			i := u64(a[2], "SliceRef index")
			if i >= n {
				stuck("SliceRef: index %d out of bounds (len %d)", i, n)
			}
			return offsetLoc(p, t, i, "SliceRef")
		}},
		"SliceSkip": {3, func(in *Interp, a []Val) Val {
			t := T(in, a[0], "SliceSkip")
			p, n, c := sliceParts(a[1], "SliceSkip")
			k := u64(a[2], "SliceSkip")
			return mkSlice(offsetLoc(p, t, k, "SliceSkip"), n-k, c-k)
		}},
		"SliceTake": {2, func(in *Interp, a []Val) Val {
			p, _, c := sliceParts(a[0], "SliceTake")
			k := u64(a[1], "SliceTake")
			if c < k {
				stuck("SliceTake: %d beyond capacity %d", k, c)
			}
			return mkSlice(p, k, c)
		}},
		"SliceSubslice": {4, func(in *Interp, a []Val) Val {
			t := T(in, a[0], "SliceSubslice")
			p, _, c := sliceParts(a[1], "SliceSubslice")
			n1, n2 := u64(a[2], "SliceSubslice"), u64(a[3], "SliceSubslice")
			if n2 < n1 {
				stuck("SliceSubslice: high %d below low %d", n2, n1)
			}
			if c < n2 {
				stuck("SliceSubslice: high %d beyond capacity %d", n2, c)
			}
			return mkSlice(offsetLoc(p, t, n1, "SliceSubslice"), n2-n1, c-n1)
		}},
		"SliceAppend": {3, func(in *Interp, a []Val) Val {
			t := T(in, a[0], "SliceAppend")
			p, n, c := sliceParts(a[1], "SliceAppend")
			if c-n >= 1 {
				in.storeTy(t, offsetLoc(p, t, n, "SliceAppend"), a[2])
				return mkSlice(p, n+1, c)
			}
			nc := n + 1 + uint64(in.extra())
			np := in.allocN(int(nc), t)
			if n > 0 {
				in.copyCells(np, p, int(n)*t.Size())
			}
			in.storeTy(t, offsetLoc(np, t, n, "SliceAppend"), a[2])
			return mkSlice(np, n+1, nc)
		}},
		"SliceAppendSlice": {3, func(in *Interp, a []Val) Val {
			t := T(in, a[0], "SliceAppendSlice")
			p, n, c := sliceParts(a[1], "SliceAppendSlice")
			p2, n2, _ := sliceParts(a[2], "SliceAppendSlice")
			if c-n >= n2 {
				if n2 > 0 {
					in.copyCells(offsetLoc(p, t, n, "SliceAppendSlice"), p2, int(n2)*t.Size())
				}
				return mkSlice(p, n+n2, c)
			}
			nc := n + n2 + uint64(in.extra())
			np := in.allocN(int(nc), t)
			if n > 0 {
				in.copyCells(np, p, int(n)*t.Size())
			}
			if n2 > 0 {
				in.copyCells(offsetLoc(np, t, n, "SliceAppendSlice"), p2, int(n2)*t.Size())
			}
			return mkSlice(np, n+n2, nc)
		}},
		"SliceCopy": {3, func(in *Interp, a []Val) Val {
			t := T(in, a[0], "SliceCopy")
			pd, nd, _ := sliceParts(a[1], "SliceCopy")
			ps, ns, _ := sliceParts(a[2], "SliceCopy")
			n := nd
			if ns < n {
				n = ns
			}
			if n > 0 {
				// memmove semantics (Go's copy handles overlap)
				tmp := make([]Val, int(n)*t.Size())
				for i := range tmp {
					tmp[i] = in.read(VLoc{ps.B, ps.Off + i})
				}
				for i := range tmp {
					in.write(VLoc{pd.B, pd.Off + i}, tmp[i])
				}
			}
			return VInt{64, n}
		}},
		// ---- maps
		"NewMap": {3, func(in *Interp, a []Val) Val {
			T(in, a[0], "NewMap key")
			vt := T(in, a[1], "NewMap value")
			return in.alloc([]Val{VMap{Def: zeroVal(vt)}})
		}},
		"MapGet": {2, func(in *Interp, a []Val) Val {
			_, m := mapCell(in, a[0], "MapGet")
			checkKey(a[1])
			for i, k := range m.Keys {
				if valEq(k, a[1]) {
					return VPair{m.Vals[i], VBool(true)}
				}
			}
			return VPair{m.Def, VBool(false)}
		}},
		"MapInsert": {3, func(in *Interp, a []Val) Val {
			l, m := mapCell(in, a[0], "MapInsert")
			checkKey(a[1])
			n := VMap{Def: m.Def}
			replaced := false
			for i, k := range m.Keys {
				n.Keys = append(n.Keys, k)
				if valEq(k, a[1]) {
					n.Vals = append(n.Vals, a[2])
					replaced = true
				} else {
					n.Vals = append(n.Vals, m.Vals[i])
				}
			}
			if !replaced {
				n.Keys = append(n.Keys, a[1])
				n.Vals = append(n.Vals, a[2])
			}
			in.write(l, n)
			return VUnit{}
		}},
		"MapDelete": {2, func(in *Interp, a []Val) Val {
			l, m := mapCell(in, a[0], "MapDelete")
			checkKey(a[1])
			n := VMap{Def: m.Def}
			for i, k := range m.Keys {
				if !valEq(k, a[1]) {
					n.Keys = append(n.Keys, k)
					n.Vals = append(n.Vals, m.Vals[i])
				}
			}
			in.write(l, n)
			return VUnit{}
		}},
		"MapLen": {1, func(in *Interp, a []Val) Val {
			_, m := mapCell(in, a[0], "MapLen")
			return VInt{64, uint64(len(m.Keys))}
		}},
		"MapClear": {1, func(in *Interp, a []Val) Val {
			l, m := mapCell(in, a[0], "MapClear")
			in.write(l, VMap{Def: m.Def})
			return VUnit{}
		}},
		"MapIter": {2, func(in *Interp, a []Val) Val {
			_, m := mapCell(in, a[0], "MapIter")
			for i := range m.Keys {
				in.apply(in.apply(a[1], m.Keys[i]), m.Vals[i])
			}
			return VUnit{}
		}},
		// ---- strings and encoding
		"StringLength": {1, func(in *Interp, a []Val) Val {
			s, ok := a[0].(VStr)
			if !ok {
				stuck("StringLength of %s", Show(a[0]))
			}
			return VInt{64, uint64(len(s))}
		}},
		"StringToBytes": {1, func(in *Interp, a []Val) Val {
			s, ok := a[0].(VStr)
			if !ok {
				stuck("StringToBytes of %s", Show(a[0]))
			}
			if len(s) == 0 {
				return SliceNil()
			}
			cells := make([]Val, len(s))
			for i := 0; i < len(s); i++ {
				cells[i] = VInt{8, uint64(s[i])}
			}
			return mkSlice(in.alloc(cells), uint64(len(s)), uint64(len(s)))
		}},
		"StringFromBytes": {1, func(in *Interp, a []Val) Val {
			p, n, _ := sliceParts(a[0], "StringFromBytes")
			b := make([]byte, n)
			for i := range b {
				c, ok := in.read(VLoc{p.B, p.Off + i}).(VInt)
				if !ok || c.W != 8 {
					stuck("StringFromBytes: element %d is not a byte", i)
				}
				b[i] = byte(c.N)
			}
			return VStr(b)
		}},
		"uint64_to_string": {1, func(in *Interp, a []Val) Val {
			return VStr(strconv.FormatUint(u64(a[0], "uint64_to_string"), 10))
		}},
		"UInt64Put": {2, func(in *Interp, a []Val) Val { in.putBytes(a[0], u64(a[1], "UInt64Put"), 8); return VUnit{} }},
		"UInt32Put": {2, func(in *Interp, a []Val) Val {
			v, ok := a[1].(VInt)
			if !ok || v.W != 32 {
				stuck("UInt32Put of %s", Show(a[1]))
			}
			in.putBytes(a[0], v.N, 4)
			return VUnit{}
		}},
		"UInt64Get": {1, func(in *Interp, a []Val) Val { return VInt{64, in.getBytes(a[0], 8)} }},
		"UInt32Get": {1, func(in *Interp, a []Val) Val { return VInt{32, in.getBytes(a[0], 4)} }},
		// ---- control
		"control.impl.Assume": {1, func(in *Interp, a []Val) Val {
			if b, ok := a[0].(VBool); ok && bool(b) {
				return VUnit{}
			}
			panic(&Diverged{"Assume #false"})
		}},
		"control.impl.Assert": {1, func(in *Interp, a []Val) Val {
			if b, ok := a[0].(VBool); ok && bool(b) {
				return VUnit{}
			}
			stuck("Assert #false")
			return nil
		}},
		"control.impl.Exit": {1, func(in *Interp, a []Val) Val { panic(&Diverged{"Exit"}) }},
		"time.Sleep":        {1, func(in *Interp, a []Val) Val { csched.Yield("gl:Sleep"); return VUnit{} }},
		"time.TimeNow":      {1, func(in *Interp, a []Val) Val { return VInt{64, 0} }},
		"rand.RandomUint64": {1, func(in *Interp, a []Val) Val { return VInt{64, 0} }},
		"NewProph":          {1, func(in *Interp, a []Val) Val { return in.alloc([]Val{VUnit{}}) }},
		"ResolveProph":      {2, func(in *Interp, a []Val) Val { return VUnit{} }},
		"util.DPrintf":      {3, func(in *Interp, a []Val) Val { return VUnit{} }},
		// ---- disk FFI
		"disk.Read": {1, func(in *Interp, a []Val) Val {
			n := u64(a[0], "disk.Read")
			if n >= uint64(len(in.DiskBlocks)) {
				stuck("disk.Read of block %d out of range", n)
			}
			cells := make([]Val, 4096)
			for i, b := range in.DiskBlocks[n] {
				cells[i] = VInt{8, uint64(b)}
			}
			return mkSlice(in.alloc(cells), 4096, 4096)
		}},
		"disk.ReadTo": {2, func(in *Interp, a []Val) Val {
			n := u64(a[0], "disk.ReadTo")
			if n >= uint64(len(in.DiskBlocks)) {
				stuck("disk.ReadTo of block %d out of range", n)
			}
			p, l, _ := sliceParts(a[1], "disk.ReadTo")
			if l != 4096 {
				stuck("disk.ReadTo into a buffer of %d bytes", l)
			}
			for i, b := range in.DiskBlocks[n] {
				in.write(VLoc{p.B, p.Off + i}, VInt{8, uint64(b)})
			}
			return VUnit{}
		}},
		"disk.Write": {2, func(in *Interp, a []Val) Val {
			n := u64(a[0], "disk.Write")
			if n >= uint64(len(in.DiskBlocks)) {
				stuck("disk.Write of block %d out of range", n)
			}
			p, l, _ := sliceParts(a[1], "disk.Write")
			if l != 4096 {
				stuck("disk.Write of a buffer of %d bytes", l)
			}
			blk := make([]byte, 4096)
			for i := range blk {
				c, ok := in.read(VLoc{p.B, p.Off + i}).(VInt)
				if !ok || c.W != 8 {
					stuck("disk.Write: element %d is not a byte", i)
				}
				blk[i] = byte(c.N)
			}
			in.DiskBlocks[n] = blk
			return VUnit{}
		}},
		"disk.Size":    {1, func(in *Interp, a []Val) Val { return VInt{64, uint64(len(in.DiskBlocks))} }},
		"disk.Barrier": {1, func(in *Interp, a []Val) Val { return VUnit{} }},
		// ---- locks, condition variables, wait groups
		"lock.new":             {1, lockNew},
		"lock.acquire":         {1, lockAcquire},
		"lock.release":         {1, lockRelease},
		"lock.newCond":         {1, func(in *Interp, a []Val) Val { return in.alloc([]Val{a[0]}) }},
		"lock.condSignal":      {1, func(in *Interp, a []Val) Val { csched.Yield("gl:condSignal"); return VUnit{} }},
		"lock.condBroadcast":   {1, func(in *Interp, a []Val) Val { csched.Yield("gl:condBroadcast"); return VUnit{} }},
		"lock.condWait":        {1, condWait},
		"lock.condWaitTimeout": {2, func(in *Interp, a []Val) Val { return condWait(in, a[:1]) }},
		"waitgroup.New":        {1, wgNew},
		"waitgroup.Add":        {2, wgAdd},
		"waitgroup.Done":       {1, func(in *Interp, a []Val) Val { return wgAdd(in, []Val{a[0], VInt{64, ^uint64(0)}}) }},
		"waitgroup.Wait":       {1, wgWait},
	}
}

func checkKey(k Val) {
	switch k.(type) {
	case VInt, VStr:
		return
	}
	stuck("map key %s is not an integer or string", Show(k))
}

func conv(v Val, w int) Val {
	i, ok := v.(VInt)
	if !ok {
		stuck("to_u%d of %s", w, Show(v))
	}
	return VInt{w, mask(w, i.N)}
}

func (in *Interp) putBytes(s Val, n uint64, w int) {
	p, l, _ := sliceParts(s, "UIntPut")
	if l < uint64(w) {
		stuck("UInt%dPut into a slice of %d bytes", w*8, l)
	}
	var buf [8]byte
	binary.LittleEndian.PutUint64(buf[:], n)
	for i := 0; i < w; i++ {
		in.write(VLoc{p.B, p.Off + i}, VInt{8, uint64(buf[i])})
	}
}

func (in *Interp) getBytes(s Val, w int) uint64 {
	p, l, _ := sliceParts(s, "UIntGet")
	if l < uint64(w) {
		stuck("UInt%dGet from a slice of %d bytes", w*8, l)
	}
	var buf [8]byte
	for i := 0; i < w; i++ {
		c, ok := in.read(VLoc{p.B, p.Off + i}).(VInt)
		if !ok || c.W != 8 {
			stuck("UIntGet: element %d is not a byte (%s)", i, fmt.Sprint(Show(in.read(VLoc{p.B, p.Off + i}))))
		}
		buf[i] = byte(c.N)
	}
	return binary.LittleEndian.Uint64(buf[:])
}
