package gl

import (
	"fmt"
	"strings"
)

// Expr is a GooseLang expression (or a type / descriptor, which share the syntax).
type Expr interface{ sexp(sb *strings.Builder) }

type (
	Lit struct {
		Kind string // u64 u32 u8 bool str unit null
		N    uint64
		B    bool
		S    string
	}
	Var    struct{ Name string } // "x" in expression position
	Global struct{ Name string } // bare identifier
	App    struct {
		Fn   Expr
		Args []Expr
	}
	BinOp struct {
		Op   string
		L, R Expr
	}
	Not struct{ X Expr }
	Let struct {
		Pat  Pat
		E    Expr
		Body Expr
	}
	Seq struct{ A, B Expr }
	If  struct{ C, T, E Expr }
	Lam struct {
		Params []string // "" = anonymous
		Body   Expr
	}
	Rec struct {
		Name   string
		Params []string
		Body   Expr
	}
	For       struct{ Cond, Post, Body Expr }
	Load      struct{ Ty, E Expr }
	Store     struct{ Ty, Dst, E Expr }
	Tuple     struct{ Es []Expr }
	StructLit struct {
		New    bool
		Desc   Expr
		Fields []FieldInit
	}
	Decl struct { // struct.decl [...]
		Fields []FieldType
	}
	Arrow struct{ Ts []Expr } // (a -> b -> c)%ht
	Anon  struct{}            // <> used as an argument (binder position of ForSlice)
)

type FieldInit struct {
	Name string
	E    Expr
}
type FieldType struct {
	Name string
	Ty   Expr
}

// Pat is a let-pattern: a name ("" anonymous) or a pair of patterns.
type Pat struct {
	Name string
	Pair []Pat // len 2 when a pair
}

func (p Pat) String() string {
	if p.Pair != nil {
		return "(" + p.Pair[0].String() + ", " + p.Pair[1].String() + ")"
	}
	if p.Name == "" {
		return "<>"
	}
	return p.Name
}

func (p Pat) Names() []string {
	if p.Pair != nil {
		return append(p.Pair[0].Names(), p.Pair[1].Names()...)
	}
	if p.Name == "" {
		return nil
	}
	return []string{p.Name}
}

func Sexp(e Expr) string {
	var sb strings.Builder
	e.sexp(&sb)
	return sb.String()
}

func (e *Lit) sexp(sb *strings.Builder) {
	switch e.Kind {
	case "u64":
		fmt.Fprintf(sb, "#%d", e.N)
	case "u32":
		fmt.Fprintf(sb, "#(U32 %d)", e.N)
	case "u8":
		fmt.Fprintf(sb, "#(U8 %d)", e.N)
	case "bool":
		fmt.Fprintf(sb, "#%v", e.B)
	case "str":
		fmt.Fprintf(sb, "#(str%q)", e.S)
	case "unit":
		sb.WriteString("#()")
	case "null":
		sb.WriteString("#null")
	}
}
func (e *Var) sexp(sb *strings.Builder)    { fmt.Fprintf(sb, "%q", e.Name) }
func (e *Global) sexp(sb *strings.Builder) { sb.WriteString(e.Name) }
func (e *Anon) sexp(sb *strings.Builder)   { sb.WriteString("<>") }
func (e *App) sexp(sb *strings.Builder) {
	sb.WriteString("(app ")
	e.Fn.sexp(sb)
	for _, a := range e.Args {
		sb.WriteByte(' ')
		a.sexp(sb)
	}
	sb.WriteByte(')')
}
func (e *BinOp) sexp(sb *strings.Builder) {
	sb.WriteString("(" + e.Op + " ")
	e.L.sexp(sb)
	sb.WriteByte(' ')
	e.R.sexp(sb)
	sb.WriteByte(')')
}
func (e *Not) sexp(sb *strings.Builder) { sb.WriteString("(~ "); e.X.sexp(sb); sb.WriteByte(')') }
func (e *Let) sexp(sb *strings.Builder) {
	sb.WriteString("(let " + e.Pat.String() + " ")
	e.E.sexp(sb)
	sb.WriteByte(' ')
	e.Body.sexp(sb)
	sb.WriteByte(')')
}
func (e *Seq) sexp(sb *strings.Builder) {
	sb.WriteString("(seq ")
	e.A.sexp(sb)
	sb.WriteByte(' ')
	e.B.sexp(sb)
	sb.WriteByte(')')
}
func (e *If) sexp(sb *strings.Builder) {
	sb.WriteString("(if ")
	e.C.sexp(sb)
	sb.WriteByte(' ')
	e.T.sexp(sb)
	sb.WriteByte(' ')
	e.E.sexp(sb)
	sb.WriteByte(')')
}
func (e *Lam) sexp(sb *strings.Builder) {
	fmt.Fprintf(sb, "(lam %v ", e.Params)
	e.Body.sexp(sb)
	sb.WriteByte(')')
}
func (e *Rec) sexp(sb *strings.Builder) {
	fmt.Fprintf(sb, "(rec %s %v ", e.Name, e.Params)
	e.Body.sexp(sb)
	sb.WriteByte(')')
}
func (e *For) sexp(sb *strings.Builder) {
	sb.WriteString("(for ")
	e.Cond.sexp(sb)
	sb.WriteByte(' ')
	e.Post.sexp(sb)
	sb.WriteByte(' ')
	e.Body.sexp(sb)
	sb.WriteByte(')')
}
func (e *Load) sexp(sb *strings.Builder) {
	sb.WriteString("(load ")
	e.Ty.sexp(sb)
	sb.WriteByte(' ')
	e.E.sexp(sb)
	sb.WriteByte(')')
}
func (e *Store) sexp(sb *strings.Builder) {
	sb.WriteString("(store ")
	e.Ty.sexp(sb)
	sb.WriteByte(' ')
	e.Dst.sexp(sb)
	sb.WriteByte(' ')
	e.E.sexp(sb)
	sb.WriteByte(')')
}
func (e *Tuple) sexp(sb *strings.Builder) {
	sb.WriteString("(tuple")
	for _, x := range e.Es {
		sb.WriteByte(' ')
		x.sexp(sb)
	}
	sb.WriteByte(')')
}
func (e *StructLit) sexp(sb *strings.Builder) {
	if e.New {
		sb.WriteString("(struct.new ")
	} else {
		sb.WriteString("(struct.mk ")
	}
	e.Desc.sexp(sb)
	for _, f := range e.Fields {
		sb.WriteString(" " + f.Name + "=")
		f.E.sexp(sb)
	}
	sb.WriteByte(')')
}
func (e *Decl) sexp(sb *strings.Builder) {
	sb.WriteString("(struct.decl")
	for _, f := range e.Fields {
		sb.WriteString(" " + f.Name + ":")
		f.Ty.sexp(sb)
	}
	sb.WriteByte(')')
}
func (e *Arrow) sexp(sb *strings.Builder) {
	sb.WriteString("(arrow")
	for _, t := range e.Ts {
		sb.WriteByte(' ')
		t.sexp(sb)
	}
	sb.WriteByte(')')
}

// Sentence is one top-level Coq sentence.
type Sentence struct {
	Kind       string // require section context coercion end definition notation theorem proof hint
	Name       string
	DefKind    string // val ty expr struct (for definitions)
	TypeParams []string
	Body       Expr
	Raw        string
	Line       int
	Err        string // parse error (Kind == "unparsed")
}

type File struct {
	Sentences []Sentence
	Defs      map[string]*Sentence // last definition of each name
	Order     []string             // definition names in file order
	Bad       []Sentence           // sentences that do not parse
	Imports   map[string]*File     // Go package name -> emitted file of that package (for qualified identifiers pkg.Name)
}
