package gl

import (
	"fmt"

	"verif/csched"
)

// lockState is scheduler-side bookkeeping for a GooseLang lock cell.
type lockState struct {
	releases int // number of releases so far (lets condWait skip stuttering re-acquisitions)
	vc       csched.VC
}

func (in *Interp) lockOf(l VLoc) *lockState {
	st, ok := in.locks[l.B]
	if !ok {
		st = &lockState{}
		in.locks[l.B] = st
	}
	return st
}

func lockNew(in *Interp, a []Val) Val { return in.alloc([]Val{VBool(false)}) }

func lockCell(in *Interp, v Val, ctx string) (VLoc, bool) {
	l := loc(v, ctx)
	c := in.cell(l, ctx)
	b, ok := (*c).(VBool)
	if !ok {
		stuck("%s: not a lock: cell holds %s", ctx, Show(*c))
	}
	return l, bool(b)
}

func lockAcquire(in *Interp, a []Val) Val {
	l, held := lockCell(in, a[0], "lock.acquire")
	if s := csched.S; s != nil && csched.Active() {
		s.Point(func() bool { return !bool(l.B.Cells[l.Off].(VBool)) }, "gl:lock.acquire")
		csched.Acquire(in.lockOf(l).vc)
	} else if held {
		panic(&Diverged{"lock.acquire of a held lock with no other thread"})
	}
	l.B.Cells[l.Off] = VBool(true)
	return VUnit{}
}

func lockRelease(in *Interp, a []Val) Val {
	l, _ := lockCell(in, a[0], "lock.release")
	if s := csched.S; s != nil && csched.Active() {
		s.Point(nil, "gl:lock.release")
		st := in.lockOf(l)
		st.vc = csched.CurVC().Copy()
		csched.Tick()
	}
	in.lockOf(l).releases++
	l.B.Cells[l.Off] = VBool(false)
	return VUnit{}
}

// condWait: release; wait; acquire.  GooseLang's own definition spins; here a
// waiter only re-acquires after some other thread released the lock since
// (stutter-free subset of the same behaviours).
func condWait(in *Interp, a []Val) Val {
	c := loc(a[0], "lock.condWait")
	lk := in.read(c)
	l, _ := lockCell(in, lk, "lock.condWait")
	lockRelease(in, []Val{lk})
	st := in.lockOf(l)
	mine := st.releases
	if s := csched.S; s != nil && csched.Active() {
		s.Point(func() bool { return st.releases > mine && !bool(l.B.Cells[l.Off].(VBool)) }, "gl:condWait")
		csched.Acquire(st.vc)
		l.B.Cells[l.Off] = VBool(true)
		return VUnit{}
	}
	panic(&Diverged{"condWait with no other thread"})
}

type wgState struct {
	n  int64
	vc csched.VC
}

func wgNew(in *Interp, a []Val) Val {
	return in.alloc([]Val{VInt{64, 0}})
}

func wgAdd(in *Interp, a []Val) Val {
	l := loc(a[0], "waitgroup.Add")
	c := in.cell(l, "waitgroup.Add")
	d := u64(a[1], "waitgroup.Add")
	if s := csched.S; s != nil && csched.Active() {
		s.Point(nil, "gl:waitgroup.Add")
		st := in.lockOf(l)
		st.vc = st.vc.Join(csched.CurVC())
		csched.Tick()
	}
	// the read-modify-write is atomic (the library holds an internal lock)
	cur, ok := (*c).(VInt)
	if !ok {
		stuck("waitgroup.Add: not a wait group")
	}
	*c = VInt{64, cur.N + d}
	return VUnit{}
}

func wgWait(in *Interp, a []Val) Val {
	l := loc(a[0], "waitgroup.Wait")
	c := in.cell(l, "waitgroup.Wait")
	if _, ok := (*c).(VInt); !ok {
		stuck("waitgroup.Wait: not a wait group")
	}
	if s := csched.S; s != nil && csched.Active() {
		s.Point(func() bool { return l.B.Cells[l.Off].(VInt).N == 0 }, "gl:waitgroup.Wait")
		csched.Acquire(in.lockOf(l).vc)
		return VUnit{}
	}
	if (*c).(VInt).N != 0 {
		panic(&Diverged{"waitgroup.Wait with a non-zero counter and no other thread"})
	}
	return VUnit{}
}

// ---------------------------------------------------------------- happens-before race detection

func (in *Interp) shadow(b *Block) {
	if b.wEpoch == nil {
		b.wEpoch = make([]epoch, len(b.Cells))
		b.rVC = make([][]int, len(b.Cells))
	}
}

func hb(e epoch, vc csched.VC) bool { // epoch happens-before current thread
	if e.clk == 0 {
		return true
	}
	return e.tid < len(vc) && vc[e.tid] >= e.clk
}

func (in *Interp) raceRead(l VLoc) {
	if csched.S == nil {
		return
	}
	in.shadow(l.B)
	vc := csched.CurVC()
	tid := csched.CurID()
	if w := l.B.wEpoch[l.Off]; !hb(w, vc) {
		stuck("data race: read of cell %d+%d by thread %d is concurrent with a write by thread %d", l.B.ID, l.Off, tid, w.tid)
	}
	r := l.B.rVC[l.Off]
	for len(r) <= tid {
		r = append(r, 0)
	}
	r[tid] = vc[tid]
	l.B.rVC[l.Off] = r
}

func (in *Interp) raceWrite(l VLoc) {
	if csched.S == nil {
		return
	}
	in.shadow(l.B)
	vc := csched.CurVC()
	tid := csched.CurID()
	if w := l.B.wEpoch[l.Off]; !hb(w, vc) {
		stuck("data race: write of cell %d+%d by thread %d is concurrent with a write by thread %d", l.B.ID, l.Off, tid, w.tid)
	}
	for t, c := range l.B.rVC[l.Off] {
		if c != 0 && t != tid && !(t < len(vc) && vc[t] >= c) {
			stuck("data race: write of cell %d+%d by thread %d is concurrent with a read by thread %d", l.B.ID, l.Off, tid, t)
		}
	}
	l.B.wEpoch[l.Off] = epoch{tid, vc[tid]}
	l.B.rVC[l.Off] = nil
}

var _ = fmt.Sprint
