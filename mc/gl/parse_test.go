package gl

import (
	"os"
	"path/filepath"
	"testing"
)

func TestParseGold(t *testing.T) {
	files, _ := filepath.Glob("/repo/internal/examples/*/*.gold.v")
	more, _ := filepath.Glob("/repo/testdata/*/*/*.gold.v")
	files = append(files, more...)
	for _, fn := range files {
		b, _ := os.ReadFile(fn)
		f, err := ParseFile(string(b))
		if err != nil {
			t.Errorf("%s: %v", fn, err)
			continue
		}
		t.Logf("%s: %d sentences, %d defs", filepath.Base(fn), len(f.Sentences), len(f.Defs))
	}
}
