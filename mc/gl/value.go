package gl

import (
	"fmt"
	"strings"
)

type Val interface{}

type (
	VInt struct {
		W int // 64, 32, 8
		N uint64
	}
	VBool bool
	VStr  string
	VUnit struct{}
	VLoc  struct {
		B   *Block // nil = null
		Off int
	}
	VPair struct{ A, B Val }
	VClos struct {
		RecName string
		Params  []string
		Body    Expr
		Env     *Env
		File    *File // the file whose definitions the body's global identifiers refer to (nil = the main file)
	}
	VBuiltin struct {
		Name string
		Args []Val
	}
	VTy   struct{ T *Ty }
	VDesc struct{ D *Desc }
	VMap  struct {
		Def  Val
		Keys []Val
		Vals []Val
	}
	VTyLam struct {
		Params []string
		Body   Expr
	}
)

type Block struct {
	ID    int
	Cells []Val
	// happens-before shadow state (used only when race detection is on)
	wEpoch []epoch
	rVC    [][]int
}

type epoch struct {
	tid, clk int
}

type Env struct {
	Name string
	V    Val
	Next *Env
}

func (e *Env) bind(name string, v Val) *Env {
	if name == "" {
		return e
	}
	return &Env{name, v, e}
}

func (e *Env) lookup(name string) (Val, bool) {
	for ; e != nil; e = e.Next {
		if e.Name == name {
			return e.V, true
		}
	}
	return nil, false
}

// Ty is a GooseLang type.
type Ty struct {
	K    string // u64 u32 u8 bool str unit ptr map slice struct prod arrow any ext
	Elem *Ty
	Desc *Desc
	A, B *Ty
	Name string
}

type Desc struct {
	Name   string
	Fields []DescField
}
type DescField struct {
	Name string
	Ty   *Ty
}

func (t *Ty) Size() int {
	switch t.K {
	case "unit":
		return 0
	case "slice":
		return 3
	case "struct":
		n := 0
		for _, f := range t.Desc.Fields {
			n += f.Ty.Size()
		}
		return n
	case "prod":
		return t.A.Size() + t.B.Size()
	}
	return 1
}

func (t *Ty) String() string {
	switch t.K {
	case "slice":
		return "slice.T " + t.Elem.String()
	case "map":
		return "mapT " + t.Elem.String()
	case "struct":
		return "struct.t " + t.Desc.Name
	case "prod":
		return "(" + t.A.String() + " * " + t.B.String() + ")"
	}
	return t.K
}

var (
	tyU64  = &Ty{K: "u64"}
	tyU32  = &Ty{K: "u32"}
	tyU8   = &Ty{K: "u8"}
	tyBool = &Ty{K: "bool"}
	tyStr  = &Ty{K: "str"}
	tyUnit = &Ty{K: "unit"}
	tyPtr  = &Ty{K: "ptr"}
	tyAny  = &Ty{K: "any"}
)

var Null = VLoc{}

func SliceNil() Val { return VPair{VPair{Null, VInt{64, 0}}, VInt{64, 0}} }

func Show(v Val) string {
	switch v := v.(type) {
	case VInt:
		switch v.W {
		case 64:
			return fmt.Sprintf("#%d", v.N)
		case 32:
			return fmt.Sprintf("#(U32 %d)", v.N)
		default:
			return fmt.Sprintf("#(U8 %d)", v.N)
		}
	case VBool:
		return fmt.Sprintf("#%v", bool(v))
	case VStr:
		return fmt.Sprintf("#(str%q)", string(v))
	case VUnit:
		return "#()"
	case VLoc:
		if v.B == nil {
			return "#null"
		}
		return fmt.Sprintf("#(loc %d+%d)", v.B.ID, v.Off)
	case VPair:
		return "(" + Show(v.A) + ", " + Show(v.B) + ")"
	case VClos:
		return "<closure " + strings.Join(v.Params, ",") + ">"
	case VBuiltin:
		return "<" + v.Name + ">"
	case VTy:
		return "<ty " + v.T.String() + ">"
	case VDesc:
		return "<desc " + v.D.Name + ">"
	case VMap:
		return fmt.Sprintf("<map %d entries>", len(v.Keys))
	case VTyLam:
		return "<generic>"
	}
	return fmt.Sprintf("<%T>", v)
}

func kindOf(v Val) string {
	switch v := v.(type) {
	case VInt:
		return fmt.Sprintf("u%d", v.W)
	case VBool:
		return "bool"
	case VStr:
		return "string"
	case VUnit:
		return "unit"
	case VLoc:
		return "loc"
	case VPair:
		return "pair"
	case VClos, VBuiltin:
		return "func"
	case VTy:
		return "type"
	case VDesc:
		return "descriptor"
	case VMap:
		return "mapval"
	}
	return "other"
}
