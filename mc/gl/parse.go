package gl

import (
	"fmt"
	"strconv"
	"strings"
)

type ParseError struct {
	Line int
	Msg  string
}

func (e *ParseError) Error() string { return fmt.Sprintf("parse: line %d: %s", e.Line, e.Msg) }

type parser struct {
	toks []Token
	i    int
}

func (p *parser) peek() Token { return p.toks[p.i] }
func (p *parser) next() Token { t := p.toks[p.i]; p.i++; return t }
func (p *parser) isP(s string) bool {
	t := p.peek()
	return t.Kind == TPunct && t.Text == s
}
func (p *parser) isIdent(s string) bool {
	t := p.peek()
	return t.Kind == TIdent && t.Text == s
}
func (p *parser) fail(format string, a ...any) {
	panic(&ParseError{p.peek().Line, fmt.Sprintf(format, a...) + fmt.Sprintf(" (at %s)", p.peek())})
}
func (p *parser) expectP(s string) {
	if !p.isP(s) {
		p.fail("expected %q", s)
	}
	p.i++
}

// binary operator table: level, associativity ('l','r','n')
type opInfo struct {
	level int
	assoc byte
}

var binops = map[string]opInfo{
	"*": {40, 'l'}, "+": {50, 'l'}, "-": {50, 'l'},
	"=": {70, 'n'}, "≠": {70, 'n'}, "<": {70, 'n'}, ">": {70, 'n'}, "≤": {70, 'n'}, "≥": {70, 'n'},
	"`quot`": {35, 'l'}, "`rem`": {35, 'l'}, "`and`": {35, 'l'}, "`or`": {35, 'l'}, "`xor`": {35, 'l'},
	"≪": {35, 'l'}, "≫": {35, 'l'},
	"&&": {40, 'l'}, "||": {50, 'l'},
	";;": {100, 'r'},
	"->": {99, 'r'},
}

const (
	lvlAtom  = 0
	lvlLoad  = 9
	lvlApp   = 10
	lvlNot   = 75
	lvlStore = 80
	lvlTop   = 200
)

// parseLevel parses an expression whose outermost construct has Coq level <= max.
func (p *parser) parseLevel(max int) (Expr, int) {
	lhs, lvl := p.parsePrefix(max)
	for {
		t := p.peek()
		if t.Kind != TPunct {
			break
		}
		if t.Text == "<-[" {
			if lvlStore > max || lvl > lvlStore-1 {
				break
			}
			p.i++
			ty, _ := p.parseLevel(lvlTop)
			p.expectP("]")
			rhs, _ := p.parseLevel(lvlStore - 1)
			lhs, lvl = &Store{Ty: ty, Dst: lhs, E: rhs}, lvlStore
			continue
		}
		op, ok := binops[t.Text]
		if !ok || op.level > max {
			break
		}
		needL, rmax := op.level, op.level-1
		switch op.assoc {
		case 'n':
			needL = op.level - 1
		case 'r':
			needL, rmax = op.level-1, op.level
		}
		if t.Text == ";;" {
			rmax = lvlTop
		}
		if lvl > needL {
			break
		}
		p.i++
		rhs, _ := p.parseLevel(rmax)
		switch t.Text {
		case ";;":
			lhs = &Seq{A: lhs, B: rhs}
		case "->":
			if a, ok := rhs.(*Arrow); ok {
				lhs = &Arrow{Ts: append([]Expr{lhs}, a.Ts...)}
			} else {
				lhs = &Arrow{Ts: []Expr{lhs, rhs}}
			}
		default:
			lhs = &BinOp{Op: strings.Trim(t.Text, "`"), L: lhs, R: rhs}
		}
		lvl = op.level
	}
	return lhs, lvl
}

func (p *parser) parsePat() Pat {
	if p.isP("<>") {
		p.i++
		return Pat{}
	}
	if p.peek().Kind == TString {
		return Pat{Name: p.next().Text}
	}
	if p.isP("(") {
		p.i++
		a := p.parsePat()
		for p.isP(",") {
			p.i++
			b := p.parsePat()
			a = Pat{Pair: []Pat{a, b}}
		}
		p.expectP(")")
		return a
	}
	p.fail("expected a binder")
	return Pat{}
}

func (p *parser) parseBinders(stop string) []string {
	var out []string
	for !p.isP(stop) {
		if p.isP("<>") {
			p.i++
			out = append(out, "")
		} else if p.peek().Kind == TString {
			out = append(out, p.next().Text)
		} else {
			p.fail("expected a binder or %q", stop)
		}
	}
	return out
}

func (p *parser) parsePrefix(max int) (Expr, int) {
	t := p.peek()
	need := func(l int, what string) {
		if l > max {
			p.fail("%s needs parentheses in this position (level %d > %d)", what, l, max)
		}
	}
	if t.Kind == TPunct {
		switch t.Text {
		case "let:":
			need(lvlTop, "let:")
			p.i++
			pat := p.parsePat()
			p.expectP(":=")
			e, _ := p.parseLevel(lvlTop)
			if !p.isIdent("in") {
				p.fail("expected 'in'")
			}
			p.i++
			body, _ := p.parseLevel(lvlTop)
			return &Let{Pat: pat, E: e, Body: body}, lvlTop
		case "if:":
			need(lvlTop, "if:")
			p.i++
			c, _ := p.parseLevel(lvlTop)
			if !p.isIdent("then") {
				p.fail("expected 'then'")
			}
			p.i++
			th, _ := p.parseLevel(lvlTop)
			if !p.isIdent("else") {
				p.fail("expected 'else'")
			}
			p.i++
			el, _ := p.parseLevel(lvlTop)
			return &If{C: c, T: th, E: el}, lvlTop
		case "λ:":
			need(lvlTop, "λ:")
			p.i++
			bs := p.parseBinders(",")
			p.expectP(",")
			body, _ := p.parseLevel(lvlTop)
			return &Lam{Params: bs, Body: body}, lvlTop
		case "rec:":
			need(lvlTop, "rec:")
			p.i++
			if p.peek().Kind != TString {
				p.fail("expected the recursive binder")
			}
			name := p.next().Text
			bs := p.parseBinders(":=")
			p.expectP(":=")
			body, _ := p.parseLevel(lvlTop)
			return &Rec{Name: name, Params: bs, Body: body}, lvlTop
		case "for:":
			need(lvlTop, "for:")
			p.i++
			c, _ := p.parseLevel(99)
			p.expectP(";")
			post, _ := p.parseLevel(99)
			p.expectP(":=")
			body, _ := p.parseLevel(lvlTop)
			return &For{Cond: c, Post: post, Body: body}, lvlTop
		case "~":
			need(lvlNot, "~")
			p.i++
			x, _ := p.parseLevel(lvlNot)
			return &Not{X: x}, lvlNot
		case "![":
			need(lvlLoad, "![t]")
			p.i++
			ty, _ := p.parseLevel(lvlTop)
			p.expectP("]")
			e, _ := p.parseLevel(lvlLoad)
			return &Load{Ty: ty, E: e}, lvlLoad
		}
	}
	return p.parseApp(max)
}

// CoqReserved: the keywords of Gallina's term language; none of them can name a definition or be
// referred to as an identifier (Coq reference manual, lexical conventions).
var CoqReserved = map[string]bool{"as": true, "at": true, "cofix": true, "else": true, "end": true, "exists": true, "exists2": true, "fix": true,
	"for": true, "forall": true, "fun": true, "if": true, "IF": true, "in": true, "let": true, "match": true, "mod": true, "Prop": true,
	"return": true, "Set": true, "SProp": true, "then": true, "Type": true, "using": true, "where": true, "with": true}

func (p *parser) atomStart() bool {
	t := p.peek()
	switch t.Kind {
	case TIdent:
		switch t.Text {
		case "in", "then", "else":
			return false
		}
		if CoqReserved[t.Text] {
			return false // a Gallina keyword cannot be used as an identifier
		}
		if i := strings.Index(t.Text, "."); i > 0 && CoqReserved[t.Text[:i]] {
			return false // mod.Add: the first component of a qualified name is lexed as an identifier, i.e. as the keyword
		}
		return true
	case TString, TNum:
		return true
	case TPunct:
		return t.Text == "(" || t.Text == "#" || t.Text == "<>"
	}
	return false
}

func (p *parser) parseApp(max int) (Expr, int) {
	head := p.parseAtom()
	if g, ok := head.(*Global); ok && (g.Name == "struct.mk" || g.Name == "struct.new") {
		desc := p.parseAtom()
		p.expectP("[")
		sl := &StructLit{New: g.Name == "struct.new", Desc: desc}
		for !p.isP("]") {
			if p.peek().Kind != TString {
				p.fail("expected a field name")
			}
			name := p.next().Text
			p.expectP("::=")
			e, _ := p.parseLevel(lvlTop)
			sl.Fields = append(sl.Fields, FieldInit{name, e})
			if p.isP(";") {
				p.i++
			} else if !p.isP("]") {
				p.fail("expected ';' or ']' in struct literal")
			}
		}
		p.expectP("]")
		return sl, lvlApp
	}
	if g, ok := head.(*Global); ok && g.Name == "struct.decl" {
		p.expectP("[")
		d := &Decl{}
		for !p.isP("]") {
			if p.peek().Kind != TString {
				p.fail("expected a field name")
			}
			name := p.next().Text
			p.expectP("::")
			ty, _ := p.parseLevel(lvlTop)
			d.Fields = append(d.Fields, FieldType{name, ty})
			if p.isP(";") {
				p.i++
			} else if !p.isP("]") {
				p.fail("expected ';' or ']' in struct descriptor")
			}
		}
		p.expectP("]")
		return d, lvlApp
	}
	var args []Expr
	for p.atomStart() {
		args = append(args, p.parseAtom())
	}
	if len(args) == 0 {
		return head, lvlAtom
	}
	if lvlApp > max {
		p.fail("application needs parentheses in this position")
	}
	return &App{Fn: head, Args: args}, lvlApp
}

func (p *parser) parseAtom() Expr {
	t := p.next()
	switch t.Kind {
	case TString:
		return &Var{Name: t.Text}
	case TIdent:
		return &Global{Name: t.Text}
	case TNum:
		n, _ := strconv.ParseUint(t.Text, 10, 64)
		return &Lit{Kind: "nat", N: n}
	case TPunct:
		switch t.Text {
		case "<>":
			return &Anon{}
		case "#":
			return p.parseLit()
		case "(":
			if p.isP(")") {
				p.i++
				return &Tuple{}
			}
			e, _ := p.parseLevel(lvlTop)
			if p.isP(",") {
				tu := &Tuple{Es: []Expr{e}}
				for p.isP(",") {
					p.i++
					x, _ := p.parseLevel(lvlTop)
					tu.Es = append(tu.Es, x)
				}
				e = tu
			}
			p.expectP(")")
			if p.isP("%") {
				p.i++
				p.next() // scope key (ht, E, V)
			}
			return e
		}
	}
	p.i--
	p.fail("unexpected token")
	return nil
}

func (p *parser) parseLit() Expr {
	t := p.next()
	switch {
	case t.Kind == TNum:
		n, err := strconv.ParseUint(t.Text, 10, 64)
		if err != nil {
			p.i--
			p.fail("integer literal out of range")
		}
		return &Lit{Kind: "u64", N: n}
	case t.Kind == TIdent && t.Text == "true":
		return &Lit{Kind: "bool", B: true}
	case t.Kind == TIdent && t.Text == "false":
		return &Lit{Kind: "bool", B: false}
	case t.Kind == TIdent && t.Text == "null":
		return &Lit{Kind: "null"}
	case t.Kind == TPunct && t.Text == "(":
		if p.isP(")") {
			p.i++
			return &Lit{Kind: "unit"}
		}
		k := p.next()
		var l *Lit
		switch {
		case k.Kind == TIdent && (k.Text == "U32" || k.Text == "U8" || k.Text == "U64"):
			n := p.next()
			if n.Kind != TNum {
				p.fail("expected a number")
			}
			v, _ := strconv.ParseUint(n.Text, 10, 64)
			l = &Lit{Kind: map[string]string{"U32": "u32", "U8": "u8", "U64": "u64"}[k.Text], N: v}
		case k.Kind == TIdent && k.Text == "str":
			s := p.next()
			if s.Kind != TString {
				p.fail("expected a string after str")
			}
			l = &Lit{Kind: "str", S: s.Text}
		default:
			p.i--
			p.fail("unknown literal form")
		}
		p.expectP(")")
		return l
	}
	p.i--
	p.fail("unknown literal")
	return nil
}

// ParseFile lexes and parses a whole emitted file.
func ParseFile(src string) (f *File, err error) {
	toks, lerr := Lex(src)
	if lerr != nil {
		return &File{Defs: map[string]*Sentence{}}, lerr // never nil: callers may look at Bad / Order
	}
	f = &File{Defs: map[string]*Sentence{}}
	start := 0
	for i, t := range toks {
		if t.Kind == TSentenceEnd {
			s, perr := parseSentence(toks[start:i], src)
			if perr != nil {
				// keep going: one malformed sentence must not hide the others
				s.Kind = "unparsed"
				s.Err = perr.Error()
				if i > start+1 && toks[start].Text == "Definition" {
					s.Name = toks[start+1].Text
				}
				f.Bad = append(f.Bad, s)
			}
			f.Sentences = append(f.Sentences, s)
			start = i + 1
		}
	}
	if rest := toks[start:]; len(rest) > 1 {
		return f, &ParseError{rest[0].Line, fmt.Sprintf("text after the last sentence is not terminated by a period: %s…", rest[0].Text)}
	}
	for i := range f.Sentences {
		s := &f.Sentences[i]
		if s.Kind == "definition" || s.Kind == "notation" {
			f.Defs[s.Name] = s
			f.Order = append(f.Order, s.Name)
		}
	}
	return f, nil
}

func parseSentence(toks []Token, src string) (s Sentence, err error) {
	defer func() {
		if r := recover(); r != nil {
			if pe, ok := r.(*ParseError); ok {
				err = pe
				return
			}
			panic(r)
		}
	}()
	if len(toks) == 0 {
		return s, &ParseError{0, "empty sentence"}
	}
	s.Line = toks[0].Line
	s.Raw = src[toks[0].Pos : toks[len(toks)-1].Pos+len(toks[len(toks)-1].Text)]
	toks = append(append([]Token(nil), toks...), Token{Kind: TEOF, Line: toks[len(toks)-1].Line})
	p := &parser{toks: toks}
	first := p.next()
	if first.Kind != TIdent {
		return s, &ParseError{first.Line, "sentence does not start with a vernacular keyword: " + first.Text}
	}
	switch first.Text {
	case "From", "Require":
		s.Kind = "require"
		var parts []string
		for _, t := range toks[:len(toks)-1] {
			parts = append(parts, t.Text)
		}
		s.Name = strings.Join(parts, " ")
	case "Section":
		s.Kind, s.Name = "section", p.next().Text
	case "End":
		s.Kind, s.Name = "end", p.next().Text
	case "Context":
		s.Kind = "context"
	case "Local":
		s.Kind = "coercion"
	case "Theorem":
		s.Kind, s.Name = "theorem", p.next().Text
	case "Proof":
		s.Kind = "proof"
	case "typecheck":
		s.Kind = "tactic"
	case "Qed":
		s.Kind = "qed"
	case "Hint":
		s.Kind = "hint"
	case "Notation":
		s.Kind, s.DefKind = "notation", "ty"
		s.Name = p.next().Text
		p.expectP(":=")
		// strip trailing "(only parsing)"
		n := len(p.toks) - 1
		if n >= 4 && p.toks[n-1].Text == ")" && p.toks[n-2].Text == "parsing" && p.toks[n-3].Text == "only" && p.toks[n-4].Text == "(" {
			p.toks = append(p.toks[:n-4:n-4], p.toks[n])
		}
		s.Body, _ = p.parseLevel(lvlTop)
		if p.peek().Kind != TEOF {
			p.fail("unexpected text after the notation body")
		}
	case "Definition":
		s.Kind = "definition"
		nt := p.next()
		if nt.Kind != TIdent && !(nt.Kind == TPunct && nt.Text == "_") {
			return s, &ParseError{nt.Line, "Definition without a valid name: " + nt.Text}
		}
		if CoqReserved[nt.Text] || nt.Text == "_" {
			return s, &ParseError{nt.Line, "Definition named with a reserved word of Gallina (or the wildcard): " + nt.Text}
		}
		s.Name = nt.Text
		for p.isP("(") { // type parameters (T:ty)
			p.i++
			s.TypeParams = append(s.TypeParams, p.next().Text)
			p.expectP(":")
			p.next()
			p.expectP(")")
		}
		if p.isP(":") {
			p.i++
			s.DefKind = p.next().Text
		}
		p.expectP(":=")
		s.Body, _ = p.parseLevel(lvlTop)
		if _, ok := s.Body.(*Decl); ok {
			s.DefKind = "struct"
		}
		if p.peek().Kind != TEOF {
			p.fail("unexpected text after the definition body")
		}
	default:
		return s, &ParseError{first.Line, "unknown vernacular: " + first.Text}
	}
	return s, nil
}
