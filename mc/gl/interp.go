package gl

import (
	"fmt"
	"strings"

	"verif/csched"
)

// Stuck is GooseLang undefined behaviour (no reduction applies).
type Stuck struct{ Why string }

func (s *Stuck) Error() string { return "stuck: " + s.Why }

// Diverged: fuel exhausted or Assume false.
type Diverged struct{ Why string }

func (d *Diverged) Error() string { return "diverged: " + d.Why }

type Interp struct {
	File      *File
	Fuel      int
	nextBlock int
	tys       map[string]*Ty
	descs     map[string]*Desc
	evalDepth int
	cur       *File // file of the definition being evaluated (nil = File)
	// nondeterminism hooks
	ExtraCap func() int // extra capacity for fresh slice allocations (default 0)
	// FFI
	DiskBlocks [][]byte
	// concurrency
	Race        bool
	ThreadFails []string
	locks       map[*Block]*lockState
}

func New(f *File) *Interp {
	in := &Interp{File: f, Fuel: 2_000_000, tys: map[string]*Ty{}, descs: map[string]*Desc{}, locks: map[*Block]*lockState{}}
	in.DiskBlocks = make([][]byte, 30)
	for i := range in.DiskBlocks {
		in.DiskBlocks[i] = make([]byte, 4096)
	}
	return in
}

func stuck(format string, a ...any) { panic(&Stuck{fmt.Sprintf(format, a...)}) }

func (in *Interp) tick() {
	in.Fuel--
	if in.Fuel < 0 {
		panic(&Diverged{"step budget exhausted"})
	}
}

// Call evaluates the named definition applied to args; returns value or error (*Stuck, *Diverged).
func (in *Interp) Call(name string, args ...Val) (v Val, err error) {
	defer func() {
		if r := recover(); r != nil {
			switch r := r.(type) {
			case *Stuck:
				err = r
			case *Diverged:
				err = r
			default:
				panic(r)
			}
		}
	}()
	f := in.global(name, nil)
	if len(args) == 0 {
		args = []Val{VUnit{}}
	}
	for _, a := range args {
		f = in.apply(f, a)
	}
	return f, nil
}

func (in *Interp) alloc(cells []Val) VLoc {
	in.nextBlock++
	b := &Block{ID: in.nextBlock, Cells: cells}
	return VLoc{b, 0}
}

func flatten(v Val, out []Val) []Val {
	switch v := v.(type) {
	case VPair:
		out = flatten(v.A, out)
		return flatten(v.B, out)
	case VUnit:
		return out
	}
	return append(out, v)
}

func (in *Interp) cell(l VLoc, what string) *Val {
	if l.B == nil {
		stuck("%s through #null", what)
	}
	if l.Off < 0 || l.Off >= len(l.B.Cells) {
		stuck("%s at offset %d of a block of %d cells (unallocated)", what, l.Off, len(l.B.Cells))
	}
	return &l.B.Cells[l.Off]
}

func (in *Interp) read(l VLoc) Val {
	c := in.cell(l, "load")
	if in.Race {
		in.raceRead(l)
	}
	return *c
}

func (in *Interp) write(l VLoc, v Val) {
	c := in.cell(l, "store")
	if in.Race {
		in.raceWrite(l)
	}
	*c = v
}

func (in *Interp) loadTy(t *Ty, l VLoc) Val {
	switch t.K {
	case "unit":
		return VUnit{}
	case "slice":
		return VPair{VPair{in.read(l), in.read(VLoc{l.B, l.Off + 1})}, in.read(VLoc{l.B, l.Off + 2})}
	case "struct":
		return in.loadFields(t.Desc.Fields, l)
	case "prod":
		a := in.loadTy(t.A, l)
		return VPair{a, in.loadTy(t.B, VLoc{l.B, l.Off + t.A.Size()})}
	}
	return in.read(l)
}

func (in *Interp) loadFields(fs []DescField, l VLoc) Val {
	if len(fs) == 0 {
		return VUnit{}
	}
	a := in.loadTy(fs[0].Ty, l)
	return VPair{a, in.loadFields(fs[1:], VLoc{l.B, l.Off + fs[0].Ty.Size()})}
}

func (in *Interp) storeTy(t *Ty, l VLoc, v Val) {
	switch t.K {
	case "unit":
		return
	case "slice", "struct", "prod":
		cells := flatten(v, nil)
		if len(cells) != t.Size() {
			stuck("store of a value with %d cells at type %s (%d cells): %s", len(cells), t, t.Size(), Show(v))
		}
		for i, c := range cells {
			in.write(VLoc{l.B, l.Off + i}, c)
		}
		return
	}
	if _, isPair := v.(VPair); isPair {
		stuck("store of a pair %s at base type %s", Show(v), t)
	}
	in.write(l, v)
}

func zeroVal(t *Ty) Val {
	switch t.K {
	case "u64":
		return VInt{64, 0}
	case "u32":
		return VInt{32, 0}
	case "u8":
		return VInt{8, 0}
	case "bool":
		return VBool(false)
	case "str":
		return VStr("")
	case "unit":
		return VUnit{}
	case "ptr", "map", "any", "ext":
		return Null
	case "slice":
		return SliceNil()
	case "struct":
		var build func(fs []DescField) Val
		build = func(fs []DescField) Val {
			if len(fs) == 0 {
				return VUnit{}
			}
			return VPair{zeroVal(fs[0].Ty), build(fs[1:])}
		}
		return build(t.Desc.Fields)
	case "prod":
		return VPair{zeroVal(t.A), zeroVal(t.B)}
	case "arrow":
		return VClos{Params: []string{""}, Body: &Lit{Kind: "unit"}}
	}
	stuck("zero_val of unknown type %s", t.K)
	return nil
}

// ---------------------------------------------------------------- globals

func (in *Interp) global(name string, env *Env) Val {
	if env != nil {
		if v, ok := env.lookup("ty:" + name); ok {
			return v
		}
	}
	cur := in.cur
	if cur == nil {
		cur = in.File
	}
	if s, ok := cur.Defs[name]; ok {
		return in.evalDef(s)
	}
	// qualified identifier of an imported package that was translated too
	if i := strings.IndexByte(name, '.'); i > 0 && cur.Imports != nil {
		if imp, ok := cur.Imports[name[:i]]; ok {
			if s, ok := imp.Defs[name[i+1:]]; ok {
				saved := in.cur
				in.cur = imp
				v := in.evalDef(s)
				in.cur = saved
				return v
			}
		}
	}
	if v, ok := in.builtinValue(name); ok {
		return v
	}
	stuck("reference to unknown identifier %s", name)
	return nil
}

func (in *Interp) evalDef(s *Sentence) Val {
	in.evalDepth++
	defer func() { in.evalDepth-- }()
	if in.evalDepth > 200 {
		stuck("cyclic definition of %s", s.Name)
	}
	if len(s.TypeParams) > 0 {
		return VTyLam{Params: s.TypeParams, Body: s.Body}
	}
	v := in.eval(s.Body, nil)
	if d, ok := v.(VDesc); ok && d.D.Name == "" {
		d.D.Name = s.Name
	}
	return v
}

func (in *Interp) asTy(v Val, ctx string) *Ty {
	switch v := v.(type) {
	case VTy:
		return v.T
	}
	stuck("%s: expected a type, got %s", ctx, Show(v))
	return nil
}

func (in *Interp) asDesc(v Val, ctx string) *Desc {
	if d, ok := v.(VDesc); ok {
		return d.D
	}
	stuck("%s: expected a struct descriptor, got %s", ctx, Show(v))
	return nil
}

// ---------------------------------------------------------------- eval

func (in *Interp) eval(e Expr, env *Env) Val {
	in.tick()
	switch e := e.(type) {
	case *Lit:
		switch e.Kind {
		case "u64":
			return VInt{64, e.N}
		case "u32":
			return VInt{32, e.N & 0xffffffff}
		case "u8":
			return VInt{8, e.N & 0xff}
		case "bool":
			return VBool(e.B)
		case "str":
			return VStr(e.S)
		case "unit":
			return VUnit{}
		case "null":
			return Null
		case "nat":
			return VInt{64, e.N}
		}
	case *Var:
		v, ok := env.lookup(e.Name)
		if !ok {
			stuck("unbound variable %q", e.Name)
		}
		return v
	case *Global:
		return in.global(e.Name, env)
	case *Anon:
		stuck("<> in expression position")
	case *Tuple:
		if len(e.Es) == 0 {
			return VUnit{}
		}
		vals := make([]Val, len(e.Es))
		for i := len(e.Es) - 1; i >= 0; i-- { // right to left
			vals[i] = in.eval(e.Es[i], env)
		}
		v := vals[0]
		for _, x := range vals[1:] {
			v = VPair{v, x}
		}
		return v
	case *BinOp:
		switch e.Op {
		case "&&":
			c := in.eval(e.L, env)
			b, ok := c.(VBool)
			if !ok {
				stuck("&& on non-boolean %s", Show(c))
			}
			if b {
				return in.eval(e.R, env)
			}
			return VBool(false)
		case "||":
			c := in.eval(e.L, env)
			b, ok := c.(VBool)
			if !ok {
				stuck("|| on non-boolean %s", Show(c))
			}
			if b {
				return VBool(true)
			}
			return in.eval(e.R, env)
		case "*":
			// also product of types
			r := in.eval(e.R, env)
			l := in.eval(e.L, env)
			if lt, ok := l.(VTy); ok {
				return VTy{&Ty{K: "prod", A: lt.T, B: in.asTy(r, "type product")}}
			}
			return binop(e.Op, l, r)
		}
		r := in.eval(e.R, env) // right operand first
		l := in.eval(e.L, env)
		return binop(e.Op, l, r)
	case *Not:
		v := in.eval(e.X, env)
		switch v := v.(type) {
		case VBool:
			return !v
		case VInt:
			return VInt{v.W, mask(v.W, ^v.N)}
		}
		stuck("~ applied to %s", Show(v))
	case *Let:
		v := in.eval(e.E, env)
		return in.eval(e.Body, in.bindPat(e.Pat, v, env))
	case *Seq:
		in.eval(e.A, env)
		return in.eval(e.B, env)
	case *If:
		c := in.eval(e.C, env)
		b, ok := c.(VBool)
		if !ok {
			stuck("if: on non-boolean %s", Show(c))
		}
		if b {
			return in.eval(e.T, env)
		}
		return in.eval(e.E, env)
	case *Lam:
		return VClos{Params: e.Params, Body: e.Body, Env: env, File: in.cur}
	case *Rec:
		return VClos{RecName: e.Name, Params: e.Params, Body: e.Body, Env: env, File: in.cur}
	case *For:
		cond := in.eval(e.Cond, env)
		post := in.eval(e.Post, env)
		body := in.eval(e.Body, env)
		for {
			in.tick()
			c := in.apply(cond, VUnit{})
			cb, ok := c.(VBool)
			if !ok {
				stuck("loop condition is not a boolean: %s", Show(c))
			}
			if !cb {
				return VUnit{}
			}
			r := in.apply(body, VUnit{})
			rb, ok := r.(VBool)
			if !ok {
				stuck("loop body returned %s, not Continue/Break", Show(r))
			}
			if !rb {
				return VUnit{}
			}
			in.apply(post, VUnit{})
		}
	case *Load:
		l := in.eval(e.E, env)
		t := in.asTy(in.eval(e.Ty, env), "![t]")
		loc, ok := l.(VLoc)
		if !ok {
			stuck("load from non-location %s", Show(l))
		}
		return in.loadTy(t, loc)
	case *Store:
		v := in.eval(e.E, env)
		d := in.eval(e.Dst, env)
		t := in.asTy(in.eval(e.Ty, env), "<-[t]")
		loc, ok := d.(VLoc)
		if !ok {
			stuck("store to non-location %s", Show(d))
		}
		in.storeTy(t, loc, v)
		return VUnit{}
	case *StructLit:
		d := in.asDesc(in.eval(e.Desc, env), "struct literal")
		vals := map[string]Val{}
		// field initialisers are evaluated in reverse declaration order (right to left in the built tuple)
		for i := len(d.Fields) - 1; i >= 0; i-- {
			f := d.Fields[i]
			found := false
			for _, fi := range e.Fields {
				if fi.Name == f.Name {
					vals[f.Name] = in.eval(fi.E, env)
					found = true
					break
				}
			}
			if !found {
				vals[f.Name] = zeroVal(f.Ty)
			}
		}
		for _, fi := range e.Fields {
			if _, ok := vals[fi.Name]; !ok {
				stuck("struct literal of %s names unknown field %q", d.Name, fi.Name)
			}
		}
		var build func(fs []DescField) Val
		build = func(fs []DescField) Val {
			if len(fs) == 0 {
				return VUnit{}
			}
			return VPair{vals[fs[0].Name], build(fs[1:])}
		}
		v := build(d.Fields)
		if e.New {
			return in.alloc(flatten(v, nil))
		}
		return v
	case *Decl:
		d := &Desc{}
		for _, f := range e.Fields {
			d.Fields = append(d.Fields, DescField{f.Name, in.asTy(in.eval(f.Ty, env), "struct.decl")})
		}
		return VDesc{d}
	case *Arrow:
		return VTy{&Ty{K: "arrow"}}
	case *App:
		return in.evalApp(e, env)
	}
	stuck("cannot evaluate %s", Sexp(e))
	return nil
}

func (in *Interp) bindPat(p Pat, v Val, env *Env) *Env {
	if p.Pair != nil {
		pv, ok := v.(VPair)
		if !ok {
			stuck("destructuring let of a non-pair %s", Show(v))
		}
		env = in.bindPat(p.Pair[0], pv.A, env)
		return in.bindPat(p.Pair[1], pv.B, env)
	}
	return env.bind(p.Name, v)
}

func (in *Interp) apply(f Val, a Val) Val {
	in.tick()
	switch f := f.(type) {
	case VClos:
		env := f.Env
		if f.RecName != "" {
			env = env.bind(f.RecName, f)
		}
		if len(f.Params) == 0 {
			stuck("application of a closure without parameters")
		}
		env = env.bind(f.Params[0], a)
		if len(f.Params) == 1 {
			saved := in.cur
			in.cur = f.File
			v := in.eval(f.Body, env)
			in.cur = saved
			return v
		}
		return VClos{Params: f.Params[1:], Body: f.Body, Env: env, File: f.File}
	case VBuiltin:
		args := append(append([]Val(nil), f.Args...), a)
		b := builtins[f.Name]
		if len(args) < b.arity {
			return VBuiltin{f.Name, args}
		}
		return b.fn(in, args)
	case VTyLam:
		t, ok := a.(VTy)
		if !ok {
			stuck("generic definition applied to non-type %s", Show(a))
		}
		var env *Env
		// previously supplied type arguments are kept in Body's closure via nested VTyLam application
		env = env.bind("ty:"+f.Params[0], t)
		if len(f.Params) == 1 {
			return in.evalWithTyEnv(f.Body, env)
		}
		return vTyLamPartial{Params: f.Params[1:], Body: f.Body, Env: env}
	case vProj:
		cur := a
		for i := 0; i < f.idx; i++ {
			p, ok := cur.(VPair)
			if !ok {
				stuck("struct.get %s of a non-struct value %s", f.d.Name, Show(a))
			}
			cur = p.B
		}
		p, ok := cur.(VPair)
		if !ok {
			stuck("struct.get %s of a non-struct value %s", f.d.Name, Show(a))
		}
		return p.A
	case vTyLamPartial:
		t, ok := a.(VTy)
		if !ok {
			stuck("generic definition applied to non-type %s", Show(a))
		}
		env := f.Env.bind("ty:"+f.Params[0], t)
		if len(f.Params) == 1 {
			return in.evalWithTyEnv(f.Body, env)
		}
		return vTyLamPartial{Params: f.Params[1:], Body: f.Body, Env: env}
	}
	stuck("application of non-function %s", Show(f))
	return nil
}

type vProj struct {
	d   *Desc
	idx int
}

type vTyLamPartial struct {
	Params []string
	Body   Expr
	Env    *Env
}

func (in *Interp) evalWithTyEnv(body Expr, env *Env) Val { return in.eval(body, env) }

// evalApp handles the syntactic builtins (arguments that are names, binders or
// unevaluated expressions) and ordinary right-to-left application.
func (in *Interp) evalApp(e *App, env *Env) Val {
	if g, ok := e.Fn.(*Global); ok {
		if _, user := in.File.Defs[g.Name]; !user {
			switch g.Name {
			case "Panic":
				msg := ""
				if len(e.Args) > 0 {
					msg = Sexp(e.Args[0])
				}
				stuck("Panic %s", msg)
			case "Fork":
				if len(e.Args) != 1 {
					stuck("Fork with %d arguments", len(e.Args))
				}
				in.fork(e.Args[0], env)
				return VUnit{}
			case "struct.get", "struct.loadF", "struct.fieldRef", "struct.storeF":
				return in.structOp(g.Name, e, env)
			case "ForSlice":
				return in.forSlice(e, env)
			}
		}
	}
	vals := make([]Val, len(e.Args))
	for i := len(e.Args) - 1; i >= 0; i-- {
		vals[i] = in.eval(e.Args[i], env)
	}
	f := in.eval(e.Fn, env)
	for _, a := range vals {
		f = in.apply(f, a)
	}
	return f
}

func fieldName(e Expr) string {
	if v, ok := e.(*Var); ok {
		return v.Name
	}
	stuck("field name expected, got %s", Sexp(e))
	return ""
}

func (d *Desc) field(name string) (off int, t *Ty, idx int) {
	for i, f := range d.Fields {
		if f.Name == name {
			return off, f.Ty, i
		}
		off += f.Ty.Size()
	}
	stuck("struct %s has no field %q", d.Name, name)
	return 0, nil, 0
}

func (in *Interp) structOp(name string, e *App, env *Env) Val {
	want := 3
	if name == "struct.storeF" {
		want = 4
	}
	if name == "struct.get" && len(e.Args) == 2 {
		// (struct.get I "m") used as a projection function (interface method selection)
		d := in.asDesc(in.eval(e.Args[0], env), name)
		_, _, idx := d.field(fieldName(e.Args[1]))
		return vProj{d, idx}
	}
	if len(e.Args) < want {
		stuck("%s with %d arguments", name, len(e.Args))
	}
	// right to left: (value), struct expression; descriptor and field are static
	var v Val
	if name == "struct.storeF" {
		v = in.eval(e.Args[3], env)
	}
	x := in.eval(e.Args[2], env)
	d := in.asDesc(in.eval(e.Args[0], env), name)
	off, ft, idx := d.field(fieldName(e.Args[1]))
	var res Val
	switch name {
	case "struct.get":
		cur := x
		for i := 0; i < idx; i++ {
			p, ok := cur.(VPair)
			if !ok {
				stuck("struct.get %s %q of a non-struct value %s", d.Name, fieldName(e.Args[1]), Show(x))
			}
			cur = p.B
		}
		p, ok := cur.(VPair)
		if !ok {
			stuck("struct.get %s %q of a non-struct value %s", d.Name, fieldName(e.Args[1]), Show(x))
		}
		res = p.A
	case "struct.loadF":
		l, ok := x.(VLoc)
		if !ok {
			stuck("struct.loadF %s %q from non-location %s", d.Name, fieldName(e.Args[1]), Show(x))
		}
		res = in.loadTy(ft, VLoc{l.B, l.Off + off})
	case "struct.fieldRef":
		l, ok := x.(VLoc)
		if !ok {
			stuck("struct.fieldRef %s %q of non-location %s", d.Name, fieldName(e.Args[1]), Show(x))
		}
		if l.B == nil {
			stuck("struct.fieldRef of #null")
		}
		res = VLoc{l.B, l.Off + off}
	case "struct.storeF":
		l, ok := x.(VLoc)
		if !ok {
			stuck("struct.storeF %s %q to non-location %s", d.Name, fieldName(e.Args[1]), Show(x))
		}
		in.storeTy(ft, VLoc{l.B, l.Off + off}, v)
		res = VUnit{}
	}
	for _, extra := range e.Args[want:] { // e.g. calling a function-typed field
		res = in.apply(res, in.eval(extra, env))
	}
	return res
}

func binderName(e Expr) string {
	switch b := e.(type) {
	case *Var:
		return b.Name
	case *Anon:
		return ""
	}
	stuck("binder expected, got %s", Sexp(e))
	return ""
}

func (in *Interp) forSlice(e *App, env *Env) Val {
	if len(e.Args) != 5 {
		stuck("ForSlice with %d arguments", len(e.Args))
	}
	s := in.eval(e.Args[3], env)
	t := in.asTy(in.eval(e.Args[0], env), "ForSlice")
	k, v := binderName(e.Args[1]), binderName(e.Args[2])
	ptr, n, _ := sliceParts(s, "ForSlice")
	for i := uint64(0); i < n; i++ {
		in.tick()
		x := in.loadTy(t, offsetLoc(ptr, t, i, "ForSlice"))
		benv := env.bind(k, VInt{64, i}).bind(v, x)
		in.eval(e.Args[4], benv)
	}
	return VUnit{}
}

func sliceParts(s Val, ctx string) (ptr VLoc, n, c uint64) {
	p1, ok := s.(VPair)
	if ok {
		if p2, ok2 := p1.A.(VPair); ok2 {
			l, lok := p2.A.(VLoc)
			ln, nok := p2.B.(VInt)
			cp, cok := p1.B.(VInt)
			if lok && nok && cok && ln.W == 64 && cp.W == 64 {
				return l, ln.N, cp.N
			}
		}
	}
	stuck("%s: not a slice value: %s", ctx, Show(s))
	return
}

func mkSlice(p VLoc, n, c uint64) Val { return VPair{VPair{p, VInt{64, n}}, VInt{64, c}} }

func offsetLoc(p VLoc, t *Ty, i uint64, ctx string) VLoc {
	if p.B == nil {
		if i == 0 {
			return p
		}
		stuck("%s: pointer arithmetic on #null", ctx)
	}
	return VLoc{p.B, p.Off + int(i)*t.Size()}
}

func mask(w int, n uint64) uint64 {
	switch w {
	case 32:
		return n & 0xffffffff
	case 8:
		return n & 0xff
	}
	return n
}

func comparable(v Val) bool {
	switch v := v.(type) {
	case VInt, VBool, VStr, VUnit, VLoc:
		return true
	case VPair:
		return comparable(v.A) && comparable(v.B)
	}
	return false
}

func valEq(a, b Val) bool {
	switch a := a.(type) {
	case VPair:
		bp, ok := b.(VPair)
		return ok && valEq(a.A, bp.A) && valEq(a.B, bp.B)
	case VLoc:
		bl, ok := b.(VLoc)
		return ok && a.B == bl.B && (a.B == nil || a.Off == bl.Off)
	}
	return a == b
}

func binop(op string, l, r Val) Val {
	switch op {
	case "=", "≠":
		if !comparable(l) || !comparable(r) {
			stuck("%s on non-comparable values %s, %s", op, Show(l), Show(r))
		}
		eq := valEq(l, r)
		if op == "≠" {
			return VBool(!eq)
		}
		return VBool(eq)
	case "+":
		if ls, ok := l.(VStr); ok {
			if rs, ok := r.(VStr); ok {
				return ls + rs
			}
		}
	}
	li, lok := l.(VInt)
	ri, rok := r.(VInt)
	if !lok || !rok {
		stuck("binop(%s):%s,%s", op, kindOf(l), kindOf(r))
	}
	if li.W != ri.W {
		stuck("binop(%s):u%d,u%d (operands of different widths)", op, li.W, ri.W)
	}
	w := li.W
	a, b := li.N, ri.N
	switch op {
	case "+":
		return VInt{w, mask(w, a+b)}
	case "-":
		return VInt{w, mask(w, a-b)}
	case "*":
		return VInt{w, mask(w, a*b)}
	case "quot":
		if b == 0 {
			return VInt{w, 0}
		}
		return VInt{w, a / b}
	case "rem":
		if b == 0 {
			return VInt{w, a}
		}
		return VInt{w, a % b}
	case "and":
		return VInt{w, a & b}
	case "or":
		return VInt{w, a | b}
	case "xor":
		return VInt{w, a ^ b}
	case "≪":
		if b >= uint64(w) {
			return VInt{w, 0}
		}
		return VInt{w, mask(w, a<<b)}
	case "≫":
		if b >= uint64(w) {
			return VInt{w, 0}
		}
		return VInt{w, a >> b}
	case "<":
		return VBool(a < b)
	case ">":
		return VBool(a > b)
	case "≤":
		return VBool(a <= b)
	case "≥":
		return VBool(a >= b)
	}
	stuck("unknown operator %s", op)
	return nil
}

func describeErr(err error) string {
	if err == nil {
		return ""
	}
	s := err.Error()
	if i := strings.IndexByte(s, '\n'); i > 0 {
		s = s[:i]
	}
	return s
}

// ---------------------------------------------------------------- threads

func (in *Interp) fork(body Expr, env *Env) {
	run := func() {
		defer func() {
			if r := recover(); r != nil {
				switch r := r.(type) {
				case *Stuck:
					in.ThreadFails = append(in.ThreadFails, r.Error())
				case *Diverged:
					in.ThreadFails = append(in.ThreadFails, r.Error())
				default:
					panic(r)
				}
			}
		}()
		in.eval(body, env)
	}
	if csched.S != nil {
		csched.Go(run)
		return
	}
	// sequential mode: a forked thread runs to completion immediately (used only outside explorations)
	run()
}
