// Package gl: a reader for the Coq/GooseLang notation goose emits (lexer that
// follows Coq's rules, precedence parser for the GooseLang notations) and a
// reference interpreter of GooseLang.
package gl

import (
	"fmt"
	"strings"
	"unicode"
	"unicode/utf8"
)

type TokKind int

const (
	TEOF         TokKind = iota
	TIdent               // possibly qualified: struct.mk, slice.T, Γ
	TString              // "..." (content, with "" unescaped)
	TNum                 // 123
	TPunct               // ( ) [ ] , ; ;; := :: ::= <> -> % # ! ~ . + - * = < > etc, keywords let: if: ...
	TSentenceEnd         // '.' followed by blank or EOF
)

type Token struct {
	Kind TokKind
	Text string
	Pos  int // byte offset
	Line int
}

func (t Token) String() string { return fmt.Sprintf("%q@%d", t.Text, t.Line) }

type LexError struct {
	Kind string // unterminated-comment, unterminated-string, unbalanced-close-comment, bad-char
	Line int
	Msg  string
}

func (e *LexError) Error() string { return fmt.Sprintf("lex:%s line %d: %s", e.Kind, e.Line, e.Msg) }

// keywords that end with ':' and are lexed as one token
var colonKeywords = []string{"let:", "if:", "for:", "rec:", "λ:"}

func isIdentStart(r rune) bool {
	return r == '_' || unicode.IsLetter(r)
}
func isIdentPart(r rune) bool {
	return r == '_' || r == '\'' || unicode.IsLetter(r) || unicode.IsDigit(r)
}

// Lex tokenises src under Coq's lexical rules: nested comments; string
// literals are recognised inside comments too (so an odd number of double
// quotes inside a comment swallows the rest of the file); "" is the only
// escape inside strings.
func Lex(src string) ([]Token, error) {
	var toks []Token
	i, line := 0, 1
	n := len(src)
	for i < n {
		c := src[i]
		switch {
		case c == '\n':
			line++
			i++
		case c == ' ' || c == '\t' || c == '\r':
			i++
		case c == '(' && i+1 < n && src[i+1] == '*':
			// comment
			depth := 1
			startLine := line
			i += 2
			for depth > 0 {
				if i >= n {
					return toks, &LexError{"unterminated-comment", startLine, "comment opened here is never closed"}
				}
				switch {
				case src[i] == '\n':
					line++
					i++
				case src[i] == '(' && i+1 < n && src[i+1] == '*':
					depth++
					i += 2
				case src[i] == '*' && i+1 < n && src[i+1] == ')':
					depth--
					i += 2
				case src[i] == '"':
					// string inside comment
					sl := line
					i++
					for {
						if i >= n {
							return toks, &LexError{"unterminated-string-in-comment", sl, "a double quote inside a comment opens a string that is never closed"}
						}
						if src[i] == '\n' {
							line++
						}
						if src[i] == '"' {
							if i+1 < n && src[i+1] == '"' {
								i += 2
								continue
							}
							i++
							break
						}
						i++
					}
				default:
					i++
				}
			}
		case c == '*' && i+1 < n && src[i+1] == ')':
			return toks, &LexError{"unbalanced-close-comment", line, "'*)' outside a comment"}
		case c == '"':
			sl := line
			start := i
			i++
			var sb strings.Builder
			for {
				if i >= n {
					return toks, &LexError{"unterminated-string", sl, "string literal never closed"}
				}
				if src[i] == '\n' {
					line++
				}
				if src[i] == '"' {
					if i+1 < n && src[i+1] == '"' {
						sb.WriteByte('"')
						i += 2
						continue
					}
					i++
					break
				}
				sb.WriteByte(src[i])
				i++
			}
			toks = append(toks, Token{TString, sb.String(), start, sl})
		case c >= '0' && c <= '9':
			start := i
			for i < n && src[i] >= '0' && src[i] <= '9' {
				i++
			}
			toks = append(toks, Token{TNum, src[start:i], start, line})
		default:
			r, sz := utf8.DecodeRuneInString(src[i:])
			// colon keywords
			matched := false
			for _, kw := range colonKeywords {
				if strings.HasPrefix(src[i:], kw) {
					toks = append(toks, Token{TPunct, kw, i, line})
					i += len(kw)
					matched = true
					break
				}
			}
			if matched {
				continue
			}
			if isIdentStart(r) {
				start := i
				for {
					for i < n {
						r2, s2 := utf8.DecodeRuneInString(src[i:])
						if !isIdentPart(r2) {
							break
						}
						i += s2
					}
					// qualified name: '.' immediately followed by identifier start
					if i+1 < n && src[i] == '.' {
						r3, _ := utf8.DecodeRuneInString(src[i+1:])
						if isIdentStart(r3) {
							i++
							continue
						}
					}
					break
				}
				toks = append(toks, Token{TIdent, src[start:i], start, line})
				continue
			}
			if c == '.' {
				// sentence end if followed by blank or EOF
				if i+1 >= n || src[i+1] == ' ' || src[i+1] == '\n' || src[i+1] == '\t' || src[i+1] == '\r' {
					toks = append(toks, Token{TSentenceEnd, ".", i, line})
				} else {
					toks = append(toks, Token{TPunct, ".", i, line})
				}
				i++
				continue
			}
			// multi-char punctuation
			for _, p := range []string{"::=", "<-[", "![", ";;", ":=", "::", "<>", "->", "&&", "||", "=>", "⊢"} {
				if strings.HasPrefix(src[i:], p) {
					toks = append(toks, Token{TPunct, p, i, line})
					i += len(p)
					matched = true
					break
				}
			}
			if matched {
				continue
			}
			if c == '`' {
				// backquoted infix: `quot`
				j := strings.IndexByte(src[i+1:], '`')
				if j >= 0 && !strings.ContainsAny(src[i+1:i+1+j], " \n") {
					toks = append(toks, Token{TPunct, src[i : i+j+2], i, line})
					i += j + 2
					continue
				}
				// the Context `{...} form
				toks = append(toks, Token{TPunct, "`", i, line})
				i++
				continue
			}
			toks = append(toks, Token{TPunct, string(r), i, line})
			i += sz
		}
	}
	toks = append(toks, Token{TEOF, "", n, line})
	return toks, nil
}
