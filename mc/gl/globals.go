package gl

import "sort"

// FreeGlobals lists the global identifiers (names of other definitions, library
// functions) an expression mentions.
func FreeGlobals(e Expr) []string {
	m := map[string]bool{}
	globalsOf(e, m)
	var out []string
	for n := range m {
		out = append(out, n)
	}
	sort.Strings(out)
	return out
}

func globalsOf(e Expr, out map[string]bool) {
	switch e := e.(type) {
	case *Global:
		out[e.Name] = true
	case *App:
		globalsOf(e.Fn, out)
		for _, a := range e.Args {
			globalsOf(a, out)
		}
	case *BinOp:
		globalsOf(e.L, out)
		globalsOf(e.R, out)
	case *Not:
		globalsOf(e.X, out)
	case *Let:
		globalsOf(e.E, out)
		globalsOf(e.Body, out)
	case *Seq:
		globalsOf(e.A, out)
		globalsOf(e.B, out)
	case *If:
		globalsOf(e.C, out)
		globalsOf(e.T, out)
		globalsOf(e.E, out)
	case *Lam:
		globalsOf(e.Body, out)
	case *Rec:
		globalsOf(e.Body, out)
	case *For:
		globalsOf(e.Cond, out)
		globalsOf(e.Post, out)
		globalsOf(e.Body, out)
	case *Load:
		globalsOf(e.Ty, out)
		globalsOf(e.E, out)
	case *Store:
		globalsOf(e.Ty, out)
		globalsOf(e.Dst, out)
		globalsOf(e.E, out)
	case *Tuple:
		for _, x := range e.Es {
			globalsOf(x, out)
		}
	case *StructLit:
		globalsOf(e.Desc, out)
		for _, f := range e.Fields {
			globalsOf(f.E, out)
		}
	case *Decl:
		for _, f := range e.Fields {
			globalsOf(f.Ty, out)
		}
	case *Arrow:
		for _, t := range e.Ts {
			globalsOf(t, out)
		}
	}
}
