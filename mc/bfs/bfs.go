// Package bfs is an explicit-state breadth-first search over real objects.
// A state is identified by the event history reaching it; a successor is
// "replay the shortest path on fresh real instances, then one more operation".
// The canonical key returned by apply is the reference model's state.
package bfs

import "time"

type Result struct {
	Key     string // canonical state key after the path
	Skip    bool   // last operation not enabled in the state before it
	Err     error  // oracle violation at the last operation
	Outcome string // optional label of the last operation's result (for non-vacuity statistics)
}

type Stats struct {
	States      int64
	Transitions int64
	MaxDepth    int
	Fixpoint    bool // search ended because no new state was found below the cap
	Capped      string
	Outcomes    map[string]bool
}

type Failure struct {
	Path []int
	Err  error
}

// Search explores from the empty history. nOps is the alphabet size; apply
// replays a whole path. maxDepth bounds path length; maxFailures bounds how many
// distinct failing transitions are collected (search continues past failures
// without expanding the failing state).
func Search(nOps, maxDepth int, deadline time.Time, maxFailures int, apply func(path []int) Result) (Stats, []Failure) {
	st := Stats{Outcomes: map[string]bool{}}
	var fails []Failure
	r0 := apply(nil)
	if r0.Err != nil {
		return st, []Failure{{nil, r0.Err}}
	}
	seen := map[string]bool{r0.Key: true}
	st.States = 1
	frontier := [][]int{nil}
	for depth := 0; len(frontier) > 0; depth++ {
		if depth >= maxDepth {
			st.Capped = "depth cap"
			return st, fails
		}
		var next [][]int
		for _, p := range frontier {
			if !deadline.IsZero() && time.Now().After(deadline) {
				st.Capped = "internal deadline"
				return st, fails
			}
			for op := 0; op < nOps; op++ {
				np := make([]int, len(p)+1)
				copy(np, p)
				np[len(p)] = op
				r := apply(np)
				if r.Skip {
					continue
				}
				st.Transitions++
				if r.Outcome != "" {
					st.Outcomes[r.Outcome] = true
				}
				if r.Err != nil {
					if len(fails) < maxFailures {
						fails = append(fails, Failure{np, r.Err})
					}
					continue
				}
				if !seen[r.Key] {
					seen[r.Key] = true
					st.States++
					next = append(next, np)
					if len(np) > st.MaxDepth {
						st.MaxDepth = len(np)
					}
				}
			}
		}
		frontier = next
	}
	st.Fixpoint = true
	return st, fails
}
