package bfs

import (
	"bufio"
	"encoding/json"
	"errors"
	"fmt"
	"io"
	"os"
	"os/exec"
	"strconv"
	"strings"
	"sync"
	"time"
)

// wire format of one transition result
type wire struct {
	K string `json:"k,omitempty"`
	S bool   `json:"s,omitempty"`
	E string `json:"e,omitempty"`
	O string `json:"o,omitempty"`
}

// Serve is the worker side: for every request line (a path) it answers with
// the results of path+op for every op of the alphabet.  An empty path line
// "-" asks for the initial state only.
func Serve(nOps int, apply func(path []int) Result) {
	in := bufio.NewReaderSize(os.Stdin, 1<<20)
	out := bufio.NewWriterSize(os.Stdout, 1<<20)
	for {
		line, err := in.ReadString('\n')
		if err != nil {
			return
		}
		line = strings.TrimSpace(line)
		var path []int
		initOnly := false
		if line == "-" {
			initOnly = true
		} else if line != "" {
			for _, f := range strings.Fields(line) {
				n, _ := strconv.Atoi(f)
				path = append(path, n)
			}
		}
		var res []wire
		if initOnly {
			r := apply(nil)
			res = append(res, toWire(r))
		} else {
			np := make([]int, len(path)+1)
			copy(np, path)
			for op := 0; op < nOps; op++ {
				np[len(path)] = op
				res = append(res, toWire(apply(np)))
			}
		}
		b, _ := json.Marshal(res)
		out.Write(b)
		out.WriteByte('\n')
		out.Flush()
	}
}

func toWire(r Result) wire {
	w := wire{K: r.Key, S: r.Skip, O: r.Outcome}
	if r.Err != nil {
		w.E = r.Err.Error()
	}
	return w
}

type worker struct {
	cmd *exec.Cmd
	in  io.WriteCloser
	out *bufio.Reader
}

func (w *worker) ask(line string) ([]wire, error) {
	if _, err := io.WriteString(w.in, line+"\n"); err != nil {
		return nil, err
	}
	resp, err := w.out.ReadBytes('\n')
	if err != nil {
		return nil, fmt.Errorf("worker died: %v", err)
	}
	var res []wire
	if err := json.Unmarshal(resp, &res); err != nil {
		return nil, err
	}
	return res, nil
}

// SearchParallel is Search with the apply function evaluated by nWorkers
// subprocesses (the current binary re-executed with workerArgs; they must call
// Serve).  Dedup and failure collection are done level by level in frontier
// order, so the result is deterministic.
func SearchParallel(nWorkers, nOps, maxDepth int, deadline time.Time, maxFailures int, workerArgs []string, env []string) (Stats, []Failure, error) {
	st := Stats{Outcomes: map[string]bool{}}
	var fails []Failure
	var ws []*worker
	defer func() {
		for _, w := range ws {
			w.in.Close()
			w.cmd.Wait()
		}
	}()
	for i := 0; i < nWorkers; i++ {
		cmd := exec.Command(os.Args[0], workerArgs...)
		cmd.Env = append(os.Environ(), env...)
		cmd.Env = append(cmd.Env, "GOMAXPROCS=1")
		cmd.Stderr = os.Stderr
		in, _ := cmd.StdinPipe()
		out, _ := cmd.StdoutPipe()
		if err := cmd.Start(); err != nil {
			return st, nil, err
		}
		ws = append(ws, &worker{cmd, in, bufio.NewReaderSize(out, 1<<20)})
	}
	r0, err := ws[0].ask("-")
	if err != nil {
		return st, nil, err
	}
	if r0[0].E != "" {
		return st, []Failure{{nil, errors.New(r0[0].E)}}, nil
	}
	seen := map[string]bool{r0[0].K: true}
	st.States = 1
	frontier := [][]int{nil}
	for depth := 0; len(frontier) > 0; depth++ {
		if depth >= maxDepth {
			st.Capped = "depth cap"
			return st, fails, nil
		}
		results := make([][]wire, len(frontier))
		var wg sync.WaitGroup
		var mu sync.Mutex
		var firstErr error
		next := 0
		timedOut := false
		for _, w := range ws {
			wg.Add(1)
			go func(w *worker) {
				defer wg.Done()
				for {
					mu.Lock()
					i := next
					next++
					if !deadline.IsZero() && time.Now().After(deadline) {
						timedOut = true
					}
					stop := timedOut || firstErr != nil
					mu.Unlock()
					if i >= len(frontier) || stop {
						return
					}
					var sb strings.Builder
					for j, x := range frontier[i] {
						if j > 0 {
							sb.WriteByte(' ')
						}
						sb.WriteString(strconv.Itoa(x))
					}
					res, err := w.ask(sb.String())
					if err != nil {
						mu.Lock()
						if firstErr == nil {
							firstErr = err
						}
						mu.Unlock()
						return
					}
					results[i] = res
				}
			}(w)
		}
		wg.Wait()
		if firstErr != nil {
			return st, fails, firstErr
		}
		if timedOut {
			st.Capped = "internal deadline"
			return st, fails, nil
		}
		var nextF [][]int
		for i, p := range frontier {
			for op, r := range results[i] {
				if r.S {
					continue
				}
				st.Transitions++
				if r.O != "" {
					st.Outcomes[r.O] = true
				}
				np := make([]int, len(p)+1)
				copy(np, p)
				np[len(p)] = op
				if r.E != "" {
					if len(fails) < maxFailures {
						fails = append(fails, Failure{np, errors.New(r.E)})
					}
					continue
				}
				if !seen[r.K] {
					seen[r.K] = true
					st.States++
					nextF = append(nextF, np)
					if len(np) > st.MaxDepth {
						st.MaxDepth = len(np)
					}
				}
			}
		}
		frontier = nextF
	}
	st.Fixpoint = true
	return st, fails, nil
}
