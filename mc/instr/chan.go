package instr

import (
	"go/ast"
	"go/token"

	"golang.org/x/tools/go/ast/astutil"
)

// rewriteChans rewrites the channel forms used by WaitTimeout-style code:
//
//	make(chan T)        -> csched.MakeChan[T](0)
//	make(chan T, n)     -> csched.MakeChan[T](n)
//	close(c)            -> csched.CloseChan(c)
//	<-c                 -> csched.Recv(c)
//	c <- v              -> csched.Send(c, v)
//	select { case <-a: A; case <-b: B }  -> switch csched.Select(a, b) { case 0: A; case 1: B }
//	chan T (type)       -> *csched.Chan[T]
//
// Any other channel form (select with send / assignment cases, range over a
// channel) is left alone and will fail to compile, which the driver reports as
// "undecided: instrumentation".
func rewriteChans(f *ast.File) bool {
	changed := false
	astutil.Apply(f, func(c *astutil.Cursor) bool {
		switch n := c.Node().(type) {
		case *ast.SelectStmt:
			var args []ast.Expr
			var clauses []ast.Stmt
			ok := true
			for i, cl := range n.Body.List {
				cc := cl.(*ast.CommClause)
				if cc.Comm == nil { // default
					ok = false
					break
				}
				es, isExpr := cc.Comm.(*ast.ExprStmt)
				if !isExpr {
					ok = false
					break
				}
				ue, isRecv := es.X.(*ast.UnaryExpr)
				if !isRecv || ue.Op != token.ARROW {
					ok = false
					break
				}
				args = append(args, ue.X)
				clauses = append(clauses, &ast.CaseClause{
					List: []ast.Expr{&ast.BasicLit{Kind: token.INT, Value: itoa(i)}},
					Body: cc.Body,
				})
			}
			if ok {
				changed = true
				c.Replace(&ast.SwitchStmt{
					Tag:  &ast.CallExpr{Fun: sel("csched", "Select"), Args: args},
					Body: &ast.BlockStmt{List: clauses},
				})
			}
		}
		return true
	}, func(c *astutil.Cursor) bool {
		switch n := c.Node().(type) {
		case *ast.CallExpr:
			if id, ok := n.Fun.(*ast.Ident); ok {
				if id.Name == "make" && len(n.Args) >= 1 {
					if ct, ok := n.Args[0].(*ast.StarExpr); ok && isChanT(ct) {
						// already rewritten type: *csched.Chan[T]
						elem := ct.X.(*ast.IndexExpr).Index
						size := ast.Expr(&ast.BasicLit{Kind: token.INT, Value: "0"})
						if len(n.Args) > 1 {
							size = n.Args[1]
						}
						changed = true
						c.Replace(&ast.CallExpr{
							Fun:  &ast.IndexExpr{X: sel("csched", "MakeChan"), Index: elem},
							Args: []ast.Expr{size},
						})
					}
				}
				if id.Name == "close" && len(n.Args) == 1 {
					changed = true
					n.Fun = sel("csched", "CloseChan")
				}
			}
		case *ast.ChanType:
			changed = true
			c.Replace(&ast.StarExpr{X: &ast.IndexExpr{X: sel("csched", "Chan"), Index: n.Value}})
		case *ast.UnaryExpr:
			if n.Op == token.ARROW {
				changed = true
				c.Replace(&ast.CallExpr{Fun: sel("csched", "Recv"), Args: []ast.Expr{n.X}})
			}
		case *ast.SendStmt:
			changed = true
			c.Replace(&ast.ExprStmt{X: &ast.CallExpr{Fun: sel("csched", "Send"), Args: []ast.Expr{n.Chan, n.Value}}})
		}
		return true
	})
	return changed
}

func isChanT(s *ast.StarExpr) bool {
	ix, ok := s.X.(*ast.IndexExpr)
	if !ok {
		return false
	}
	se, ok := ix.X.(*ast.SelectorExpr)
	return ok && se.Sel.Name == "Chan"
}

func itoa(i int) string {
	return string(rune('0' + i))
}
