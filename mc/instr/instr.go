// Package instr rewrites source files of the code under test (from the current
// working tree) into instrumented copies used through `go build -overlay`.
package instr

import (
	"bytes"
	"encoding/json"
	"fmt"
	"go/ast"
	"go/parser"
	"go/printer"
	"go/token"
	"os"
	"path/filepath"
	"strconv"
	"strings"

	"golang.org/x/tools/go/ast/astutil"
)

type Opts struct {
	Sync, Time, Unix, Yield, Copy, Go, Chan bool
	YieldLoops                              bool // preemption points only at function entries and loop heads
	Load                                    bool // packages.Load -> verifload.Load (memoised loading)
	MapRange                                bool // range over a map -> range over csched.MapOrder (iteration order chosen by the explorer)
}

func ParseOpts(s string) (Opts, error) {
	var o Opts
	for _, f := range strings.Split(s, ",") {
		switch f {
		case "sync":
			o.Sync = true
		case "time":
			o.Time = true
		case "unix":
			o.Unix = true
		case "yield":
			o.Yield = true
		case "copy":
			o.Copy = true
		case "go":
			o.Go = true
		case "chan":
			o.Chan = true
		case "yieldloops":
			o.YieldLoops = true
		case "load":
			o.Load = true
		case "maprange":
			o.MapRange = true
		case "":
		default:
			return o, fmt.Errorf("unknown instr option %q", f)
		}
	}
	return o, nil
}

const (
	cschedPath = "verif/csched"
	syncPath   = "verif/csched/syncshim"
	timePath   = "verif/csched/timeshim"
	unixPath   = "verif/simunix"
)

// File rewrites one file and returns the new source.
func File(path string, o Opts) ([]byte, error) {
	fset := token.NewFileSet()
	f, err := parser.ParseFile(fset, path, nil, parser.ParseComments)
	if err != nil {
		return nil, err
	}
	base := filepath.Base(path)
	rewriteImport := func(from, to, name string) {
		for _, im := range f.Imports {
			p, _ := strconv.Unquote(im.Path.Value)
			if p == from {
				im.Path.Value = strconv.Quote(to)
				if im.Name == nil {
					im.Name = ast.NewIdent(name)
				}
			}
		}
	}
	if o.Sync {
		rewriteImport("sync", syncPath, "sync")
	}
	if o.Time {
		rewriteImport("time", timePath, "time")
	}
	if o.Unix {
		rewriteImport("golang.org/x/sys/unix", unixPath, "unix")
	}
	needCsched := false
	site := func(p token.Pos) string {
		return fmt.Sprintf("%s:%d", base, fset.Position(p).Line)
	}
	if o.Chan {
		if rewriteChans(f) {
			needCsched = true
		}
	}
	if o.MapRange {
		n, err := rewriteMapRanges(fset, f, path)
		if err != nil {
			return nil, err
		}
		if n > 0 {
			needCsched = true
		}
	}
	if o.Go || o.Copy {
		astutil.Apply(f, func(c *astutil.Cursor) bool {
			switch n := c.Node().(type) {
			case *ast.GoStmt:
				if o.Go {
					needCsched = true
					c.Replace(&ast.ExprStmt{X: &ast.CallExpr{
						Fun: sel("csched", "Go"),
						Args: []ast.Expr{&ast.FuncLit{
							Type: &ast.FuncType{Params: &ast.FieldList{}},
							Body: &ast.BlockStmt{List: []ast.Stmt{&ast.ExprStmt{X: n.Call}}},
						}},
					}})
				}
			case *ast.CallExpr:
				if o.Copy {
					if id, ok := n.Fun.(*ast.Ident); ok && id.Name == "copy" && len(n.Args) == 2 {
						needCsched = true
						n.Fun = &ast.SelectorExpr{X: &ast.Ident{Name: "csched", NamePos: id.Pos()}, Sel: ast.NewIdent("Copy")}
					}
				}
			}
			return true
		}, nil)
	}
	if o.Yield {
		ast.Inspect(f, func(n ast.Node) bool {
			switch b := n.(type) {
			case *ast.BlockStmt:
				if len(b.List) > 0 {
					switch b.List[0].(type) {
					case *ast.CaseClause, *ast.CommClause:
						return true // body of a switch/select: clauses, not statements
					}
				}
				b.List = withYields(b.List, site)
				needCsched = needCsched || len(b.List) > 0
			case *ast.CaseClause:
				b.Body = withYields(b.Body, site)
			case *ast.CommClause:
				b.Body = withYields(b.Body, site)
			}
			return true
		})
	}
	if o.YieldLoops {
		y := func(pos token.Pos) ast.Stmt {
			return &ast.ExprStmt{X: &ast.CallExpr{Fun: sel("csched", "Yield"), Args: []ast.Expr{&ast.BasicLit{Kind: token.STRING, Value: strconv.Quote(site(pos))}}}}
		}
		ast.Inspect(f, func(n ast.Node) bool {
			switch b := n.(type) {
			case *ast.FuncDecl:
				if b.Body != nil {
					b.Body.List = append([]ast.Stmt{y(b.Pos())}, b.Body.List...)
					needCsched = true
				}
			case *ast.FuncLit:
				b.Body.List = append([]ast.Stmt{y(b.Pos())}, b.Body.List...)
				needCsched = true
			case *ast.ForStmt:
				b.Body.List = append([]ast.Stmt{y(b.Pos())}, b.Body.List...)
				needCsched = true
			case *ast.RangeStmt:
				b.Body.List = append([]ast.Stmt{y(b.Pos())}, b.Body.List...)
				needCsched = true
			}
			return true
		})
	}
	if o.Load {
		changed := false
		ast.Inspect(f, func(n ast.Node) bool {
			if c, ok := n.(*ast.CallExpr); ok {
				if se, ok := c.Fun.(*ast.SelectorExpr); ok {
					if id, ok := se.X.(*ast.Ident); ok && id.Name == "packages" && se.Sel.Name == "Load" {
						c.Fun = sel("verifload", "Load")
						changed = true
					}
				}
			}
			return true
		})
		if changed {
			astutil.AddNamedImport(fset, f, "verifload", "verif/verifload")
		}
	}
	if needCsched {
		astutil.AddNamedImport(fset, f, "csched", cschedPath)
	}
	var buf bytes.Buffer
	if err := (&printer.Config{Mode: printer.UseSpaces | printer.TabIndent, Tabwidth: 8}).Fprint(&buf, fset, f); err != nil {
		return nil, err
	}
	return buf.Bytes(), nil
}

func sel(x, s string) ast.Expr { return &ast.SelectorExpr{X: ast.NewIdent(x), Sel: ast.NewIdent(s)} }

func withYields(list []ast.Stmt, site func(token.Pos) string) []ast.Stmt {
	var out []ast.Stmt
	for _, s := range list {
		if _, isDecl := s.(*ast.DeclStmt); !isDecl {
			out = append(out, &ast.ExprStmt{X: &ast.CallExpr{
				Fun:  sel("csched", "Yield"),
				Args: []ast.Expr{&ast.BasicLit{Kind: token.STRING, Value: strconv.Quote(site(s.Pos()))}},
			}})
		}
		out = append(out, s)
	}
	return out
}

// Overlay accumulates replacements.
type Overlay struct {
	Replace map[string]string
	Dir     string
	n       int
}

func NewOverlay(dir string) *Overlay {
	return &Overlay{Replace: map[string]string{}, Dir: dir}
}

func (ov *Overlay) AddRewritten(path string, o Opts) error {
	src, err := File(path, o)
	if err != nil {
		return err
	}
	return ov.AddContent(path, src)
}

func (ov *Overlay) AddContent(path string, src []byte) error {
	ov.n++
	dst := filepath.Join(ov.Dir, fmt.Sprintf("%03d_%s", ov.n, filepath.Base(path)))
	if err := os.WriteFile(dst, src, 0644); err != nil {
		return err
	}
	ov.Replace[path] = dst
	return nil
}

func (ov *Overlay) Write(path string) error {
	b, _ := json.MarshalIndent(struct{ Replace map[string]string }{ov.Replace}, "", " ")
	return os.WriteFile(path, b, 0644)
}
