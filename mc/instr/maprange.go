package instr

import (
	"fmt"
	"go/ast"
	"go/token"
	"go/types"
	"path/filepath"

	"golang.org/x/tools/go/ast/astutil"
	"golang.org/x/tools/go/packages"
)

// map-typed range statements of a directory's package, by "file:line:col" of the statement
var mapRangeCache = map[string]map[string]bool{}

func mapRangeSites(dir string) (map[string]bool, error) {
	if m, ok := mapRangeCache[dir]; ok {
		return m, nil
	}
	cfg := &packages.Config{Mode: packages.NeedName | packages.NeedFiles | packages.NeedSyntax | packages.NeedTypes | packages.NeedTypesInfo | packages.NeedImports | packages.NeedDeps, Dir: dir}
	pkgs, err := packages.Load(cfg, ".")
	if err != nil {
		return nil, err
	}
	sites := map[string]bool{}
	for _, p := range pkgs {
		if len(p.Errors) > 0 {
			return nil, fmt.Errorf("maprange: loading %s: %v", dir, p.Errors[0])
		}
		for _, f := range p.Syntax {
			ast.Inspect(f, func(n ast.Node) bool {
				if r, ok := n.(*ast.RangeStmt); ok {
					if t := p.TypesInfo.TypeOf(r.X); t != nil {
						if _, isMap := t.Underlying().(*types.Map); isMap {
							pos := p.Fset.Position(r.Pos())
							sites[fmt.Sprintf("%s:%d:%d", filepath.Base(pos.Filename), pos.Line, pos.Column)] = true
						}
					}
				}
				return true
			})
		}
	}
	mapRangeCache[dir] = sites
	return sites, nil
}

// rewriteMapRanges turns every range over a map into a range over the keys in an
// order the explorer chooses (csched.MapOrder): Go leaves the iteration order
// unspecified, so every order is a behaviour of the program.
func rewriteMapRanges(fset *token.FileSet, f *ast.File, path string) (int, error) {
	sites, err := mapRangeSites(filepath.Dir(path))
	if err != nil {
		return 0, err
	}
	labeled := map[ast.Stmt]bool{}
	ast.Inspect(f, func(n ast.Node) bool {
		if l, ok := n.(*ast.LabeledStmt); ok {
			labeled[l.Stmt] = true
		}
		return true
	})
	count := 0
	isBlank := func(e ast.Expr) bool {
		if e == nil {
			return true
		}
		id, ok := e.(*ast.Ident)
		return ok && id.Name == "_"
	}
	astutil.Apply(f, nil, func(c *astutil.Cursor) bool {
		r, ok := c.Node().(*ast.RangeStmt)
		if !ok || labeled[r] {
			return true
		}
		pos := fset.Position(r.Pos())
		if !sites[fmt.Sprintf("%s:%d:%d", filepath.Base(pos.Filename), pos.Line, pos.Column)] {
			return true
		}
		count++
		suffix := fmt.Sprintf("_%d_%d", pos.Line, pos.Column)
		m, k, v, okv := ast.NewIdent("verifM"+suffix), ast.NewIdent("verifK"+suffix), ast.NewIdent("verifV"+suffix), ast.NewIdent("verifOK"+suffix)
		var pre []ast.Stmt
		valLHS := ast.Expr(ast.NewIdent("_"))
		if !isBlank(r.Value) {
			valLHS = v
		}
		// v, ok := m[k]; if !ok { continue }   (an entry deleted during the iteration is not visited)
		pre = append(pre,
			&ast.AssignStmt{Lhs: []ast.Expr{valLHS, okv}, Tok: token.DEFINE, Rhs: []ast.Expr{&ast.IndexExpr{X: m, Index: k}}},
			&ast.IfStmt{Cond: &ast.UnaryExpr{Op: token.NOT, X: okv}, Body: &ast.BlockStmt{List: []ast.Stmt{&ast.BranchStmt{Tok: token.CONTINUE}}}})
		var lhs, rhs []ast.Expr
		if !isBlank(r.Key) {
			lhs, rhs = append(lhs, r.Key), append(rhs, k)
		}
		if !isBlank(r.Value) {
			lhs, rhs = append(lhs, r.Value), append(rhs, v)
		}
		if len(lhs) > 0 {
			tok := r.Tok
			if tok != token.DEFINE && tok != token.ASSIGN {
				tok = token.DEFINE
			}
			pre = append(pre, &ast.AssignStmt{Lhs: lhs, Tok: tok, Rhs: rhs})
		}
		loop := &ast.RangeStmt{
			Key: ast.NewIdent("_"), Value: k, Tok: token.DEFINE,
			X:    &ast.CallExpr{Fun: sel("csched", "MapOrder"), Args: []ast.Expr{m}},
			Body: &ast.BlockStmt{List: append(pre, r.Body.List...)},
		}
		c.Replace(&ast.BlockStmt{List: []ast.Stmt{
			&ast.AssignStmt{Lhs: []ast.Expr{m}, Tok: token.DEFINE, Rhs: []ast.Expr{r.X}},
			loop,
		}})
		return true
	})
	return count, nil
}
