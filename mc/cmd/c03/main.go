// c03: concurrent programs: Go outcomes are GooseLang outcomes, over all schedules.
// Both sides are explored exhaustively at synchronisation points by the same
// engine (csched): the generated Go program with sync -> syncshim and go ->
// csched.Go, and goose's output on the reference interpreter whose lock / cond /
// wait-group / Fork steps are csched operations.
package main

import (
	"bufio"
	"bytes"
	"encoding/json"
	"flag"
	"fmt"
	"os"
	"os/exec"
	"path/filepath"
	"sort"
	"strings"
	"sync"
	"time"

	"verif/csched"
	"verif/ev"
	"verif/gl"
	"verif/instr"
	"verif/progenum"
)

type sideResult struct {
	Name     string   `json:"name"`
	Outcomes []string `json:"outcomes"`
	Execs    int64    `json:"execs"`
	Capped   string   `json:"capped"`
}

const runnerMain = `package main

import (
	"encoding/json"
	"fmt"
	"os"
	"sort"
	"time"

	"genmod/pshim"
	"verif/csched"
)

type sideResult struct {
	Name     string   ` + "`json:\"name\"`" + `
	Outcomes []string ` + "`json:\"outcomes\"`" + `
	Execs    int64    ` + "`json:\"execs\"`" + `
	Capped   string   ` + "`json:\"capped\"`" + `
}

func main() {
	var shard, n, bound int
	fmt.Sscanf(os.Args[1], "%d/%d", &shard, &n)
	fmt.Sscanf(os.Args[2], "%d", &bound)
	names := make([]string, 0, len(pshim.Funcs))
	for k := range pshim.Funcs {
		names = append(names, k)
	}
	sort.Strings(names)
	enc := json.NewEncoder(os.Stdout)
	deadline := time.Now().Add(20 * time.Minute)
	for i, name := range names {
		if i%n != shard {
			continue
		}
		f := pshim.Funcs[name]
		outcomes := map[string]bool{}
		exec := func(prefix []byte, keep bool) (*csched.Sched, error) {
			var r1, r2 uint64
			finished := false
			s := csched.Run(prefix, 4000, false, func() { r1, r2 = f(); finished = true })
			out := fmt.Sprintf("%d ; %d", r1, r2)
			switch {
			case s.Deadlock && !finished:
				out = "deadlock"
			case s.Horizon:
				out = "horizon"
			case !finished:
				out = "panic"
				for _, t := range s.Threads() {
					if t.PanicVal != nil {
						out = fmt.Sprint("panic:", t.PanicVal)
					}
				}
			}
			outcomes[out] = true
			return s, nil
		}
		st, _, err := csched.Explore(csched.Options{Bound: bound, MaxSteps: 4000, Deadline: deadline}, exec)
		if err != nil {
			fmt.Fprintln(os.Stderr, "HARNESS", name, err)
			os.Exit(3)
		}
		r := sideResult{Name: name, Execs: st.Execs, Capped: st.CapReason}
		for o := range outcomes {
			r.Outcomes = append(r.Outcomes, o)
		}
		sort.Strings(r.Outcomes)
		enc.Encode(r)
	}
}
`

func must(err error) {
	if err != nil {
		fmt.Fprintln(os.Stderr, "harness error:", err)
		os.Exit(3)
	}
}

func write(path, content string) {
	os.MkdirAll(filepath.Dir(path), 0755)
	must(os.WriteFile(path, []byte(content), 0644))
}

func glSide(file *gl.File, name string, bound int, deadline time.Time) sideResult {
	outcomes := map[string]bool{}
	exec := func(prefix []byte, keep bool) (*csched.Sched, error) {
		in := gl.New(file)
		in.Fuel = 200000
		in.Race = true
		var val gl.Val
		var err error
		finished := false
		s := csched.Run(prefix, 6000, false, func() {
			val, err = in.Call(name)
			finished = true
		})
		out := ""
		switch {
		case len(in.ThreadFails) > 0:
			out = "thread-" + in.ThreadFails[0]
		case finished && err != nil:
			out = err.Error()
		case s.Deadlock && !finished:
			out = "deadlock"
		case s.Horizon:
			out = "horizon"
		case !finished:
			out = "aborted"
		default:
			out = progenum.DumpGLTuple(in, val, []*progenum.GT{progenum.TU64, progenum.TU64})
		}
		outcomes[out] = true
		return s, nil
	}
	st, _, err := csched.Explore(csched.Options{Bound: bound, MaxSteps: 6000, Deadline: deadline}, exec)
	if err != nil {
		fmt.Fprintln(os.Stderr, "HARNESS", name, err)
		os.Exit(3)
	}
	r := sideResult{Name: name, Execs: st.Execs, Capped: st.CapReason}
	for o := range outcomes {
		r.Outcomes = append(r.Outcomes, o)
	}
	sort.Strings(r.Outcomes)
	return r
}

func main() {
	tier := flag.String("tier", "quick", "")
	replay := flag.String("replay", "", "")
	goose := flag.String("bin", "", "goose binary")
	glworker := flag.String("glworker", "", "internal: file,shard/n,bound")
	flag.Parse()
	start := time.Now()
	if *glworker != "" {
		// GooseLang-side worker: explores its shard of programs
		parts := strings.Split(*glworker, ",")
		var shard, n, bound int
		fmt.Sscanf(parts[1], "%d/%d", &shard, &n)
		fmt.Sscanf(parts[2], "%d", &bound)
		b, err := os.ReadFile(parts[0])
		must(err)
		file, perr := gl.ParseFile(string(b))
		must(perr)
		var names []string
		for _, nme := range file.Order {
			if strings.HasPrefix(nme, "C_") || strings.HasPrefix(nme, "E_") {
				names = append(names, nme)
			}
		}
		sort.Strings(names)
		enc := json.NewEncoder(os.Stdout)
		deadline := start.Add(25 * time.Minute)
		for i, nme := range names {
			if i%n == shard {
				enc.Encode(glSide(file, nme, bound, deadline))
			}
		}
		return
	}
	bound := 3
	if *tier == "thorough" {
		bound = 4
	}
	progs := progenum.ConcProgs(*tier)
	only := ""
	if *replay != "" {
		var rf struct {
			Replay struct {
				Name string `json:"name"`
			} `json:"replay"`
		}
		b, _ := os.ReadFile(*replay)
		json.Unmarshal(b, &rf)
		only = rf.Replay.Name
		progs = append(progenum.ConcProgs("thorough"), progs...)
		var sel []progenum.ConcProg
		for _, p := range progs {
			if p.Name == only && len(sel) == 0 {
				sel = append(sel, p)
			}
		}
		progs = sel
		if len(progs) == 0 {
			fmt.Fprintln(os.Stderr, "unknown program", only)
			os.Exit(3)
		}
	}
	work, _ := os.MkdirTemp("", "verif-c03-")
	defer os.RemoveAll(work)
	gen := filepath.Join(work, "gen")
	var src strings.Builder
	src.WriteString("package p\n\nimport (\n\t\"sync\"\n\n\t\"github.com/goose-lang/goose/machine\"\n)\n" + progenum.ConcDecls + "\nfunc usesMachine() {\n\tmachine.Sleep(1)\n}\n\n")
	for _, p := range progs {
		src.WriteString(p.Source + "\n")
	}
	write(filepath.Join(gen, "p/conc.go"), src.String())
	// shimmed copy for the Go side
	shim, err := instr.File(filepath.Join(gen, "p/conc.go"), instr.Opts{Sync: true, Go: true})
	must(err)
	ss := strings.Replace(string(shim), "package p", "package pshim", 1)
	ss = strings.Replace(ss, "\"github.com/goose-lang/goose/machine\"", "machine \"genmod/machshim\"", 1)
	write(filepath.Join(gen, "pshim/conc.go"), ss)
	var tb strings.Builder
	tb.WriteString("package pshim\n\nvar Funcs = map[string]func() (uint64, uint64){\n")
	for _, p := range progs {
		fmt.Fprintf(&tb, "\t%q: %s,\n", p.Name, p.Name)
	}
	tb.WriteString("}\n")
	write(filepath.Join(gen, "pshim/table.go"), tb.String())
	write(filepath.Join(gen, "machshim/m.go"), "package machshim\n\nimport (\n\t\"verif/csched\"\n\tsync \"verif/csched/syncshim\"\n)\n\nfunc WaitTimeout(c *sync.Cond, ms uint64) { c.WaitOrTimeout() }\n\nfunc Sleep(ns uint64) { csched.Yield(\"Sleep\") }\n")
	write(filepath.Join(gen, "cmd/run/main.go"), runnerMain)
	write(filepath.Join(gen, "go.mod"), "module genmod\n\ngo 1.22\n\nrequire (\n\tgithub.com/goose-lang/goose v0.0.0\n\tverif v0.0.0\n)\n\nreplace github.com/goose-lang/goose => /repo\n\nreplace verif => /verif/mc\n")
	s1, _ := os.ReadFile("/repo/go.sum")
	s2, _ := os.ReadFile("/verif/mc/go.sum")
	write(filepath.Join(gen, "go.sum"), string(s1)+string(s2))

	acc := ev.NewAcc()
	// --- goose
	outDir := filepath.Join(work, "out")
	gc := exec.Command(*goose, "-out", outDir, "-ignore-errors", "./p")
	gc.Dir = gen
	var gerr bytes.Buffer
	gc.Stderr, gc.Stdout = &gerr, &gerr
	gc.Run()
	vpath := filepath.Join(outDir, "genmod", "p.v")
	vb, rerr := os.ReadFile(vpath)
	if rerr != nil {
		acc.Violate(ev.Violation{Key: "C03/no-output", Msg: "goose wrote no file for the generated concurrent programs: " + gerr.String()})
		os.Exit(acc.Done(ev.Finish{Prop: "C03", Tier: *tier, Level: "model_checking", Start: start, Rule: "n/a"}))
	}
	file, perr := gl.ParseFile(string(vb))
	must(perr)

	// --- Go side
	build := exec.Command("go", "build", "-o", filepath.Join(work, "run.bin"), "./cmd/run")
	build.Dir = gen
	if out, err := build.CombinedOutput(); err != nil {
		fmt.Fprintln(os.Stderr, "harness error: generated concurrent programs do not compile:\n"+string(out))
		os.Exit(3)
	}
	nsh := 16
	goRes := map[string]sideResult{}
	glRes := map[string]sideResult{}
	var mu sync.Mutex
	var wg sync.WaitGroup
	collect := func(cmd *exec.Cmd, into map[string]sideResult) {
		defer wg.Done()
		cmd.Stderr = os.Stderr
		out, err := cmd.Output()
		if err != nil {
			fmt.Fprintln(os.Stderr, "harness error: worker failed:", err)
			os.Exit(3)
		}
		sc := bufio.NewScanner(bytes.NewReader(out))
		sc.Buffer(make([]byte, 1<<20), 1<<24)
		for sc.Scan() {
			var r sideResult
			if json.Unmarshal(sc.Bytes(), &r) == nil && r.Name != "" {
				mu.Lock()
				into[r.Name] = r
				mu.Unlock()
			}
		}
	}
	for i := 0; i < nsh; i++ {
		wg.Add(2)
		c1 := exec.Command(filepath.Join(work, "run.bin"), fmt.Sprintf("%d/%d", i, nsh), fmt.Sprint(bound))
		c1.Env = append(os.Environ(), "GOMAXPROCS=1")
		go collect(c1, goRes)
		c2 := exec.Command(os.Args[0], "-glworker", fmt.Sprintf("%s,%d/%d,%d", vpath, i, nsh, bound+1))
		c2.Env = append(os.Environ(), "GOMAXPROCS=1")
		go collect(c2, glRes)
	}
	wg.Wait()

	for _, p := range progs {
		acc.Add("programs", 1)
		g, ok1 := goRes[p.Name]
		l, ok2 := glRes[p.Name]
		viol := func(kind, msg string) {
			acc.Violate(ev.Violation{Key: "C03/" + p.Name + "/" + kind, Msg: fmt.Sprintf("%s: %s\nGo outcomes (<=%d preemptions): %v\nGooseLang outcomes (<=%d preemptions): %v\n--- Go source ---\n%s", p.Name, msg, bound, g.Outcomes, bound+1, l.Outcomes, p.Source), Replay: map[string]any{"name": p.Name}})
		}
		if !ok1 {
			fmt.Fprintln(os.Stderr, "harness error: no Go-side result for", p.Name)
			os.Exit(3)
		}
		if !ok2 {
			if _, defined := file.Defs[p.Name]; !defined && strings.HasPrefix(p.Name, "E_") {
				acc.Add("edge_programs_rejected", 1) // edge of the subset: a conversion error is an acceptable answer
				continue
			}
			if _, defined := file.Defs[p.Name]; !defined {
				viol("rejected", "goose does not translate this program of the supported concurrent subset: "+firstErrFor(gerr.String()))
				continue
			}
			fmt.Fprintln(os.Stderr, "harness error: no GooseLang-side result for", p.Name)
			os.Exit(3)
		}
		acc.Add("executions", g.Execs+l.Execs)
		acc.Add("go_side_executions", g.Execs)
		acc.Add("goose_lang_side_executions", l.Execs)
		acc.Add("transitions", g.Execs+l.Execs)
		if len(g.Outcomes) > 1 {
			acc.Add("programs_with_schedule_dependent_go_result", 1)
		}
		if g.Capped != "" || l.Capped != "" {
			acc.NotExhaustive("internal deadline")
		}
		for _, o := range g.Outcomes {
			if o == "deadlock" || o == "horizon" || strings.HasPrefix(o, "panic") {
				fmt.Fprintln(os.Stderr, "harness error: generated Go program", p.Name, "has outcome", o)
				os.Exit(3)
			}
		}
		lset := map[string]bool{}
		for _, o := range l.Outcomes {
			lset[o] = true
		}
		bad := false
		for _, o := range g.Outcomes {
			if !lset[o] {
				viol("go-outcome-missing", fmt.Sprintf("Go can return %s but no explored interleaving of the emitted GooseLang does", o))
				bad = true
				break
			}
		}
		if bad {
			continue
		}
		if len(g.Outcomes) == 1 {
			for _, o := range l.Outcomes {
				if o != g.Outcomes[0] {
					kind := "extra-outcome"
					if o == "deadlock" {
						kind = "deadlock"
					} else if strings.Contains(o, "stuck") {
						kind = "stuck"
					} else if strings.Contains(o, "diverged") || o == "horizon" {
						kind = "diverged"
					}
					viol(kind, fmt.Sprintf("Go's result %s does not depend on the schedule, but an interleaving of the emitted GooseLang ends with: %s", g.Outcomes[0], o))
					break
				}
			}
		}
		acc.Sample(map[string]any{"program": p.Name, "go_outcomes": g.Outcomes, "goose_lang_outcomes": l.Outcomes, "go_schedules": g.Execs, "goose_lang_schedules": l.Execs}, 3)
	}
	os.RemoveAll(work)
	if *replay != "" {
		if len(acc.Violations) > 0 {
			fmt.Println(acc.Violations[0].Msg)
			fmt.Println(string(vb))
			fmt.Printf("VIOLATION property=C03 replay=%s\n", *replay)
			os.Exit(1)
		}
		fmt.Println("replay: property holds on this program")
		return
	}
	os.Exit(acc.Done(ev.Finish{
		Prop: "C03", Tier: *tier, Level: "model_checking", Start: start,
		Rule:        fmt.Sprintf("five edge programs (go f(args), go o.m(args), go func(v T){...}(x) with a shadowing / late-read parameter, in a loop): rejected, or arguments evaluated by the spawner and no binder leaking; programs = lock style {local, through a struct field, var-declared} x join style {WaitGroup, cond+Signal, cond+Broadcast, flag+WaitTimeout, all waits in a loop} x locked steps of 1-2 goroutines and main over a shared captured local and a struct field (add, double, copy to field, conditional set), plus goroutines spawned from a loop and under an if; data-race-free by construction (GooseLang side runs with a happens-before race detector). Each program: the Go program (sync -> scheduler shim, go -> controlled spawn) explored over every schedule with <= %d preemptions, goose's output explored on the reference interpreter over every schedule with <= %d preemptions; oracle: Out_Go is a subset of Out_GL; if Go's result is schedule-independent every GooseLang interleaving yields it, with no deadlock, stuck thread or data race", bound, bound+1),
		Assumptions: []string{"GooseLang condWait / waitgroup.Wait are modelled without stuttering re-acquisitions (a waiter resumes only after another thread released the lock / the counter reached zero)", "timing primitives are logical (Sleep is a scheduling point, a timed wait may time out whenever the lock has been released in between)", "preemption bound"},
		Extra: map[string]any{
			"states":                        acc.Counters["executions"],
			"traces_validated_against_impl": acc.Counters["go_side_executions"],
			"states_note":                   "states = complete executions (distinct schedules) on both sides; Go-side executions run the generated Go program itself, GooseLang-side executions run goose's real output on the reference interpreter",
		},
	}))
}

func firstErrFor(stderr string) string {
	l := strings.Split(stderr, "\n")
	if len(l) > 8 {
		l = l[:8]
	}
	return strings.Join(l, " | ")
}
