// c11: disk contents persist across reopen; I/O failures are never silent.
// (a) BFS over write/barrier/close+reopen histories from every prior image
// length, against a byte-array reference model; (b) crash at every system-call
// boundary of short histories x every post-crash image; (c) every single
// system-call failure.  All on the real FileDisk code over simunix; fault-free
// traces are replayed on the real kernel.
package main

import (
	"encoding/json"
	"flag"
	"fmt"
	"os"
	"runtime"
	"strings"
	"time"

	"github.com/goose-lang/goose/machine/disk"

	"verif/bfs"
	"verif/ev"
	"verif/hpar"
	"verif/libh"
	"verif/mcx"
	"verif/simunix"
)

const BS = 4096

type Op struct {
	K string // W Barrier Reopen
	A uint64
	P string
	N uint64
}

func (o Op) String() string {
	switch o.K {
	case "W":
		return fmt.Sprintf("Write(%d,%s)", o.A, o.P)
	case "Reopen":
		return fmt.Sprintf("Close;Open(n=%d)", o.N)
	}
	return o.K
}

var alphabet = func() []Op {
	var ops []Op
	for a := uint64(0); a < 3; a++ {
		for _, p := range []string{"A", "B"} {
			ops = append(ops, Op{K: "W", A: a, P: p})
		}
	}
	ops = append(ops, Op{K: "Barrier"})
	for n := uint64(0); n <= 3; n++ {
		ops = append(ops, Op{K: "Reopen", N: n})
	}
	return ops
}()

// prior image kinds
type prior struct {
	Name string
	Len  func(n uint64) int // -1 absent
}

var priors = []prior{
	{"absent", func(n uint64) int { return -1 }},
	{"empty", func(n uint64) int { return 0 }},
	{"1byte", func(n uint64) int { return 1 }},
	{"numBlocks-bytes", func(n uint64) int { return int(n) }},
	{"k*4096+100", func(n uint64) int { return int(n)*BS/2/BS*BS + 100 }},
	{"exact", func(n uint64) int { return int(n) * BS }},
	{"larger", func(n uint64) int { return int(n)*BS + BS + 7 }},
}

func filler(l int) []byte {
	b := make([]byte, l)
	for i := range b {
		b[i] = byte(0x40 + (i*7)%50)
	}
	return b
}

type cfg struct {
	N     uint64
	Prior int
	Depth int
}

type model struct {
	img []byte
	n   uint64
}

func (m *model) open(n uint64) {
	m.n = n
	want := int(n) * BS
	if len(m.img) > want {
		m.img = m.img[:want]
	} else {
		m.img = append(m.img, make([]byte, want-len(m.img))...)
	}
}

func sum(b []byte) string {
	h := uint64(1469598103934665603)
	for _, x := range b {
		h = (h ^ uint64(x)) * 1099511628211
	}
	return fmt.Sprintf("%d:%x", len(b), h)
}

func (m *model) key() string { return fmt.Sprintf("n%d|%s", m.n, sum(m.img)) }

var tmpRoot string
var validated int64

func setupKernel(c cfg) (*simunix.Kernel, *model) {
	k := simunix.New()
	simunix.K = k
	m := &model{}
	if l := priors[c.Prior].Len(c.N); l >= 0 {
		k.WriteFileDurable("d.img", filler(l))
		m.img = filler(l)
	}
	return k, m
}

func dumpCheck(d disk.Disk, m *model) error {
	if d.Size() != m.n {
		return fmt.Errorf("Size()=%d, want %d", d.Size(), m.n)
	}
	for a := uint64(0); a < m.n; a++ {
		buf := libh.Pat("D")
		if p := libh.Try(func() { d.ReadTo(a, buf) }); p != "" {
			return fmt.Errorf("ReadTo(%d) panicked: %s", a, p)
		}
		want := m.img[a*BS : (a+1)*BS]
		if string(buf) != string(want) {
			i := 0
			for buf[i] == want[i] {
				i++
			}
			return fmt.Errorf("block %d differs from the reference at byte %d: got 0x%02x want 0x%02x (0xEE = untouched read buffer: short read, stale data returned as success)", a, i, buf[i], want[i])
		}
	}
	return nil
}

// gcBarrier runs two garbage collections and waits for the finalizers of each: an object the
// disk depends on but no longer references (an *os.File behind a raw descriptor, say) is
// finalized here, not at some unpredictable later time.
func gcBarrier() {
	for i := 0; i < 2; i++ {
		done := make(chan struct{})
		s := new([16]byte)
		runtime.SetFinalizer(s, func(*[16]byte) { close(done) })
		s = nil
		runtime.GC()
		select {
		case <-done:
		case <-time.After(2 * time.Second):
		}
	}
}

// applyReal: the same histories on the real kernel (free-running build, no overlay): whatever the
// implementation does outside golang.org/x/sys/unix (os.File, finalizers, its own caches) is in play;
// a garbage collection with finalizers is forced after every operation.
func applyReal(c cfg, path []int) bfs.Result {
	dir, err := os.MkdirTemp(tmpRoot, "real")
	if err != nil {
		return bfs.Result{Err: fmt.Errorf("HARNESS %v", err)}
	}
	defer os.RemoveAll(dir)
	img := dir + "/d.img"
	m := &model{}
	if l := priors[c.Prior].Len(c.N); l >= 0 {
		os.WriteFile(img, filler(l), 0644)
		m.img = filler(l)
	}
	d, err := disk.NewFileDisk(img, c.N)
	if err != nil {
		return bfs.Result{Err: fmt.Errorf("NewFileDisk: %v", err)}
	}
	m.open(c.N)
	gcBarrier()
	for _, oi := range path {
		o := alphabet[oi]
		switch o.K {
		case "W":
			if o.A >= m.n {
				libh.Try(func() { d.Close() })
				return bfs.Result{Skip: true}
			}
			if p := libh.Try(func() { d.Write(o.A, libh.Pat(o.P)) }); p != "" {
				return bfs.Result{Err: fmt.Errorf("%s panicked: %s", o, p)}
			}
			copy(m.img[o.A*BS:], libh.Pat(o.P))
		case "Barrier":
			if p := libh.Try(func() { d.Barrier() }); p != "" {
				return bfs.Result{Err: fmt.Errorf("Barrier panicked: %s", p)}
			}
		case "Reopen":
			if p := libh.Try(func() { d.Close() }); p != "" {
				return bfs.Result{Err: fmt.Errorf("Close panicked: %s", p)}
			}
			d, err = disk.NewFileDisk(img, o.N)
			if err != nil {
				return bfs.Result{Err: fmt.Errorf("reopen: %v", err)}
			}
			m.open(o.N)
		}
		gcBarrier()
	}
	err = dumpCheck(d, m)
	cp := libh.Try(func() { d.Close() })
	if err != nil {
		return bfs.Result{Err: err}
	}
	if cp != "" {
		return bfs.Result{Err: fmt.Errorf("Close panicked: %s", cp)}
	}
	// what is on disk after Close is what a later process sees
	b, rerr := os.ReadFile(img)
	if rerr != nil || string(b) != string(m.img) {
		return bfs.Result{Err: fmt.Errorf("after Close the image file holds %d bytes that differ from the reference (%d bytes) (%v)", len(b), len(m.img), rerr)}
	}
	out := ""
	if len(path) > 0 {
		out = alphabet[path[len(path)-1]].K
	}
	return bfs.Result{Key: m.key(), Outcome: out}
}

func apply(c cfg, path []int) bfs.Result {
	if hpar.Free {
		return applyReal(c, path)
	}
	k, m := setupKernel(c)
	d, err := disk.NewFileDisk("d.img", c.N)
	if err != nil {
		return bfs.Result{Err: fmt.Errorf("NewFileDisk: %v", err)}
	}
	m.open(c.N)
	for i, oi := range path {
		o := alphabet[oi]
		last := i == len(path)-1
		switch o.K {
		case "W":
			if o.A >= m.n {
				return bfs.Result{Skip: true}
			}
			if p := libh.Try(func() { d.Write(o.A, libh.Pat(o.P)) }); p != "" {
				return bfs.Result{Err: fmt.Errorf("%s panicked: %s", o, p)}
			}
			copy(m.img[o.A*BS:], libh.Pat(o.P))
		case "Barrier":
			if p := libh.Try(func() { d.Barrier() }); p != "" {
				return bfs.Result{Err: fmt.Errorf("Barrier panicked: %s", p)}
			}
		case "Reopen":
			if p := libh.Try(func() { d.Close() }); p != "" {
				return bfs.Result{Err: fmt.Errorf("Close panicked: %s", p)}
			}
			d, err = disk.NewFileDisk("d.img", o.N)
			if err != nil {
				return bfs.Result{Err: fmt.Errorf("reopen: %v", err)}
			}
			m.open(o.N)
		}
		_ = last
	}
	if err := dumpCheck(d, m); err != nil {
		return bfs.Result{Err: err}
	}
	// bind the simulation to the real kernel
	dir, err := os.MkdirTemp(tmpRoot, "r")
	if err == nil {
		if l := priors[c.Prior].Len(c.N); l >= 0 {
			os.WriteFile(dir+"/d.img", filler(l), 0644)
		}
		err = simunix.ReplayOnKernel(k.Trace, dir, k.Tree())
		os.RemoveAll(dir)
		validated++
	}
	if err != nil {
		return bfs.Result{Err: fmt.Errorf("HARNESS simunix/kernel conformance: %v", err)}
	}
	out := ""
	if len(path) > 0 {
		out = alphabet[path[len(path)-1]].K
	}
	return bfs.Result{Key: m.key(), Outcome: out}
}

// ---------------------------------------------------------------- crash

// crash histories: sequences over W(a,P) a in {0,1}, Barrier, of length <= L
type crashStats struct{ histories, points, images int64 }

func crashHistories(maxLen int) [][]Op {
	base := []Op{{K: "W", A: 0, P: "A"}, {K: "W", A: 0, P: "B"}, {K: "W", A: 1, P: "A"}, {K: "W", A: 1, P: "C"}, {K: "Barrier"}}
	var out [][]Op
	var rec func(cur []Op)
	rec = func(cur []Op) {
		if len(cur) > 0 {
			out = append(out, append([]Op(nil), cur...))
		}
		if len(cur) == maxLen {
			return
		}
		for _, o := range base {
			rec(append(cur, o))
		}
	}
	rec(nil)
	return out
}

func crashCheck(n uint64, priorIdx int, h []Op, acc *ev.Acc) {
	c := cfg{N: n, Prior: priorIdx}
	k, m := setupKernel(c)
	// allowed[a] = set of block contents (as string) acceptable after a crash now
	type snap struct {
		k       *simunix.Kernel
		allowed []map[string]bool
		at      string
	}
	var snaps []snap
	m.open(n)
	durable := make([]string, n) // value at last completed barrier (or initial)
	later := make([][]string, n)
	for a := uint64(0); a < n; a++ {
		durable[a] = string(m.img[a*BS : (a+1)*BS])
	}
	// before the first open+resize completed, the prior image content (resized) is the only expectation;
	// the resize itself is unsynced, so retained bytes are whatever prefix exists: handled because reopen resizes again.
	curOp := "NewFileDisk"
	mkAllowed := func() []map[string]bool {
		al := make([]map[string]bool, n)
		for a := uint64(0); a < n; a++ {
			al[a] = map[string]bool{durable[a]: true}
			for _, v := range later[a] {
				al[a][v] = true
			}
		}
		return al
	}
	k.OnCall = func(kk *simunix.Kernel, idx int, name string) {
		snaps = append(snaps, snap{kk.Clone(), mkAllowed(), fmt.Sprintf("before call %d (%s) of %s", idx, name, curOp)})
	}
	d, err := disk.NewFileDisk("d.img", n)
	if err != nil {
		panic(err)
	}
	for _, o := range h {
		curOp = o.String()
		switch o.K {
		case "W":
			if o.A >= n {
				continue
			}
			// the write may reach the disk any time from now on
			later[o.A] = append(later[o.A], string(libh.Pat(o.P)))
			d.Write(o.A, libh.Pat(o.P))
			copy(m.img[o.A*BS:], libh.Pat(o.P))
		case "Barrier":
			d.Barrier()
			for a := uint64(0); a < n; a++ {
				durable[a] = string(m.img[a*BS : (a+1)*BS])
				later[a] = nil
			}
		}
	}
	k.OnCall = nil
	snaps = append(snaps, snap{k.Clone(), mkAllowed(), "after the history"})
	acc.Add("crash_histories", 1)
	for _, s := range snaps {
		acc.Add("crash_points", 1)
		imgs, trunc := s.k.CrashImages(4096)
		if trunc {
			acc.NotExhaustive("crash image enumeration truncated")
		}
		for ii, img := range imgs {
			acc.Add("crash_images", 1)
			simunix.K = img
			var why string
			d2, err := disk.NewFileDisk("d.img", n)
			if err != nil {
				why = fmt.Sprintf("reopen after crash failed: %v", err)
			} else {
				if d2.Size() != n {
					why = fmt.Sprintf("Size()=%d after crash+reopen, want %d", d2.Size(), n)
				}
				for a := uint64(0); a < n && why == ""; a++ {
					buf := libh.Pat("D")
					if p := libh.Try(func() { d2.ReadTo(a, buf) }); p != "" {
						why = fmt.Sprintf("ReadTo(%d) after crash+reopen panicked: %s", a, p)
					} else if !s.allowed[a][string(buf)] {
						why = fmt.Sprintf("block %d after crash+reopen is %s: neither the value at the last completed Barrier nor a later written value", a, libh.Classify(buf))
					}
				}
			}
			if why != "" {
				var hs []string
				for _, o := range h {
					hs = append(hs, o.String())
				}
				acc.Violate(ev.Violation{
					Key:    fmt.Sprintf("C11/crash/N%d/%s/%s", n, priors[priorIdx].Name, strings.Join(hs, ";")),
					Msg:    fmt.Sprintf("N=%d prior=%s history %s, crash %s, image #%d: %s", n, priors[priorIdx].Name, strings.Join(hs, "; "), s.at, ii, why),
					Replay: map[string]any{"mode": "crash", "N": n, "prior": priorIdx, "history": h},
				})
				return
			}
		}
	}
}

// ---------------------------------------------------------------- faults

// every errno a kernel can plausibly answer a file system call with; none of them may be
// swallowed (EINTR may be answered by re-issuing the call)
var faultErrnos = []simunix.Errno{simunix.EIO, simunix.ENOSPC, simunix.EINVAL, simunix.EROFS, simunix.EBADF, simunix.EDQUOT, simunix.EFBIG,
	simunix.ENOMEM, simunix.EAGAIN, simunix.EINTR, simunix.EACCES, simunix.EPERM, simunix.EOVERFLOW, simunix.ENXIO, simunix.ESPIPE, simunix.EBUSY}

func faultCheck(n uint64, priorIdx int, acc *ev.Acc) {
	// fixed history touching every call kind: open, W, R, ReadTo, Barrier, W, Barrier, Close
	type step struct {
		name string
		f    func(d *disk.Disk) error
	}
	var steps = []step{
		{"NewFileDisk", func(d *disk.Disk) error { x, err := disk.NewFileDisk("d.img", n); *d = x; return err }},
		{"Write", func(d *disk.Disk) error { (*d).Write(0, libh.Pat("A")); return nil }},
		{"Read", func(d *disk.Disk) error { (*d).Read(0); return nil }},
		{"ReadTo", func(d *disk.Disk) error { (*d).ReadTo(n-1, libh.Pat("D")); return nil }},
		{"Barrier", func(d *disk.Disk) error { (*d).Barrier(); return nil }},
		{"Write", func(d *disk.Disk) error { (*d).Write(n-1, libh.Pat("B")); return nil }},
		{"Barrier", func(d *disk.Disk) error { (*d).Barrier(); return nil }},
	}
	var lastTrace []simunix.Call
	run := func(faultAt int, f simunix.Fault) (ncalls int, verdict string, hit bool) {
		k, _ := setupKernel(cfg{N: n, Prior: priorIdx})
		defer func() { lastTrace = k.Trace }()
		if faultAt >= 0 {
			k.Faults[faultAt] = f
		}
		var d disk.Disk
		for _, s := range steps {
			before := k.FaultHits
			var err error
			p := libh.Try(func() { err = s.f(&d) })
			if k.FaultHits > before {
				// the failing call happened inside this operation
				if p == "" && err == nil && f.Err == simunix.EINTR && faultAt < len(k.Trace) {
					// an interrupted call may be re-issued: normal return is fine if the same call was made again and succeeded
					failed := k.Trace[faultAt]
					for _, c := range k.Trace[faultAt+1:] {
						if c.Name == failed.Name && c.Err == 0 && fmt.Sprint(c.Args) == fmt.Sprint(failed.Args) {
							return k.NCalls, "", true
						}
					}
				}
				if p == "" && err == nil && f.Short > 0 && faultAt < len(k.Trace) {
					// a short transfer is not an error of the call: the operation may finish it by re-issuing the call for
					// the remainder; returning normally without doing so loses (write) or invents (read) bytes
					short := k.Trace[faultAt]
					for _, c := range k.Trace[faultAt+1:] {
						if c.Name == short.Name && c.Err == 0 && len(c.Args) == 3 && fmt.Sprint(c.Args[2]) == fmt.Sprint(short.Args[2].(int64)+int64(f.Short)) {
							return k.NCalls, "", true
						}
					}
					return k.NCalls, fmt.Sprintf("%s returned normally although its system call #%d (%s) transferred only %d of %d bytes", s.name, faultAt, short.Name, f.Short, disk.BlockSize), true
				}
				if p == "" && err == nil {
					return k.NCalls, fmt.Sprintf("%s returned normally although its system call #%d failed with %v", s.name, faultAt, f.Err), true
				}
				return k.NCalls, "", true
			}
			if p != "" || err != nil {
				return k.NCalls, fmt.Sprintf("HARNESS %s failed without a fault: %s %v", s.name, p, err), false
			}
		}
		return k.NCalls, "", false
	}
	total, v, _ := run(-1, simunix.Fault{})
	if v != "" {
		acc.Violate(ev.Violation{Key: "C11/fault/HARNESS", Msg: v})
		return
	}
	base := append([]simunix.Call(nil), lastTrace...)
	for i := 0; i < total && i < len(base); i++ {
		if base[i].Name != "pread" && base[i].Name != "pwrite" {
			continue
		}
		for _, sh := range []int{1, 2048, 4095} {
			_, verdict, _ := run(i, simunix.Fault{Short: sh})
			acc.Add("faults_injected", 1)
			if verdict != "" {
				acc.Violate(ev.Violation{
					Key:    fmt.Sprintf("C11/fault/N%d/%s/call%d/short%d", n, priors[priorIdx].Name, i, sh),
					Msg:    fmt.Sprintf("N=%d prior=%s: %s", n, priors[priorIdx].Name, verdict),
					Replay: map[string]any{"mode": "fault", "N": n, "prior": priorIdx, "call": i, "short": sh},
				})
			}
		}
	}
	for i := 0; i < total; i++ {
		for _, e := range faultErrnos {
			_, verdict, hit := run(i, simunix.Fault{Err: e})
			acc.Add("faults_injected", 1)
			if !hit {
				acc.Violate(ev.Violation{Key: "C11/fault/HARNESS-nohit", Msg: fmt.Sprintf("HARNESS fault at call %d never hit", i)})
			}
			if verdict != "" {
				acc.Violate(ev.Violation{
					Key:    fmt.Sprintf("C11/fault/N%d/%s/call%d/%v", n, priors[priorIdx].Name, i, e),
					Msg:    fmt.Sprintf("N=%d prior=%s: %s", n, priors[priorIdx].Name, verdict),
					Replay: map[string]any{"mode": "fault", "N": n, "prior": priorIdx, "call": i, "errno": int(e)},
				})
			}
		}
	}
}

// ---------------------------------------------------------------- driver

type job struct {
	Kind string
	C    cfg
	H    []Op
}

func jobs(tier string) []job {
	var out []job
	depth := 3
	crashLen := 3
	if tier == "thorough" {
		depth, crashLen = 5, 4
	}
	for n := uint64(0); n <= 3; n++ {
		for pi := range priors {
			out = append(out, job{Kind: "bfs", C: cfg{N: n, Prior: pi, Depth: depth}})
		}
	}
	for _, n := range []uint64{1, 2} {
		for _, pi := range []int{0, 5} {
			for _, h := range crashHistories(crashLen) {
				out = append(out, job{Kind: "crash", C: cfg{N: n, Prior: pi}, H: h})
			}
		}
	}
	for n := uint64(1); n <= 3; n++ {
		for pi := range priors {
			out = append(out, job{Kind: "fault", C: cfg{N: n, Prior: pi}})
		}
	}
	return out
}

type replayFile struct {
	Replay struct {
		Mode    string `json:"mode"`
		Cfg     cfg    `json:"cfg"`
		Path    []int  `json:"path"`
		N       uint64 `json:"N"`
		Prior   int    `json:"prior"`
		History []Op   `json:"history"`
	} `json:"replay"`
}

func main() {
	tier := flag.String("tier", "quick", "")
	replay := flag.String("replay", "", "")
	flag.Parse()
	start := time.Now()
	tmpRoot = libh.TempDir("c11")
	defer os.RemoveAll(tmpRoot)
	if *replay != "" {
		var rf replayFile
		b, err := os.ReadFile(*replay)
		if err == nil {
			err = json.Unmarshal(b, &rf)
		}
		if err != nil {
			fmt.Fprintln(os.Stderr, err)
			os.Exit(3)
		}
		acc := ev.NewAcc()
		switch rf.Replay.Mode {
		case "crash":
			crashCheck(rf.Replay.N, rf.Replay.Prior, rf.Replay.History, acc)
		case "fault":
			faultCheck(rf.Replay.N, rf.Replay.Prior, acc)
		default:
			r := apply(rf.Replay.Cfg, rf.Replay.Path)
			if r.Err != nil {
				acc.Violate(ev.Violation{Key: "replay", Msg: r.Err.Error()})
			}
		}
		os.RemoveAll(tmpRoot)
		if len(acc.Violations) > 0 {
			fmt.Printf("VIOLATION property=C11 replay=%s\n  %s\n", *replay, acc.Violations[0].Msg)
			os.Exit(1)
		}
		fmt.Println("replay: property holds on this case")
		return
	}
	js := jobs(*tier)
	if hpar.Free {
		// free-running real-kernel complement: the reopen histories only (no crash images, no fault injection)
		acc := ev.NewAcc()
		for _, j := range js {
			if j.Kind != "bfs" || j.C.N > 2 || (j.C.Prior != 0 && j.C.Prior != 2 && j.C.Prior != 6) {
				continue
			}
			c := j.C
			c.Depth = 2
			st, fails := bfs.Search(len(alphabet), c.Depth, start.Add(10*time.Minute), 5, func(p []int) bfs.Result { return apply(c, p) })
			acc.Add("free_runs", st.Transitions)
			for _, f := range fails {
				var names []string
				for _, oi := range f.Path {
					names = append(names, alphabet[oi].String())
				}
				acc.Violate(ev.Violation{
					Key:    fmt.Sprintf("C11/real-kernel/N%d/prior=%s/%s", c.N, priors[c.Prior].Name, strings.Join(names, ";")),
					Msg:    fmt.Sprintf("real kernel, garbage collection forced after every operation: N=%d prior image %s, history [%s]: %v", c.N, priors[c.Prior].Name, strings.Join(names, "; "), f.Err),
					Replay: map[string]any{"mode": "real", "cfg": c, "path": f.Path},
				})
			}
		}
		acc.EmitChild()
		return
	}
	if ev.IsChild() {
		i, n := ev.Shard()
		acc := ev.NewAcc()
		for ji, j := range js {
			if ji%n != i {
				continue
			}
			switch j.Kind {
			case "bfs":
				c := j.C
				st, fails := bfs.Search(len(alphabet), c.Depth, start.Add(20*time.Minute), 5, func(p []int) bfs.Result { return apply(c, p) })
				acc.Add("states", st.States)
				acc.Add("transitions", st.Transitions)
				acc.Add("bfs_configurations", 1)
				if st.Fixpoint {
					acc.Add("bfs_configurations_at_fixpoint", 1)
				}
				if st.Capped == "internal deadline" {
					acc.NotExhaustive("internal deadline")
				}
				for o := range st.Outcomes {
					acc.Set("outcomes", o)
				}
				acc.Sample(map[string]any{"kind": "reopen-bfs", "N": c.N, "prior_image": priors[c.Prior].Name, "depth": c.Depth, "states": st.States, "transitions": st.Transitions}, 2)
				for _, f := range fails {
					var names []string
					for _, oi := range f.Path {
						names = append(names, alphabet[oi].String())
					}
					acc.Violate(ev.Violation{
						Key:    fmt.Sprintf("C11/reopen/N%d/prior=%s/%s", c.N, priors[c.Prior].Name, strings.Join(names, ";")),
						Msg:    fmt.Sprintf("N=%d prior image %s (%d bytes), history [%s]: %v", c.N, priors[c.Prior].Name, priors[c.Prior].Len(c.N), strings.Join(names, "; "), f.Err),
						Replay: map[string]any{"mode": "bfs", "cfg": c, "path": f.Path},
					})
				}
			case "crash":
				crashCheck(j.C.N, j.C.Prior, j.H, acc)
			case "fault":
				faultCheck(j.C.N, j.C.Prior, acc)
			}
		}
		acc.Add("traces_validated_against_impl", validated)
		acc.EmitChild()
		return
	}
	// the simulated-kernel parts need the implementation to reach the kernel through golang.org/x/sys/unix
	seamOK := func() (ok bool) {
		defer func() {
			if recover() != nil {
				ok = false
			}
		}()
		k, _ := setupKernel(cfg{N: 1, Prior: 0})
		d, err := disk.NewFileDisk("d.img", 1)
		if err != nil || k.NCalls < 2 {
			return false
		}
		d.Write(0, libh.Pat("A"))
		d.Close()
		return k.NCalls >= 4
	}()
	var acc *ev.Acc
	if seamOK {
		var err error
		acc, err = ev.RunSharded(0)
		if err != nil {
			fmt.Fprintln(os.Stderr, "harness error:", err)
			os.Exit(3)
		}
	} else {
		acc = ev.NewAcc()
		acc.NotExhaustive("the implementation does not open / write its image through golang.org/x/sys/unix: the simulated-kernel parts (reopen BFS, crash images, fault injection) cannot see it and were skipped; only the real-kernel pass ran")
	}
	mcx.RacePass(acc, "C11", *tier)
	for _, v := range acc.Violations {
		if strings.Contains(v.Msg, "HARNESS") {
			fmt.Fprintln(os.Stderr, "harness error:", v.Msg)
			os.Exit(3)
		}
	}
	os.Exit(acc.Done(ev.Finish{
		Prop: "C11", Tier: *tier, Level: "model_checking", Start: start,
		Rule:        "(a) BFS over histories of Write(a,A|B) a<3, Barrier, Close+NewFileDisk(n) n in 0..3 from 7 prior image lengths x 4 sizes on the real FileDisk over simunix, byte-array reference, every block read back with ReadTo into a dirty buffer; every trace replayed on the real kernel. (b) all write/barrier histories up to the length bound: crash before every system call and at the end x every post-crash image (every metadata-journal prefix x every subset of unsynced page writes), reopen, each block must be the value at the last completed Barrier or a later written one. (c) every system-call instance of a fixed open/write/read/barrier history failing once with each of 16 errnos (EINTR may be answered by re-issuing the call): the enclosing operation must panic or return the error. (d) the reopen histories (depth 2, three prior images) once more on the real kernel with a -race build and a garbage collection with finalizers forced after every operation, the image file compared after Close",
		Assumptions: []string{"crash model: fsync makes the file's data and all earlier metadata operations durable; unsynced page writes persist in any subset; metadata operations persist in order", "errno injection is simulated (no seccomp harness in the sandbox)", "short pwrite without errno is not judged"},
	}))
}
