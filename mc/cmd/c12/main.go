// c12: MemFs == DirFs == reference model on all valid histories.
// Explicit-state BFS over valid operation histories; each history replayed on
// fresh real MemFs and DirFs (over simunix), also through the package-level
// wrappers; simunix traces replayed on the real kernel.
package main

import (
	"encoding/json"
	"flag"
	"fmt"
	"os"
	"os/exec"
	"strings"
	"time"

	"github.com/goose-lang/goose/machine/filesys"

	"verif/bfs"
	"verif/ev"
	"verif/fsh"
	"verif/libh"
	"verif/refmodel"
	"verif/simunix"
)

type Op struct {
	K      string
	D, N   string
	D2, N2 string
	Slot   int
	Data   int
	Off    string
	Len    string
}

func (o Op) String() string {
	switch o.K {
	case "Create", "Open", "Delete":
		return fmt.Sprintf("%s(%s,%s)", o.K, o.D, o.N)
	case "Append":
		return fmt.Sprintf("Append(h%d,%s)", o.Slot, fsh.Short(fsh.Data[o.Data]))
	case "Close":
		return fmt.Sprintf("Close(h%d)", o.Slot)
	case "ReadAt":
		return fmt.Sprintf("ReadAt(h%d,off=%s,len=%s)", o.Slot, o.Off, o.Len)
	case "Link":
		return fmt.Sprintf("Link(%s/%s->%s/%s)", o.D, o.N, o.D2, o.N2)
	case "AtomicCreate":
		return fmt.Sprintf("AtomicCreate(%s,%s,%s)", o.D, o.N, fsh.Short(fsh.Data[o.Data]))
	case "List":
		return fmt.Sprintf("List(%s)", o.D)
	}
	return o.K
}

const nSlots = 3

var offCodes = []string{"0", "1", "L-1", "L", "L+1"}
var lenCodes = []string{"0", "1", "L", "L+1"}

var alphabet = func() []Op {
	var ops []Op
	for _, d := range fsh.Dirs {
		for _, n := range fsh.NamesAB {
			ops = append(ops, Op{K: "Create", D: d, N: n})
		}
	}
	for s := 0; s < nSlots; s++ {
		for di := range fsh.Data {
			ops = append(ops, Op{K: "Append", Slot: s, Data: di})
		}
	}
	for s := 0; s < nSlots; s++ {
		ops = append(ops, Op{K: "Close", Slot: s})
	}
	for _, d := range fsh.Dirs {
		for _, n := range fsh.NamesAB {
			ops = append(ops, Op{K: "Open", D: d, N: n})
		}
	}
	for s := 0; s < nSlots; s++ {
		for _, o := range offCodes {
			for _, l := range lenCodes {
				ops = append(ops, Op{K: "ReadAt", Slot: s, Off: o, Len: l})
			}
		}
	}
	for _, d := range fsh.Dirs {
		for _, n := range fsh.NamesAB {
			ops = append(ops, Op{K: "Delete", D: d, N: n})
		}
	}
	for _, d := range fsh.Dirs {
		for _, n := range fsh.NamesAB {
			for _, d2 := range fsh.Dirs {
				for _, n2 := range fsh.NamesAB {
					if d != d2 || n != n2 {
						ops = append(ops, Op{K: "Link", D: d, N: n, D2: d2, N2: n2})
					}
				}
			}
		}
	}
	for _, d := range fsh.Dirs {
		for _, n := range fsh.NamesAB {
			for di := range fsh.Data {
				ops = append(ops, Op{K: "AtomicCreate", D: d, N: n, Data: di})
			}
		}
	}
	for _, d := range fsh.Dirs {
		ops = append(ops, Op{K: "List", D: d})
	}
	return ops
}()

func resolve(code string, L int) (uint64, bool) {
	var v int
	switch code {
	case "0":
		v = 0
	case "1":
		v = 1
	case "L-1":
		v = L - 1
	case "L":
		v = L
	case "L+1":
		v = L + 1
	}
	return uint64(v), v >= 0
}

// canonical: a code is used only if no earlier code has the same value
func canonical(codes []string, code string, L int) (uint64, bool) {
	v, ok := resolve(code, L)
	if !ok {
		return 0, false
	}
	for _, c := range codes {
		if c == code {
			return v, true
		}
		if w, ok2 := resolve(c, L); ok2 && w == v {
			return 0, false
		}
	}
	return v, true
}

// model state + harness slots
type mstate struct {
	m     *refmodel.FS
	slots [nSlots]int
}

func newM() *mstate {
	s := &mstate{m: refmodel.NewFS()}
	for _, d := range fsh.Dirs {
		s.m.Mkdir(d)
	}
	return s
}

func (s *mstate) freeSlot() int {
	for i, h := range s.slots {
		if h == 0 {
			return i
		}
	}
	return -1
}

// want describes the expected result of an op
type want struct {
	ok     bool   // Create/Link result
	data   []byte // ReadAt
	names  []string
	slot   int // slot filled by Create/Open (-1 none)
	off    uint64
	length uint64
}

// step applies op to the model; enabled=false if the op is not valid here.
func (s *mstate) step(o Op) (enabled bool, w want) {
	m := s.m
	w.slot = -1
	switch o.K {
	case "Create":
		fs := s.freeSlot()
		if fs < 0 {
			return false, w
		}
		h, ok := m.Create(o.D, o.N)
		w.ok = ok
		if ok {
			s.slots[fs] = h
			w.slot = fs
		}
	case "Append":
		h := s.slots[o.Slot]
		if h == 0 || !m.Handles[h].Append {
			return false, w
		}
		m.Append(h, fsh.Data[o.Data])
	case "Close":
		h := s.slots[o.Slot]
		if h == 0 {
			return false, w
		}
		m.Close(h)
		s.slots[o.Slot] = 0
	case "Open":
		fs := s.freeSlot()
		if fs < 0 || !m.Exists(o.D, o.N) {
			return false, w
		}
		s.slots[fs] = m.Open(o.D, o.N)
		w.slot = fs
	case "ReadAt":
		h := s.slots[o.Slot]
		if h == 0 || m.Handles[h].Append {
			return false, w
		}
		L := m.Len(h)
		off, ok1 := canonical(offCodes, o.Off, L)
		l, ok2 := canonical(lenCodes, o.Len, L)
		if !ok1 || !ok2 {
			return false, w
		}
		w.off, w.length = off, l
		w.data = m.ReadAt(h, off, l)
	case "Delete":
		if !m.Exists(o.D, o.N) {
			return false, w
		}
		m.Delete(o.D, o.N)
	case "Link":
		if !m.Exists(o.D, o.N) {
			return false, w
		}
		w.ok = m.Link(o.D, o.N, o.D2, o.N2)
	case "AtomicCreate":
		m.AtomicCreate(o.D, o.N, fsh.Data[o.Data])
	case "List":
		w.names = m.List(o.D)
	}
	return true, w
}

type istate struct {
	im    *fsh.Impl
	slots [nSlots]filesys.File
	nbuf  int // buffers handed to the implementation so far (decides their shape)
}

// do applies the op to an implementation and compares with w; returns problem text.
func (is *istate) do(o Op, w want, check bool) string {
	im := is.im
	var problem string
	p := libh.Try(func() {
		switch o.K {
		case "Create":
			f, ok := im.Create(o.D, o.N)
			if check && ok != w.ok {
				problem = fmt.Sprintf("returned ok=%v, reference %v", ok, w.ok)
			}
			if ok && w.slot >= 0 {
				is.slots[w.slot] = f
			}
		case "Append":
			buf := callerBuf(fsh.Data[o.Data], &is.nbuf)
			im.Append(is.slots[o.Slot], buf)
			for i := range buf { // the caller may reuse its buffer
				buf[i] ^= 0xFF
			}
		case "Close":
			im.Close(is.slots[o.Slot])
		case "Open":
			is.slots[w.slot] = im.Open(o.D, o.N)
		case "ReadAt":
			got := im.ReadAt(is.slots[o.Slot], w.off, w.length)
			if check && string(got) != string(w.data) {
				problem = fmt.Sprintf("returned %s, reference %s", fsh.Short(got), fsh.Short(w.data))
			}
			for i := range got { // the caller owns the result
				got[i] ^= 0xFF
			}
		case "Delete":
			im.Delete(o.D, o.N)
		case "Link":
			ok := im.Link(o.D, o.N, o.D2, o.N2)
			if check && ok != w.ok {
				problem = fmt.Sprintf("returned %v, reference %v", ok, w.ok)
			}
		case "AtomicCreate":
			buf := callerBuf(fsh.Data[o.Data], &is.nbuf)
			im.AtomicCreate(o.D, o.N, buf)
			for i := range buf {
				buf[i] ^= 0xFF
			}
		case "List":
			got := im.List(o.D)
			if check && strings.Join(got, "\x00") != strings.Join(w.names, "\x00") {
				problem = fmt.Sprintf("returned %v, reference %v", got, w.names)
			}
		}
	})
	if p != "" {
		return "panicked on a valid history: " + p
	}
	return problem
}

type cfg struct {
	Impls    []string
	Depth    int
	Validate bool
	Narrow   bool // reduced alphabet (one data value, whole-file reads, no List) explored deeper
}

// inNarrow selects the reduced alphabet used for the deep search.
func inNarrow(o Op) bool {
	switch o.K {
	case "Append", "AtomicCreate":
		return o.Data == 1
	case "ReadAt":
		return o.Off == "0" && o.Len == "L+1"
	case "List":
		return false
	case "Link":
		return o.N != o.N2 || o.D != o.D2
	}
	return true
}

var tmpRoot string
var validated int64

// callerBuf copies data into a buffer the caller owns: alternately with no spare capacity (len == cap, what
// make([]byte, n) or a sub-slice up to the end of an array gives) and with spare capacity (what append gives)
func callerBuf(data []byte, n *int) []byte {
	*n++
	if *n%2 == 1 {
		b := make([]byte, len(data))
		copy(b, data)
		return b
	}
	b := make([]byte, len(data), len(data)+16)
	copy(b, data)
	return b
}

func apply(c cfg, path []int) bfs.Result {
	ms := newM()
	wants := make([]want, len(path))
	for i, oi := range path {
		if c.Narrow && !inNarrow(alphabet[oi]) {
			return bfs.Result{Skip: true}
		}
		en, w := ms.step(alphabet[oi])
		if !en {
			return bfs.Result{Skip: true}
		}
		wants[i] = w
	}
	if len(path) == 0 {
		return bfs.Result{Key: ms.m.Key(ms.slots[:])}
	}
	last := alphabet[path[len(path)-1]]
	for _, name := range c.Impls {
		is := &istate{im: fsh.New(name, false)}
		for i, oi := range path {
			isLast := i == len(path)-1
			if prob := is.do(alphabet[oi], wants[i], isLast); prob != "" {
				if !isLast {
					prob = "(in prefix at " + alphabet[oi].String() + ") " + prob
				}
				return bfs.Result{Err: fmt.Errorf("%s: %s: %s", name, last, prob)}
			}
		}
		// open read handles must still see their inode
		for si, h := range ms.slots {
			if h != 0 && !ms.m.Handles[h].Append {
				var got []byte
				if p := libh.Try(func() { got = is.im.ReadAt(is.slots[si], 0, 1<<20) }); p != "" {
					return bfs.Result{Err: fmt.Errorf("%s: %s: afterwards ReadAt through open handle h%d panicked: %s", name, last, si, p)}
				}
				if wantD := ms.m.Inodes[ms.m.Handles[h].Ino]; string(got) != string(wantD) {
					return bfs.Result{Err: fmt.Errorf("%s: %s: afterwards open handle h%d reads %s, reference %s", name, last, si, fsh.Short(got), fsh.Short(wantD))}
				}
			}
		}
		dump, prob := is.im.Dump()
		if prob != "" {
			return bfs.Result{Err: fmt.Errorf("%s: %s: afterwards reading everything back panicked: %s", name, last, prob)}
		}
		if d := fsh.DiffDump(dump, ms.m.Dump()); d != "" {
			return bfs.Result{Err: fmt.Errorf("%s: %s: contents afterwards: %s", name, last, d)}
		}
	}
	if c.Validate {
		if err := validate(path, wants); err != nil {
			return bfs.Result{Err: fmt.Errorf("HARNESS simunix/kernel conformance: %v", err)}
		}
	}
	return bfs.Result{Key: ms.m.Key(ms.slots[:]), Outcome: last.K}
}

func validate(path []int, wants []want) error {
	is := &istate{im: fsh.New("dir", true)}
	for i, oi := range path {
		if prob := is.do(alphabet[oi], wants[i], false); prob != "" {
			return nil // already reported as a violation elsewhere
		}
	}
	is.im.Dump()
	dir, err := os.MkdirTemp(tmpRoot, "r")
	if err != nil {
		return err
	}
	defer os.RemoveAll(dir)
	validated++
	return simunix.ReplayOnKernel(is.im.K.Trace, dir, is.im.K.Tree())
}

type replayFile struct {
	Replay struct {
		Cfg  cfg    `json:"cfg"`
		Path []int  `json:"path"`
		Mode string `json:"mode"`
		Dirs string `json:"dirs"`
	} `json:"replay"`
}

func main() {
	tier := flag.String("tier", "quick", "")
	replay := flag.String("replay", "", "")
	workerCfg := flag.String("worker", "", "")
	flag.Parse()
	start := time.Now()
	tmpRoot = libh.TempDir("c12")
	defer os.RemoveAll(tmpRoot)
	if *workerCfg != "" {
		var c cfg
		json.Unmarshal([]byte(*workerCfg), &c)
		bfs.Serve(len(alphabet), func(p []int) bfs.Result { return apply(c, p) })
		os.RemoveAll(tmpRoot)
		return
	}
	if *replay != "" {
		var rf replayFile
		b, err := os.ReadFile(*replay)
		if err == nil {
			err = json.Unmarshal(b, &rf)
		}
		if err != nil {
			fmt.Fprintln(os.Stderr, err)
			os.Exit(3)
		}
		if rf.Replay.Dirs != "" && os.Getenv("VERIF_FS_DIRS") == "" {
			cmd := exec.Command(os.Args[0], os.Args[1:]...)
			cmd.Env = append(os.Environ(), "VERIF_FS_DIRS="+rf.Replay.Dirs)
			cmd.Stdout, cmd.Stderr = os.Stdout, os.Stderr
			err := cmd.Run()
			os.RemoveAll(tmpRoot)
			if ee, ok := err.(*exec.ExitError); ok {
				os.Exit(ee.ExitCode())
			}
			return
		}
		if rf.Replay.Mode == "size-sweep" {
			a := ev.NewAcc()
			sizeSweep(a, "quick")
			for _, v := range a.Violations {
				fmt.Println(v.Msg)
			}
			if len(a.Violations) > 0 {
				fmt.Printf("VIOLATION property=C12 replay=%s\n", *replay)
				os.RemoveAll(tmpRoot)
				os.Exit(1)
			}
			fmt.Println("replay: property holds on the size sweep")
			return
		}
		for i := 1; i <= len(rf.Replay.Path); i++ {
			r := apply(rf.Replay.Cfg, rf.Replay.Path[:i])
			fmt.Printf("%-40s err=%v\n", alphabet[rf.Replay.Path[i-1]], r.Err)
			if r.Err != nil {
				fmt.Printf("VIOLATION property=C12 replay=%s\n", *replay)
				os.RemoveAll(tmpRoot)
				os.Exit(1)
			}
		}
		fmt.Println("replay: property holds on this history")
		return
	}
	depth, deep := 3, 5
	if *tier == "thorough" {
		depth, deep = 5, 8
	}
	spelled := *tier == "spelled"
	if spelled {
		depth, deep = 2, 0
	}
	acc := ev.NewAcc()
	if os.Getenv("VERIF_FS_DIRS") == "" {
		sizeSweep(acc, *tier)
		// the same search once more with a directory spelled differently throughout ("d2/"): depth 2
		for _, dirs := range []string{"d,d2/", "./d,d2"} {
			cmd := exec.Command(os.Args[0], "-tier", "spelled")
			cmd.Env = append(os.Environ(), "VERIF_FS_DIRS="+dirs)
			cmd.Stderr = os.Stderr
			out, err := cmd.Output()
			if err != nil {
				fmt.Fprintln(os.Stderr, "harness error: spelled run:", err)
				os.Exit(3)
			}
			lines := strings.Split(strings.TrimSpace(string(out)), "\n")
			var a ev.Acc
			if json.Unmarshal([]byte(lines[len(lines)-1]), &a) != nil {
				fmt.Fprintln(os.Stderr, "harness error: spelled run: no result")
				os.Exit(3)
			}
			acc.Merge(&a)
		}
	}
	var c cfg
	for _, c = range []cfg{{Impls: fsh.ImplNames, Depth: depth, Validate: !spelled}, {Impls: fsh.ImplNames, Depth: deep, Validate: true, Narrow: true}} {
		if c.Depth == 0 {
			continue
		}
		cj, _ := json.Marshal(c)
		st, fails, err := bfs.SearchParallel(16, len(alphabet), c.Depth, start.Add(40*time.Minute), 400, []string{"-worker", string(cj)}, nil)
		if err != nil {
			fmt.Fprintln(os.Stderr, "harness error:", err)
			os.Exit(3)
		}
		acc.Add("states", st.States)
		acc.Add("transitions", st.Transitions)
		acc.SetMax("max_depth", int64(st.MaxDepth))
		acc.Add("traces_validated_against_impl", st.Transitions)
		for o := range st.Outcomes {
			acc.Set("operation_kinds_exercised", o)
		}
		if st.Capped == "internal deadline" {
			acc.NotExhaustive("internal deadline")
		}
		acc.Note(fmt.Sprintf("alphabet narrow=%v: search ended by fixpoint=%v cap=%q at depth %d with %d states (all valid histories up to that length covered)", c.Narrow, st.Fixpoint, st.Capped, c.Depth, st.States))
		for _, f := range fails {
			var names []string
			for _, oi := range f.Path {
				names = append(names, alphabet[oi].String())
			}
			if strings.Contains(f.Err.Error(), "HARNESS") {
				fmt.Fprintln(os.Stderr, "harness error:", strings.Join(names, "; "), f.Err)
				os.Exit(3)
			}
			impl := strings.SplitN(f.Err.Error(), ":", 2)[0]
			acc.Violate(ev.Violation{
				Key:    fmt.Sprintf("C12/%s/%s/%s%s", impl, failKind(f.Err.Error()), strings.Join(names, ";"), os.Getenv("VERIF_FS_DIRS")),
				Msg:    fmt.Sprintf("history [%s]: %v", strings.Join(names, "; "), f.Err),
				Replay: map[string]any{"cfg": c, "path": f.Path, "ops": names, "dirs": os.Getenv("VERIF_FS_DIRS")},
			})
		}
	}
	if spelled {
		acc.EmitChild()
		os.RemoveAll(tmpRoot)
		return
	}
	acc.Sample(map[string]any{"alphabet_size": len(alphabet), "example_ops": []string{alphabet[0].String(), alphabet[5].String(), alphabet[30].String(), alphabet[100].String()}, "depth_full_alphabet": depth, "depth_narrow_alphabet": deep, "impls": c.Impls}, 3)
	os.Exit(acc.Done(ev.Finish{
		Prop: "C12", Tier: *tier, Level: "model_checking", Start: start,
		Rule:        "explicit-state BFS over valid histories of Create, Append, Close, Open, ReadAt (offsets 0,1,L-1,L,L+1 x lengths 0,1,L,L+1), Delete, Link, AtomicCreate, List on dirs {d,d2} (one directory name a prefix of the other), names {f, f.tmp}, data {\"\",\"a\",\"bc\",5000 bytes}, 3 handle slots (full alphabet to the first depth bound; a reduced alphabet -- one data value, whole-file reads, no List -- to a deeper bound); an operation is enabled only when its documented precondition holds in the reference model; every history replayed on fresh real MemFs and DirFs (over simunix), directly and through the package-level wrappers; passed buffers and returned slices are overwritten by the caller after each call; after the last operation its result, every open read handle and a full read-back of both directories are compared with the reference model; the simunix trace of every history is replayed on the real kernel; plus a size sweep: files of every size on a grid around 4 KiB / 64 KiB (/ 1 MiB thorough), written whole, atomically or in pieces, read back at every grid offset x grid length; plus the full alphabet to depth 2 with one directory spelled \"d2/\" and \"./d\" throughout",
		Assumptions: []string{"simunix models the kernel for DirFs (validated per history by replay on the real kernel)", "state identity = reference-model state (names, link structure, contents, slots); merging is justified by the full read-back equality checked on every transition"},
	}))
}

// sizeSweep: every (file size, way of writing it, read offset, read length) on a
// grid around the sizes at which an implementation could change strategy (page,
// 64 KiB, 1 MiB), on every implementation, against the byte-exact reference.
func sizeSweep(acc *ev.Acc, tier string) {
	pat := func(n int) []byte {
		b := make([]byte, n)
		for i := range b {
			x := uint32(i) * 2654435761
			b[i] = byte(x>>24) ^ byte(x>>13)
		}
		return b
	}
	marks := []int{0, 1, 4095, 4096, 4097, 65535, 65536, 65537, 131072, 200000}
	if tier == "thorough" {
		marks = append(marks, 1<<20-1, 1<<20, 1<<20+1, 3000000)
	}
	lens := []uint64{0, 1, 4096, 65535, 65536, 65537, 131073, 1 << 20, 1 << 22}
	for _, name := range fsh.ImplNames {
		for _, L := range marks {
			for _, how := range []string{"atomic", "append-whole", "append-pieces"} {
				im := fsh.New(name, false)
				data := pat(L)
				var perr string
				perr = libh.Try(func() {
					switch how {
					case "atomic":
						im.AtomicCreate("d", "f", append([]byte(nil), data...))
					case "append-whole":
						f, _ := im.Create("d", "f")
						im.Append(f, append([]byte(nil), data...))
						im.Close(f)
					case "append-pieces":
						f, _ := im.Create("d", "f")
						rest := data
						for _, sz := range []int{1, 4095, 61440, 65537} {
							if len(rest) == 0 {
								break
							}
							if sz > len(rest) {
								sz = len(rest)
							}
							im.Append(f, append([]byte(nil), rest[:sz]...))
							rest = rest[sz:]
						}
						if len(rest) > 0 {
							im.Append(f, append([]byte(nil), rest...))
						}
						im.Close(f)
					}
				})
				key := fmt.Sprintf("C12/%s/size-sweep/%s/L=%d", name, how, L)
				if perr != "" {
					acc.Violate(ev.Violation{Key: key + "/write-panic", Msg: fmt.Sprintf("%s: writing a %d-byte file by %s panicked: %s", name, L, how, perr), Replay: map[string]any{"mode": "size-sweep", "impl": name, "L": L, "how": how}})
					continue
				}
				var fd filesys.File
				libh.Try(func() { fd = im.Open("d", "f") })
				offs := map[uint64]bool{}
				for _, m := range marks {
					offs[uint64(m)] = true
				}
				for _, d := range []int{-1, 0, 1} {
					if L+d >= 0 {
						offs[uint64(L+d)] = true
					}
				}
				for off := range offs {
					for _, ln := range lens {
						var got []byte
						p := libh.Try(func() { got = im.ReadAt(fd, off, ln) })
						var want []byte
						if off < uint64(L) {
							end := off + ln
							if end > uint64(L) {
								end = uint64(L)
							}
							want = data[off:end]
						}
						acc.Add("transitions", 1)
						acc.Add("size_sweep_reads", 1)
						if p != "" || string(got) != string(want) {
							first := 0
							for first < len(got) && first < len(want) && got[first] == want[first] {
								first++
							}
							acc.Violate(ev.Violation{Key: fmt.Sprintf("%s/ReadAt(%d,%d)", key, off, ln), Msg: fmt.Sprintf("%s: file of %d bytes written by %s: ReadAt(off=%d,len=%d) returned %d bytes (panic=%q), the reference has %d; first difference at byte %d of the result", name, L, how, off, ln, len(got), p, len(want), first), Replay: map[string]any{"mode": "size-sweep", "impl": name, "L": L, "how": how, "off": off, "len": ln}})
						}
					}
				}
				// offsets and lengths at the edges of uint64 / int64 (small files only: the answer is "what exists from off on")
				if L <= 4096 && how == "atomic" {
					for _, off := range []uint64{0, uint64(L), 1 << 62, 1<<63 - 1, 1 << 63, 1<<64 - 1} {
						for _, ln := range []uint64{1, 1 << 62, 1 << 63, 1<<64 - 1, 1<<64 - 1 - off} {
							var got []byte
							p := libh.Try(func() { got = im.ReadAt(fd, off, ln) })
							var want []byte
							if off < uint64(L) {
								end := uint64(L)
								if ln < uint64(L)-off {
									end = off + ln
								}
								want = data[off:end]
							}
							acc.Add("transitions", 1)
							acc.Add("size_sweep_reads", 1)
							if p != "" || string(got) != string(want) {
								acc.Violate(ev.Violation{Key: fmt.Sprintf("%s/ReadAt-edge(%d,%d)", key, off, ln), Msg: fmt.Sprintf("%s: file of %d bytes: ReadAt(off=%d,len=%d) returned %d bytes (panic=%q), the reference has %d", name, L, off, ln, len(got), p, len(want)), Replay: map[string]any{"mode": "size-sweep", "impl": name, "L": L, "how": how, "off": off, "len": ln}})
							}
						}
					}
				}
				libh.Try(func() { im.Close(fd) })
			}
		}
		// file names up to NAME_MAX: every operation that takes a name treats them alike
		for _, nl := range []int{1, 200, 251, 252, 254, 255} {
			im := fsh.New(name, false)
			nm := strings.Repeat("n", nl)
			var got []byte
			var listed []string
			p := libh.Try(func() {
				im.AtomicCreate("d", nm, []byte("v1"))
				im.AtomicCreate("d", nm, []byte("v2"))
				f := im.Open("d", nm)
				got = im.ReadAt(f, 0, 10)
				im.Close(f)
				listed = im.List("d")
				im.Delete("d", nm)
			})
			acc.Add("transitions", 6)
			if p != "" || string(got) != "v2" || len(listed) != 1 || listed[0] != nm {
				acc.Violate(ev.Violation{Key: fmt.Sprintf("C12/%s/name-sweep/len=%d", name, nl), Msg: fmt.Sprintf("%s: AtomicCreate twice / Open / ReadAt / List / Delete of a %d-byte file name: panic=%q read=%q listed %d names (Create, Open, Delete and Link accept such a name)", name, nl, p, got, len(listed)), Replay: map[string]any{"mode": "size-sweep", "impl": name, "L": 0, "how": "atomic"}})
			}
		}
	}
}

func failKind(e string) string {
	switch {
	case strings.Contains(e, "attempt to use file using"):
		return "panic-mode"
	case strings.Contains(e, "use of unopened file"), strings.Contains(e, "close of unopened"):
		return "panic-unopened"
	case strings.Contains(e, "panicked"):
		return "panic"
	case strings.Contains(e, "contents afterwards"):
		return "contents"
	case strings.Contains(e, "open handle"):
		return "handle"
	}
	return "result"
}
