// c17: goose command: exit status, file placement, partial output, no rewrite
// of unchanged files, source selection.  Explicit-state BFS over invocations
// of the real binary (a subprocess) from every reached out-directory state.
package main

import (
	"bytes"
	"crypto/sha1"
	"encoding/json"
	"flag"
	"fmt"
	"go/ast"
	"go/parser"
	"go/token"
	"os"
	"os/exec"
	"path/filepath"
	"regexp"
	"sort"
	"strings"
	"sync"
	"syscall"
	"time"

	"verif/ev"
)

const fixtureSrc = "/verif/fixtures/c17mod"

// fixture is a private copy of fixtureSrc (a broken goose may write into the module it translates)
var fixture string

const modPath = "example.com/fix"

type Event struct {
	Pats   []string `json:"pats"`
	Ignore bool     `json:"ignore"`
	Flag   string   `json:"flag"`
	DirArg bool     `json:"dirarg"`        // run from elsewhere with -dir <module>
	Out    string   `json:"out,omitempty"` // "" absolute -out; "rel": -out relative to the working directory; "default": no -out, run in the out dir (needs DirArg)
	Sub    string   `json:"sub,omitempty"` // run from / point -dir at this sub-directory of the module (go.mod is in a parent)
}

func (e Event) String() string {
	s := strings.Join(e.Pats, " ")
	if e.Ignore {
		s = "-ignore-errors " + s
	}
	if e.Flag != "" {
		s = e.Flag + " " + s
	}
	if e.DirArg {
		s = "-dir <mod> " + s
	}
	if e.Out != "" {
		s = "[-out " + e.Out + "] " + s
	}
	if e.Sub != "" {
		s = "[in " + e.Sub + "] " + s
	}
	return s
}

var classOf = map[string]string{
	modPath + "/good": "ok", modPath + "/bad": "conv", modPath + "/bad_minus": "ok",
	modPath + "/nested/inner": "ok", modPath + "/nested/inner2": "ok", modPath + "/loadfail": "load",
	modPath + "/tags": "ok", modPath + "/my-pkg.v2": "ok",
	// a nested module in which two packages map to the same Coq path
	"example.com/coll/a-b": "ok", "example.com/coll/a.b": "ok", "example.com/coll/other": "ok",
}

// sub-directory of the fixture from which a package of a nested module is translated on its own
func subOf(pkg string) string {
	if strings.HasPrefix(pkg, "example.com/coll/") {
		return "collmod"
	}
	return ""
}

// the documented path mapping, written independently of the code under test
func coqPath(importPath string) string {
	p := strings.NewReplacer(".", "_", "-", "_").Replace(importPath)
	return p + ".v"
}

var gooseBin string
var scratch string

type State map[string]string // relative path -> content

func (s State) key() string {
	var ks []string
	for k := range s {
		ks = append(ks, k)
	}
	sort.Strings(ks)
	h := sha1.New()
	for _, k := range ks {
		fmt.Fprintf(h, "%s\x00%x\x00", k, sha1.Sum([]byte(s[k])))
	}
	return fmt.Sprintf("%x", h.Sum(nil))
}

func (s State) clone() State {
	n := State{}
	for k, v := range s {
		n[k] = v
	}
	return n
}

var oldTime = time.Date(2001, 2, 3, 4, 5, 6, 0, time.UTC)

type runResult struct {
	exit   int
	stderr string
	after  State
	stamps map[string]string // path -> "ino:mtime" after
	before map[string]string
	dirs   map[string]bool // directories present afterwards (relative)
	modes  map[string]os.FileMode
}

// the harness (and so the goose child) runs under this umask; a file goose creates must not carry a bit it masks
const harnessUmask = 0o027

var tmpCounter int
var tmpMu sync.Mutex

func fresh() string {
	tmpMu.Lock()
	tmpCounter++
	n := tmpCounter
	tmpMu.Unlock()
	d := filepath.Join(scratch, fmt.Sprintf("o.%06d-x", n))
	os.MkdirAll(d, 0755)
	return d
}

func stamp(p string) string {
	fi, err := os.Stat(p)
	if err != nil {
		return ""
	}
	return fmt.Sprintf("%d:%d", inode(fi), fi.ModTime().UnixNano())
}

func invoke(prior State, e Event) runResult {
	out := fresh()
	defer os.RemoveAll(out)
	before := map[string]string{}
	for p, c := range prior {
		fp := filepath.Join(out, p)
		os.MkdirAll(filepath.Dir(fp), 0755)
		os.WriteFile(fp, []byte(c), 0644)
		os.Chtimes(fp, oldTime, oldTime)
		before[p] = stamp(fp)
	}
	args := []string{"-out", out}
	switch e.Out {
	case "rel":
		from := fixture
		if e.DirArg {
			from = scratch
		}
		rel, _ := filepath.Rel(from, out)
		args = []string{"-out", rel}
	case "default":
		args = nil
	}
	if e.Ignore {
		args = append(args, "-ignore-errors")
	}
	if e.Flag != "" {
		args = append(args, e.Flag)
	}
	cwd := filepath.Join(fixture, e.Sub)
	if e.DirArg {
		args = append(args, "-dir", filepath.Join(fixture, e.Sub))
		cwd = scratch
	}
	if e.Out == "default" {
		cwd = out
	}
	args = append(args, e.Pats...)
	cmd := exec.Command(gooseBin, args...)
	cmd.Dir = cwd
	var errb bytes.Buffer
	cmd.Stderr = &errb
	cmd.Stdout = &errb
	err := cmd.Run()
	r := runResult{stderr: errb.String(), after: State{}, stamps: map[string]string{}, before: before, dirs: map[string]bool{}, modes: map[string]os.FileMode{}}
	if err != nil {
		if ee, ok := err.(*exec.ExitError); ok {
			r.exit = ee.ExitCode()
		} else {
			r.exit = -1
			r.stderr += err.Error()
		}
	}
	filepath.Walk(out, func(p string, info os.FileInfo, err error) error {
		if err == nil && info.IsDir() && p != out {
			rel, _ := filepath.Rel(out, p)
			r.dirs[rel] = true
		}
		if err == nil && !info.IsDir() {
			rel, _ := filepath.Rel(out, p)
			b, _ := os.ReadFile(p)
			r.after[rel] = string(b)
			r.stamps[rel] = stamp(p)
			r.modes[rel] = info.Mode().Perm()
		}
		return nil
	})
	return r
}

// go list is the ground truth for which packages the patterns select
var listCache sync.Map

func goList(e Event) []string {
	key := e.Sub + "\x01" + strings.Join(e.Pats, "\x00")
	if v, ok := listCache.Load(key); ok {
		return v.([]string)
	}
	cmd := exec.Command("go", append([]string{"list", "-e", "-tags", "goose", "-f", "{{.ImportPath}}"}, e.Pats...)...)
	cmd.Dir = filepath.Join(fixture, e.Sub)
	out, _ := cmd.Output()
	var pk []string
	for _, l := range strings.Split(strings.TrimSpace(string(out)), "\n") {
		if l != "" {
			pk = append(pk, l)
		}
	}
	listCache.Store(key, pk)
	return pk
}

// solo reference content of one package under given flags (fresh out dir)
var soloCache sync.Map

func solo(pkg, flag string, ignore bool) (string, bool) {
	key := fmt.Sprint(pkg, "|", flag, "|", ignore)
	if v, ok := soloCache.Load(key); ok {
		c := v.(*string)
		return *c, c != nil
	}
	r := invoke(State{}, Event{Pats: []string{pkg}, Flag: flag, Ignore: ignore, Sub: subOf(pkg)})
	c, ok := r.after[coqPath(pkg)]
	if !ok {
		soloCache.Store(key, (*string)(nil))
		return "", false
	}
	soloCache.Store(key, &c)
	return c, true
}

var defRe = regexp.MustCompile(`(?m)^(?:Definition|Notation|Theorem) ([A-Za-z0-9_']+)`)

func check(prior State, e Event, r runResult) (kind, msg string) {
	if r.exit != 0 && r.exit != 1 {
		return "crash", fmt.Sprintf("exit status %d: %s", r.exit, tail(r.stderr))
	}
	for p, m := range r.modes {
		if _, existed := prior[p]; !existed && m&harnessUmask != 0 {
			return "mode-ignores-umask", fmt.Sprintf("%s was created with mode %04o under umask %04o", p, m, harnessUmask)
		}
	}
	pkgs := goList(e)
	want := prior.clone()
	wantExit := 0
	if len(pkgs) == 0 {
		wantExit = 1
	}
	unjudged := map[string]bool{}
	// two matched packages with one Coq path: "one file per package" and "exit 0" cannot both hold, a refusal (exit 1) is
	// the only answer that loses nothing silently; which translation ends up at the path is not judged
	byPath := map[string][]string{}
	for _, p := range pkgs {
		byPath[coqPath(p)] = append(byPath[coqPath(p)], p)
	}
	// a directory in the way of an output file (the prior state has files below the path): that package cannot be
	// written and the status is 1, every other package is handled as usual
	blocked := func(cp string) bool {
		for q := range prior {
			if strings.HasPrefix(q, cp+"/") {
				return true
			}
		}
		return false
	}
	for _, p := range pkgs {
		cls, known := classOf[p]
		if known && cls != "load" && len(dedupStr(byPath[coqPath(p)])) > 1 {
			wantExit = 1
			unjudged[coqPath(p)] = true
			delete(want, coqPath(p))
			continue
		}
		if known && cls != "load" && blocked(coqPath(p)) {
			if cls == "ok" || e.Ignore {
				wantExit = 1
			}
			if cls == "conv" {
				wantExit = 1
			}
			continue
		}
		if !known {
			cls = "load"
		}
		switch cls {
		case "ok":
			c, ok := solo(p, e.Flag, false)
			if !ok {
				return "HARNESS", "no solo output for " + p
			}
			want[coqPath(p)] = c
		case "conv":
			wantExit = 1
			if e.Ignore {
				c, ok := solo(p, e.Flag, true)
				if !ok {
					return "partial", fmt.Sprintf("-ignore-errors wrote no file for %s in a solo run", p)
				}
				want[coqPath(p)] = c
			}
		case "load":
			wantExit = 1
			// with -ignore-errors goose writes a stray file for a package that failed to load;
			// the property speaks of conversion errors only: not judged
			unjudged[coqPath("")] = true
			unjudged["..v"] = true
		}
	}
	if r.exit != wantExit {
		return "exit-status", fmt.Sprintf("exit status %d, want %d (matched packages %v)", r.exit, wantExit, pkgs)
	}
	for p, c := range want {
		got, ok := r.after[p]
		if !ok {
			return "missing-file", fmt.Sprintf("%s not present afterwards", p)
		}
		if got != c {
			return "content", fmt.Sprintf("%s differs from the solo translation of that package (first difference at byte %d)", p, firstDiff(got, c))
		}
	}
	for p := range r.after {
		if _, ok := want[p]; !ok && !unjudged[p] {
			return "extra-file", fmt.Sprintf("unexpected file %s written", p)
		}
	}
	// no directory but the ancestors of the files that are (or were) there
	wantDirs := map[string]bool{}
	addAnc := func(p string) {
		for d := filepath.Dir(p); d != "." && d != "/"; d = filepath.Dir(d) {
			wantDirs[d] = true
		}
	}
	for p := range want {
		addAnc(p)
	}
	for p := range prior {
		addAnc(p)
	}
	for p := range unjudged {
		addAnc(p)
	}
	for d := range r.dirs {
		if !wantDirs[d] {
			return "extra-directory", fmt.Sprintf("directory %s was created although no file belongs there", d)
		}
	}
	// a file whose content did not change must not have been rewritten
	for p, c := range prior {
		if r.after[p] == c && r.stamps[p] != r.before[p] {
			return "rewritten", fmt.Sprintf("%s has unchanged content but was rewritten (inode:mtime %s -> %s)", p, r.before[p], r.stamps[p])
		}
	}
	return "", ""
}

func dedupStr(xs []string) []string {
	seen := map[string]bool{}
	var out []string
	for _, x := range xs {
		if !seen[x] {
			seen[x] = true
			out = append(out, x)
		}
	}
	return out
}

func firstDiff(a, b string) int {
	i := 0
	for i < len(a) && i < len(b) && a[i] == b[i] {
		i++
	}
	return i
}

func tail(s string) string {
	if len(s) > 400 {
		return "…" + s[len(s)-400:]
	}
	return s
}

// static cross-checks that do not depend on the out-dir state
func staticChecks(acc *ev.Acc) {
	// partial output == the same package with the failing declaration removed
	for _, fl := range []string{"", "-typecheck", "-source-comments", "-skip-interfaces"} {
		part, ok1 := solo(modPath+"/bad", fl, true)
		ref, ok2 := solo(modPath+"/bad_minus", fl, false)
		acc.Add("partial_output_comparisons", 1)
		norm := func(s string) string {
			s = strings.ReplaceAll(s, "bad_minus", "bad")
			return s
		}
		if !ok1 || !ok2 || norm(part) != norm(ref) {
			acc.Violate(ev.Violation{Key: "C17/partial/" + fl, Msg: fmt.Sprintf("goose %s -ignore-errors ./bad: the partial file is not exactly the declarations that translated (differs from the translation of the same package without the failing declaration; present=%v/%v, first difference at byte %d)", fl, ok1, ok2, firstDiff(norm(part), norm(ref))), Replay: map[string]any{"mode": "static"}})
		}
	}
	// build-tag selection: definitions == top-level functions of the files `go list -tags goose` selects
	cmd := exec.Command("go", "list", "-tags", "goose", "-f", "{{range .GoFiles}}{{.}} {{end}}", "./tags")
	cmd.Dir = fixture
	out, err := cmd.Output()
	if err != nil {
		fmt.Fprintln(os.Stderr, "harness error: go list:", err)
		os.Exit(3)
	}
	wantDefs := map[string]bool{}
	for _, f := range strings.Fields(string(out)) {
		fset := token.NewFileSet()
		af, err := parser.ParseFile(fset, filepath.Join(fixture, "tags", f), nil, 0)
		if err != nil {
			continue
		}
		for _, d := range af.Decls {
			if fd, ok := d.(*ast.FuncDecl); ok {
				wantDefs[fd.Name.Name] = true
			}
		}
	}
	for _, dirArg := range []bool{false, true} {
		r := invoke(State{}, Event{Pats: []string{"./tags"}, DirArg: dirArg})
		got := map[string]bool{}
		for _, m := range defRe.FindAllStringSubmatch(r.after[coqPath(modPath+"/tags")], -1) {
			got[m[1]] = true
		}
		acc.Add("source_selection_comparisons", 1)
		if fmt.Sprint(keys(got)) != fmt.Sprint(keys(wantDefs)) {
			acc.Violate(ev.Violation{Key: fmt.Sprintf("C17/tags/dirarg=%v", dirArg), Msg: fmt.Sprintf("./tags (dir mode %v): definitions %v, but `go list -tags goose` selects files defining %v", dirArg, keys(got), keys(wantDefs)), Replay: map[string]any{"mode": "static"}})
		}
	}
}

func keys(m map[string]bool) []string {
	var o []string
	for k := range m {
		o = append(o, k)
	}
	sort.Strings(o)
	return o
}

func events(tier string) []Event {
	pats := [][]string{
		{"./good"}, {"./bad"}, {"./good", "./bad"}, {"./bad", "./good"}, {"./..."}, {"./nested/..."},
		{modPath + "/good"}, {"./loadfail"}, {"./good", "./loadfail"}, {"./tags"}, {"./my-pkg.v2"}, {"./nomatch/..."}, {"./good", "./good"},
	}
	flags := []string{""}
	if tier == "thorough" {
		flags = []string{"", "-typecheck", "-source-comments", "-skip-interfaces"}
	}
	var out []Event
	for _, p := range pats {
		for _, ig := range []bool{false, true} {
			for _, fl := range flags {
				out = append(out, Event{Pats: p, Ignore: ig, Flag: fl})
			}
		}
	}
	out = append(out, Event{Pats: []string{"./good"}, Flag: "-typecheck"})
	out = append(out, Event{Pats: []string{"./good", "./bad"}, DirArg: true}, Event{Pats: []string{"./..."}, DirArg: true, Ignore: true}, Event{Pats: []string{modPath + "/nested/inner2"}, DirArg: true})
	// a nested module with two packages on one Coq path
	for _, ig := range []bool{false, true} {
		out = append(out, Event{Pats: []string{"./..."}, Sub: "collmod", Ignore: ig}, Event{Pats: []string{"./a.b", "./a-b"}, Sub: "collmod", Ignore: ig},
			Event{Pats: []string{"./a-b", "./other"}, Sub: "collmod", Ignore: ig})
	}
	// the working directory / -dir is a sub-directory of the module (go.mod in a parent)
	for _, da := range []bool{false, true} {
		out = append(out, Event{Pats: []string{"./inner"}, Sub: "nested", DirArg: da}, Event{Pats: []string{"./..."}, Sub: "nested", DirArg: da},
			Event{Pats: []string{modPath + "/good", "./inner"}, Sub: "nested", DirArg: da})
	}
	for _, om := range []string{"rel", "default"} {
		for _, da := range []bool{false, true} {
			if om == "default" && !da {
				continue
			}
			out = append(out, Event{Pats: []string{"./good", "./bad"}, DirArg: da, Out: om}, Event{Pats: []string{"./..."}, DirArg: da, Ignore: true, Out: om})
		}
	}
	return out
}

type trans struct {
	from State
	path []Event
	ev   Event
	res  runResult
	kind string
	msg  string
}

func main() {
	tier := flag.String("tier", "quick", "")
	replay := flag.String("replay", "", "")
	flag.StringVar(&gooseBin, "bin", "", "goose binary")
	flag.Parse()
	start := time.Now()
	syscall.Umask(harnessUmask)
	scratch, _ = os.MkdirTemp("", "verif-c17-")
	defer os.RemoveAll(scratch)
	fixture = filepath.Join(scratch, "module")
	if out, err := exec.Command("cp", "-r", fixtureSrc, fixture).CombinedOutput(); err != nil {
		fmt.Fprintln(os.Stderr, "harness error: copying the fixture:", err, string(out))
		os.Exit(3)
	}
	if *replay != "" {
		var rf struct {
			Replay struct {
				Mode string  `json:"mode"`
				Path []Event `json:"path"`
				Seed State   `json:"seed"`
			} `json:"replay"`
		}
		b, _ := os.ReadFile(*replay)
		if json.Unmarshal(b, &rf) != nil {
			os.Exit(3)
		}
		bad := false
		if rf.Replay.Mode == "static" {
			acc := ev.NewAcc()
			staticChecks(acc)
			for _, v := range acc.Violations {
				fmt.Println(v.Msg)
				bad = true
			}
		} else {
			st := rf.Replay.Seed
			if st == nil {
				st = State{}
			}
			for _, e := range rf.Replay.Path {
				r := invoke(st, e)
				k, m := check(st, e, r)
				fmt.Printf("goose %s -> exit %d  %s %s\n", e, r.exit, k, m)
				if k != "" {
					bad = true
					break
				}
				st = r.after
			}
		}
		os.RemoveAll(scratch)
		if bad {
			fmt.Printf("VIOLATION property=C17 replay=%s\n", *replay)
			os.Exit(1)
		}
		fmt.Println("replay: property holds on this history")
		return
	}
	acc := ev.NewAcc()
	staticChecks(acc)
	evs := events(*tier)
	depth := 2
	good, gok := solo(modPath+"/good", "", false)
	if !gok {
		// nothing else can be judged if even the simplest invocation does not put its file where it belongs
		r := invoke(State{}, Event{Pats: []string{modPath + "/good"}})
		var have []string
		for p := range r.after {
			have = append(have, p)
		}
		acc.Violate(ev.Violation{Key: "C17/baseline/missing-file", Msg: fmt.Sprintf("goose -out <out> %s/good (exit %d) wrote no file at <out>/%s; files under <out> afterwards: %v (the -out directory given contains '-' and '.' characters); stderr: %s", modPath, r.exit, coqPath(modPath+"/good"), have, tail(r.stderr)), Replay: map[string]any{"mode": "static"}})
		os.RemoveAll(scratch)
		os.Exit(acc.Done(ev.Finish{Prop: "C17", Tier: *tier, Level: "model_checking", Start: start, Rule: "baseline invocation failed; nothing else explored", Assumptions: []string{}}))
	}
	seeds := []State{
		{},
		{coqPath(modPath + "/good"): "(* garbage left by an older version *)\n", "example_com/fix/stale_pkg.v": "(* stale *)\n"},
		{coqPath(modPath + "/good"): good, coqPath(modPath + "/bad"): "(* old partial output *)\n"},
		// prior files related to the new content: longer with the new content as a prefix, a proper prefix of it, same length with another last byte, doubled
		{coqPath(modPath + "/good"): good + "(* trailing text of an older version *)\n"},
		{coqPath(modPath + "/good"): good[:len(good)/2]},
		{coqPath(modPath + "/good"): good[:len(good)-1] + "#"},
		{coqPath(modPath + "/good"): good + good, coqPath(modPath + "/nested/inner"): "\n"},
		// a directory where an output file belongs
		{coqPath(modPath+"/good") + "/placeholder": "in the way\n"},
	}
	type node struct {
		st   State
		seed State
		path []Event
	}
	seen := map[string]bool{}
	var frontier []node
	for _, s := range seeds {
		seen[s.key()] = true
		frontier = append(frontier, node{s, s, nil})
	}
	states, transitions := int64(len(seeds)), int64(0)
	for d := 0; d < depth && len(frontier) > 0; d++ {
		type job struct {
			n node
			e Event
		}
		var jobs []job
		for _, n := range frontier {
			for _, e := range evs {
				jobs = append(jobs, job{n, e})
			}
		}
		results := make([]runResult, len(jobs))
		kinds := make([][2]string, len(jobs))
		var wg sync.WaitGroup
		sem := make(chan struct{}, 16)
		for i := range jobs {
			wg.Add(1)
			sem <- struct{}{}
			go func(i int) {
				defer wg.Done()
				defer func() { <-sem }()
				results[i] = invoke(jobs[i].n.st, jobs[i].e)
				k, m := check(jobs[i].n.st, jobs[i].e, results[i])
				kinds[i] = [2]string{k, m}
			}(i)
		}
		wg.Wait()
		var next []node
		for i, j := range jobs {
			transitions++
			acc.Set("exit_statuses", fmt.Sprint(results[i].exit))
			if kinds[i][0] == "HARNESS" {
				fmt.Fprintln(os.Stderr, "harness error:", kinds[i][1])
				os.Exit(3)
			}
			path := append(append([]Event(nil), j.n.path...), j.e)
			if kinds[i][0] != "" {
				var ps []string
				for _, e := range path {
					ps = append(ps, "goose "+e.String())
				}
				acc.Violate(ev.Violation{Key: fmt.Sprintf("C17/%s/%s/seed%s", kinds[i][0], strings.Join(ps, ";"), j.n.seed.key()[:6]), Msg: fmt.Sprintf("after [%s] from a prior out dir with %d files: %s", strings.Join(ps, "; "), len(j.n.seed), kinds[i][1]), Replay: map[string]any{"path": path, "seed": j.n.seed}})
				continue
			}
			k := results[i].after.key()
			if !seen[k] {
				seen[k] = true
				states++
				next = append(next, node{results[i].after, j.n.seed, path})
			}
		}
		frontier = next
	}
	acc.Add("states", states)
	acc.Add("transitions", transitions)
	acc.Add("traces_validated_against_impl", transitions)
	acc.Sample(map[string]any{"events": len(evs), "example_events": []string{evs[0].String(), evs[5].String(), evs[len(evs)-1].String()}, "seed_states": len(seeds), "depth": depth}, 2)
	if len(frontier) > 0 {
		acc.Note(fmt.Sprintf("depth cap %d reached with %d unexpanded states (all invocation sequences up to that length from every seed state covered)", depth, len(frontier)))
	}
	os.RemoveAll(scratch)
	os.Exit(acc.Done(ev.Finish{
		Prop: "C17", Tier: *tier, Level: "model_checking", Start: start,
		Rule:        "explicit-state BFS (depth 2) over invocations of the real goose binary, run under umask 027 (a created file must not carry a masked bit), on a fixture module (good, conversion-error, load-error, nested, build-tag-split, dashed/dotted package path, and a nested module whose packages a-b and a.b share one Coq path: refusal expected; one seed state has a directory where an output file belongs: that package fails, all others are handled as usual): 13 pattern sets (relative, recursive, import path, mixed good/bad in both orders, duplicate, non-matching) x -ignore-errors x content flags (thorough: all four) x cwd / -dir x -out absolute / relative to the working directory / defaulted x module root / a sub-directory of the module as working directory or -dir, on a private copy of the fixture, from seven seed out-dir states (empty; garbage + stale file; identical + old partial file; new content + trailing text; proper prefix; same length, other last byte; doubled); state = out-dir tree (paths, content); oracle per transition: exit 0 iff every package selected by `go list -tags goose` translated, one file per translated package at the documented path with the content of its solo translation, failing packages write nothing unless -ignore-errors, no other file touched or created, no directory created but the ancestors of those files, unchanged content keeps inode and mtime; plus: partial output == translation of the package without the failing declaration, definitions of the build-tag package == functions of the files `go list -tags goose` selects",
		Assumptions: []string{"file content is judged against the binary's own solo translation (placement, exit status and rewrite behaviour are what this property is about)", "a package that fails to load under -ignore-errors writes a stray file; the property speaks of conversion errors only, so that file is not judged", "permission-based out-dir states are not explored (the sandbox runs as root)"},
	}))
}
