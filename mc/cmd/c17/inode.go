package main

import (
	"os"
	"syscall"
)

func inode(fi os.FileInfo) uint64 {
	if st, ok := fi.Sys().(*syscall.Stat_t); ok {
		return st.Ino
	}
	return 0
}
