// c10: concurrent disk operations are linearizable per block.
// Every interleaving (up to a preemption bound) of small client scenarios on
// the real MemDisk (statement-level preemption, chunked copies) and the real
// FileDisk (over simunix, one atomic step per system call).
package main

import (
	"encoding/json"
	"flag"
	"fmt"
	"os"
	"sort"
	"strings"
	"sync/atomic"
	"time"

	"github.com/anishathalye/porcupine"
	"github.com/goose-lang/goose/machine/disk"

	"verif/csched"
	"verif/ev"
	"verif/hpar"
	"verif/mcx"
	"verif/simunix"
)

type Op struct {
	Kind string `json:"k"` // W R RT S
	A    uint64 `json:"a"`
}

func (o Op) String() string {
	if o.Kind == "S" || o.Kind == "B" {
		return o.Kind
	}
	return fmt.Sprintf("%s%d", o.Kind, o.A)
}

type Scenario struct {
	Impl    string `json:"impl"`
	Threads [][]Op `json:"threads"`
}

func (sc Scenario) ID() string {
	var ts []string
	for _, t := range sc.Threads {
		var os []string
		for _, o := range t {
			os = append(os, o.String())
		}
		ts = append(ts, strings.Join(os, "."))
	}
	return sc.Impl + ":" + strings.Join(ts, "|")
}

const diskSize = 2

type event struct {
	Thread    int
	Op        Op
	Call, Ret int64
	Out       string // pattern id as string, "torn:..." , size, or "panic:..."
	Raw       []byte
}

func block(p byte) []byte {
	b := make([]byte, disk.BlockSize)
	for i := range b {
		b[i] = p
	}
	return b
}

func classify(b []byte) string {
	if len(b) != int(disk.BlockSize) {
		return fmt.Sprintf("len%d", len(b))
	}
	p := b[0]
	for i, x := range b {
		if x != p {
			return fmt.Sprintf("torn:%d@%d/%d", p, i, x)
		}
	}
	return fmt.Sprint(p)
}

var clock int64
var freeFiles []string

func tick() int64 { return atomic.AddInt64(&clock, 1) }

func mkDisk(impl string) disk.Disk {
	switch impl {
	case "mem":
		return disk.NewMemDisk(diskSize)
	case "file":
		if hpar.Free {
			// free-running -race pass: the real FileDisk over the real kernel
			f, err := os.CreateTemp("", "verif-c10-*.img")
			if err != nil {
				panic(err)
			}
			f.Close()
			freeFiles = append(freeFiles, f.Name())
			d, err := disk.NewFileDisk(f.Name(), diskSize)
			if err != nil {
				panic(err)
			}
			return d
		}
		simunix.K = simunix.New()
		simunix.K.NoTrace = true
		d, err := disk.NewFileDisk("disk.img", diskSize)
		if err != nil {
			panic(err)
		}
		return d
	}
	panic("impl")
}

func body(sc Scenario, hist *[]event, mu *hpar.Mutex) func() {
	return func() {
		d := mkDisk(sc.Impl)
		var wg hpar.WaitGroup
		wg.Add(len(sc.Threads))
		for ti := range sc.Threads {
			ti := ti
			hpar.Go(func() {
				defer wg.Done()
				for _, op := range sc.Threads[ti] {
					e := event{Thread: ti, Op: op}
					e.Call = tick()
					func() {
						defer func() {
							if r := recover(); r != nil {
								if csched.IsAbort(r) {
									panic(r)
								}
								e.Out = fmt.Sprintf("panic:%v", r)
							}
						}()
						switch op.Kind {
						case "W":
							d.Write(op.A, block(byte(ti+1)))
							e.Out = "ok"
						case "R":
							e.Out = classify(d.Read(op.A))
						case "RT":
							buf := block(0xEE)
							d.ReadTo(op.A, buf)
							e.Out = classify(buf)
						case "S":
							e.Out = fmt.Sprint(d.Size())
						case "B":
							d.Barrier()
							e.Out = "ok"
						}
					}()
					e.Ret = tick()
					mu.Lock()
					*hist = append(*hist, e)
					mu.Unlock()
				}
			})
		}
		wg.Wait()
		d.Close()
	}
}

// ---- oracles

type input struct {
	Op Op
	P  byte
}

var model = porcupine.Model{
	Init: func() interface{} { return "0,0" },
	Step: func(state, in, out interface{}) (bool, interface{}) {
		st := strings.Split(state.(string), ",")
		i := in.(input)
		o := out.(string)
		switch i.Op.Kind {
		case "W":
			if o != "ok" {
				return false, state
			}
			st[i.Op.A] = fmt.Sprint(i.P)
			return true, strings.Join(st, ",")
		case "R", "RT":
			return st[i.Op.A] == o, state
		case "S":
			return o == fmt.Sprint(diskSize), state
		case "B":
			return o == "ok", state
		}
		return false, state
	},
}

func checkLinearizable(hist []event) bool {
	var ops []porcupine.Operation
	for _, e := range hist {
		ops = append(ops, porcupine.Operation{ClientId: e.Thread, Input: input{e.Op, byte(e.Thread + 1)}, Call: e.Call, Output: e.Out, Return: e.Ret})
	}
	return porcupine.CheckOperations(model, ops)
}

// regular-register check for the file-backed disk (what the property states for it)
func checkRegular(hist []event) string {
	for _, r := range hist {
		if r.Op.Kind != "R" && r.Op.Kind != "RT" {
			continue
		}
		cand := map[string]bool{}
		// writes to the same address
		var lastBefore *event
		for i := range hist {
			w := &hist[i]
			if w.Op.Kind != "W" || w.Op.A != r.Op.A {
				continue
			}
			if w.Ret < r.Call { // completed before the read started
				if lastBefore == nil || w.Ret > lastBefore.Ret {
					// candidate unless superseded by a write that started after it ended and ended before r
				}
				superseded := false
				for j := range hist {
					w2 := &hist[j]
					if w2.Op.Kind == "W" && w2.Op.A == r.Op.A && w2.Call > w.Ret && w2.Ret < r.Call {
						superseded = true
					}
				}
				if !superseded {
					cand[fmt.Sprint(w.Thread+1)] = true
				}
				lastBefore = w
			} else if w.Call < r.Ret { // concurrent
				cand[fmt.Sprint(w.Thread+1)] = true
			}
		}
		anyBefore := false
		for i := range hist {
			w := &hist[i]
			if w.Op.Kind == "W" && w.Op.A == r.Op.A && w.Ret < r.Call {
				anyBefore = true
			}
		}
		if !anyBefore {
			cand["0"] = true
		}
		if !cand[r.Out] {
			return fmt.Sprintf("read %s by t%d returned %s, allowed %v", r.Op, r.Thread, r.Out, keys(cand))
		}
	}
	return ""
}

func keys(m map[string]bool) []string {
	var o []string
	for k := range m {
		o = append(o, k)
	}
	sort.Strings(o)
	return o
}

func verdict(sc Scenario, hist []event) (kind, msg string) {
	n := 0
	for _, t := range sc.Threads {
		n += len(t)
	}
	if len(hist) != n {
		return "incomplete", fmt.Sprintf("%d of %d operations completed", len(hist), n)
	}
	for _, e := range hist {
		if strings.HasPrefix(e.Out, "panic:") {
			return "panic", fmt.Sprintf("t%d %s: %s", e.Thread, e.Op, e.Out)
		}
		if strings.HasPrefix(e.Out, "torn") && sc.Impl == "mem" {
			return "torn", fmt.Sprintf("t%d %s returned a torn block (%s)", e.Thread, e.Op, e.Out)
		}
		if strings.HasPrefix(e.Out, "len") {
			return "length", fmt.Sprintf("t%d %s: %s", e.Thread, e.Op, e.Out)
		}
	}
	if sc.Impl == "mem" {
		if !checkLinearizable(hist) {
			return "nonlinearizable", "history is not linearizable w.r.t. the register array: " + histString(hist)
		}
	} else {
		for _, e := range hist {
			if e.Op.Kind == "S" && e.Out != fmt.Sprint(diskSize) {
				return "size", "Size returned " + e.Out
			}
		}
		if m := checkRegular(hist); m != "" {
			return "order", m + ": " + histString(hist)
		}
	}
	return "", ""
}

func histString(h []event) string {
	var s []string
	for _, e := range h {
		s = append(s, fmt.Sprintf("t%d %s [%d,%d]=%s", e.Thread, e.Op, e.Call, e.Ret, e.Out))
	}
	return strings.Join(s, "; ")
}

func outcome(h []event) string {
	c := append([]event(nil), h...)
	sort.Slice(c, func(i, j int) bool {
		if c[i].Thread != c[j].Thread {
			return c[i].Thread < c[j].Thread
		}
		return c[i].Call < c[j].Call
	})
	var s []string
	for _, e := range c {
		s = append(s, e.Out)
	}
	return strings.Join(s, ",")
}

// ---- scenario enumeration

func seqs(maxLen int) [][]Op {
	alpha := []Op{{"W", 0}, {"R", 0}, {"RT", 0}, {"W", 1}, {"R", 1}, {"S", 0}, {"B", 0}}
	var out [][]Op
	for _, a := range alpha {
		out = append(out, []Op{a})
	}
	if maxLen >= 2 {
		for _, a := range alpha {
			for _, b := range alpha {
				out = append(out, []Op{a, b})
			}
		}
	}
	return out
}

func collides(ths [][]Op) bool {
	// some address is written by one thread and touched by another
	for i, t := range ths {
		for _, o := range t {
			if o.Kind != "W" {
				continue
			}
			for j, u := range ths {
				if i == j {
					continue
				}
				for _, p := range u {
					if p.Kind == "B" || (p.Kind != "S" && p.A == o.A) {
						return true // a Barrier meets every write
					}
				}
			}
		}
	}
	return false
}

func scenarios(tier string) []Scenario {
	var out []Scenario
	for _, impl := range []string{"mem", "file"} {
		s2 := seqs(2)
		for i := range s2 {
			for j := i; j < len(s2); j++ {
				ths := [][]Op{s2[i], s2[j]}
				if collides(ths) {
					out = append(out, Scenario{impl, ths})
				}
			}
		}
		if tier == "thorough" {
			s1 := seqs(1)
			for i := range s1 {
				for j := i; j < len(s1); j++ {
					for k := range s2 {
						ths := [][]Op{s1[i], s1[j], s2[k]}
						if collides(ths) {
							out = append(out, Scenario{impl, ths})
						}
					}
				}
			}
		}
	}
	return out
}

// ---- driver

type replayFile struct {
	Replay struct {
		Scenario Scenario `json:"scenario"`
		Choices  []byte   `json:"choices"`
	} `json:"replay"`
}

func explore(sc Scenario, bound int, acc *ev.Acc, deadline time.Time) {
	outcomes := map[string]bool{}
	exec := func(prefix []byte, keep bool) (*csched.Sched, error) {
		var hist []event
		var mu hpar.Mutex
		clock = 0
		s := csched.Run(prefix, 20000, keep, body(sc, &hist, &mu))
		if s.Deadlock {
			return s, fmt.Errorf("deadlock: %v", s.BlockedDesc)
		}
		if s.Horizon {
			return s, fmt.Errorf("horizon")
		}
		for _, t := range s.Threads() {
			if t.PanicVal != nil {
				return s, fmt.Errorf("panic: thread %d: %v", t.ID, t.PanicVal)
			}
		}
		kind, msg := verdict(sc, hist)
		outcomes[outcome(hist)] = true
		if kind != "" {
			return s, fmt.Errorf("%s: %s", kind, msg)
		}
		return s, nil
	}
	st, fail, err := csched.Explore(csched.Options{Bound: bound, MaxSteps: 20000, Deadline: deadline}, exec)
	if err != nil {
		fmt.Fprintln(os.Stderr, "HARNESS ERROR", sc.ID(), err)
		os.Exit(3)
	}
	acc.Add("scenarios", 1)
	acc.Add("executions", st.Execs)
	acc.Add("transitions", st.ChoicePoints)
	acc.SetMax("max_choice_points_per_execution", int64(st.MaxPoints))
	acc.Add("scenario_outcomes", int64(len(outcomes)))
	if len(outcomes) > 1 {
		acc.Add("scenarios_with_several_outcomes", 1)
	}
	if st.Capped {
		acc.NotExhaustive(st.CapReason)
		acc.SetMax("bound_completed_min_when_capped", int64(st.BoundCompleted))
	}
	if len(acc.Samples) < 3 {
		acc.Sample(map[string]any{"scenario": sc.ID(), "executions": st.Execs, "distinct_outcomes": keys(outcomes)}, 3)
	}
	if fail != nil {
		kind := strings.SplitN(fail.Err, ":", 2)[0]
		acc.Violate(ev.Violation{
			Key:    "C10/" + sc.ID() + "/" + kind,
			Msg:    fmt.Sprintf("%s with %d preemptions: %s", sc.ID(), fail.Level, fail.Err),
			Replay: map[string]any{"scenario": sc, "choices": fail.Choices, "trace": fail.Trace},
		})
	}
}

func freeRun(sc Scenario, reps int, acc *ev.Acc) {
	for r := 0; r < reps; r++ {
		var hist []event
		var mu hpar.Mutex
		body(sc, &hist, &mu)()
		kind, msg := verdict(sc, hist)
		acc.Add("free_runs", 1)
		if sc.Impl == "file" {
			kind = "" // on the real kernel the file scenarios only feed the race detector (results are judged in the controlled runs)
		}
		if kind != "" {
			acc.Violate(ev.Violation{Key: "C10/" + sc.ID() + "/free-" + kind, Msg: "free-running: " + msg, Replay: map[string]any{"scenario": sc, "mode": "free"}})
		}
	}
}

func main() {
	tier := flag.String("tier", "quick", "")
	replay := flag.String("replay", "", "")
	flag.Parse()
	start := time.Now()
	if *replay != "" {
		var rf replayFile
		b, err := os.ReadFile(*replay)
		if err == nil {
			err = json.Unmarshal(b, &rf)
		}
		if err != nil {
			fmt.Fprintln(os.Stderr, err)
			os.Exit(3)
		}
		var hist []event
		var mu hpar.Mutex
		s := csched.Run(rf.Replay.Choices, 20000, true, body(rf.Replay.Scenario, &hist, &mu))
		for _, l := range s.Trace {
			fmt.Println(l)
		}
		kind, msg := verdict(rf.Replay.Scenario, hist)
		fmt.Println("history:", histString(hist))
		if s.Deadlock || kind != "" {
			fmt.Printf("VIOLATION property=C10 replay=%s\n  %s %s deadlock=%v\n", *replay, kind, msg, s.Deadlock)
			os.Exit(1)
		}
		fmt.Println("replay: property holds on this schedule")
		return
	}
	scs := scenarios(*tier)
	bound := 2
	if *tier == "thorough" {
		bound = 3
	}
	if hpar.Free {
		// free-running complement (built with -race): the real MemDisk, and the real FileDisk on a temporary file
		acc := ev.NewAcc()
		for _, sc := range scs {
			freeRun(sc, 3, acc)
			for _, f := range freeFiles {
				os.Remove(f)
			}
			freeFiles = nil
		}
		acc.EmitChild()
		return
	}
	if ev.IsChild() {
		i, n := ev.Shard()
		acc := ev.NewAcc()
		deadline := start.Add(25 * time.Minute)
		for k, sc := range scs {
			if k%n == i {
				explore(sc, bound, acc, deadline)
			}
		}
		acc.EmitChild()
		return
	}
	acc, err := ev.RunSharded(0)
	if err != nil {
		fmt.Fprintln(os.Stderr, "harness error:", err)
		os.Exit(3)
	}
	// race pass: the free binary is built by check.sh and named in VERIF_FREE_BIN
	mcx.RacePass(acc, "C10", *tier)
	os.Exit(acc.Done(ev.Finish{
		Prop: "C10", Tier: *tier, Level: "model_checking", Start: start,
		Rule:        fmt.Sprintf("all scenarios of 2 threads x <=2 ops (thorough: +3 threads) over {W0,R0,RT0,W1,R1,Size} in which a written address is touched by another thread, on MemDisk (preemption point before every statement and lock operation, copies split in halves) and FileDisk (one atomic step per simulated system call); every schedule with <= %d preemptions; oracle: porcupine linearizability vs register array + no torn block (mem), regular-register order per address (file)", bound),
		Assumptions: []string{"preemption only at statement boundaries, lock operations and copy midpoints of machine/disk/mem.go, and at system calls of file.go", "pread/pwrite of one block are atomic in simunix", "data races outside those points are the job of the free-running -race pass (race_pass_* keys), which is not exhaustive over schedules"},
		Extra: map[string]any{
			"states":                        acc.Counters["executions"],
			"traces_validated_against_impl": acc.Counters["executions"],
			"states_note":                   "states = complete executions (distinct schedules) of the real implementation; transitions = choice points taken across them; every execution runs the real code, so all are validated against the implementation",
			"preemption_bound":              bound,
		},
	}))
}
