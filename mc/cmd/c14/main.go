// c14: filesystem operations are linearizable under concurrency.
package main

import (
	"encoding/json"
	"flag"
	"fmt"
	"os"
	"sort"
	"strings"
	"sync/atomic"
	"time"

	"github.com/anishathalye/porcupine"
	"github.com/goose-lang/goose/machine/filesys"

	"verif/csched"
	"verif/ev"
	"verif/fsh"
	"verif/hpar"
	"verif/libh"
	"verif/mcx"
	"verif/refmodel"
)

const dir = "d"

// thread programs
type Prog struct {
	K string `json:"k"` // create open delete link ac list appendpre readpre
	N string `json:"n"`
	M string `json:"m"`
}

func (p Prog) String() string {
	switch p.K {
	case "link":
		return "link(" + p.N + ">" + p.M + ")"
	case "list", "appendpre", "readpre", "list2", "appendp", "appendbig", "readp":
		return p.K
	}
	return p.K + "(" + p.N + ")"
}

type Scenario struct {
	Impl    string `json:"impl"`
	PriorG  bool   `json:"prior_g"`
	Threads []Prog `json:"threads"`
}

func (sc Scenario) ID() string {
	var s []string
	for _, t := range sc.Threads {
		s = append(s, t.String())
	}
	return fmt.Sprintf("%s,g=%v:%s", sc.Impl, sc.PriorG, strings.Join(s, "|"))
}

type in struct {
	K        string
	D        string // directory ("" = dir)
	N, M     string
	F        filesys.File
	Data     string
	Off, Len uint64
}
type out struct {
	Ok    bool
	F     filesys.File
	Data  string
	Names string
	Panic string
}

type event struct {
	Thread    int
	In        in
	Out       out
	Call, Ret int64
}

var clock int64

func tick() int64 { return atomic.AddInt64(&clock, 1) }

// ---------------------------------------------------------------- model for porcupine

type mstate struct {
	fs       *refmodel.FS
	files    map[filesys.File]int // impl descriptor -> abstract handle
	weakList bool
}

func (s *mstate) clone() *mstate {
	n := &mstate{fs: s.fs.Clone(), files: map[filesys.File]int{}, weakList: s.weakList}
	for k, v := range s.files {
		n.files[k] = v
	}
	return n
}

func (s *mstate) canon() string {
	var fl []int
	for f := range s.files {
		fl = append(fl, int(f))
	}
	sort.Ints(fl)
	slots := make([]int, len(fl))
	for i, f := range fl {
		slots[i] = s.files[filesys.File(f)]
	}
	return fmt.Sprint(fl) + s.fs.Key(slots)
}

func step(state, input, output interface{}) (bool, interface{}) {
	s := state.(*mstate).clone()
	i := input.(in)
	o := output.(out)
	if o.Panic != "" {
		return false, state
	}
	m := s.fs
	dir := dir
	if i.D != "" {
		dir = i.D
	}
	switch i.K {
	case "Create":
		h, ok := m.Create(dir, i.N)
		if ok != o.Ok {
			return false, state
		}
		if ok {
			if _, dup := s.files[o.F]; dup {
				return false, state // descriptor already in use
			}
			s.files[o.F] = h
		}
	case "Open":
		if !m.Exists(dir, i.N) {
			return false, state
		}
		if _, dup := s.files[o.F]; dup {
			return false, state
		}
		s.files[o.F] = m.Open(dir, i.N)
	case "Append":
		h, ok := s.files[i.F]
		if !ok || !m.Handles[h].Append {
			return false, state
		}
		m.Append(h, []byte(i.Data))
	case "Close":
		h, ok := s.files[i.F]
		if !ok {
			return false, state
		}
		m.Close(h)
		delete(s.files, i.F)
	case "ReadAt":
		h, ok := s.files[i.F]
		if !ok || m.Handles[h].Append {
			return false, state
		}
		if string(m.ReadAt(h, i.Off, i.Len)) != o.Data {
			return false, state
		}
	case "Delete":
		if !m.Exists(dir, i.N) {
			return false, state
		}
		m.Delete(dir, i.N)
	case "Link":
		if !m.Exists(dir, i.N) {
			return false, state
		}
		if m.Link(dir, i.N, dir, i.M) != o.Ok {
			return false, state
		}
	case "AtomicCreate":
		m.AtomicCreate(dir, i.N, []byte(i.Data))
	case "List":
		if !s.weakList && strings.Join(m.List(dir), ",") != o.Names {
			return false, state
		}
	}
	return true, s
}

// ---------------------------------------------------------------- scenario body

type run struct {
	hist     []event
	mu       hpar.Mutex
	prior    []event // sequential setup history (also fed to the model)
	problems []string
}

func (r *run) record(t int, i in, f func() out) out {
	e := event{Thread: t, In: i}
	e.Call = tick()
	var o out
	if p := libh.Try(func() { o = f() }); p != "" {
		o.Panic = p
	}
	e.Out = o
	e.Ret = tick()
	r.mu.Lock()
	r.hist = append(r.hist, e)
	r.mu.Unlock()
	return o
}

func body(sc Scenario, r *run) func() {
	return func() {
		im := fsh.New(sc.Impl, false)
		seq := func(i in, f func() out) out { return r.record(-1, i, f) }
		create := func(t int, n string) out {
			return r.record(t, in{K: "Create", N: n}, func() out { f, ok := im.Create(dir, n); return out{Ok: ok, F: f} })
		}
		appendTo := func(t int, f filesys.File, d string) {
			r.record(t, in{K: "Append", F: f, Data: d}, func() out { im.Append(f, []byte(d)); return out{} })
		}
		closeF := func(t int, f filesys.File) {
			r.record(t, in{K: "Close", F: f}, func() out { im.Close(f); return out{} })
		}
		open := func(t int, n string) out {
			return r.record(t, in{K: "Open", N: n}, func() out { return out{F: im.Open(dir, n)} })
		}
		readAt := func(t int, f filesys.File, off, l uint64) {
			r.record(t, in{K: "ReadAt", F: f, Off: off, Len: l}, func() out { return out{Data: string(im.ReadAt(f, off, l))} })
		}
		_ = seq
		// sequential prior state: f = "F0", optionally g = "G0"; d2/h = "H0"; p = "" with one append handle shared by its writers
		o := create(-1, "f")
		appendTo(-1, o.F, "F0")
		closeF(-1, o.F)
		if sc.PriorG {
			o := create(-1, "g")
			appendTo(-1, o.F, "G0")
			closeF(-1, o.F)
		}
		var hp filesys.File
		needD2, needP := false, false
		for _, p := range sc.Threads {
			switch p.K {
			case "list2", "ac2":
				needD2 = true
			case "appendp", "appendbig", "readp":
				needP = true
			}
		}
		if needD2 {
			o2 := r.record(-1, in{K: "Create", D: "d2", N: "h"}, func() out { f, ok := im.Create("d2", "h"); return out{Ok: ok, F: f} })
			appendTo(-1, o2.F, "H0")
			closeF(-1, o2.F)
		}
		if needP {
			hp = create(-1, "p").F
		}
		// pre-opened handles
		pre := make([]filesys.File, len(sc.Threads))
		for t, p := range sc.Threads {
			switch p.K {
			case "appendpre":
				pre[t] = create(-1, fmt.Sprintf("p%d", t)).F
			case "readpre":
				pre[t] = open(-1, "f").F
			case "readp":
				pre[t] = open(-1, "p").F
			}
		}
		var wg hpar.WaitGroup
		wg.Add(len(sc.Threads))
		for t, p := range sc.Threads {
			t, p := t, p
			hpar.Go(func() {
				defer wg.Done()
				tag := fmt.Sprintf("%c", 'x'+t)
				switch p.K {
				case "create":
					if o := create(t, p.N); o.Ok && o.Panic == "" {
						appendTo(t, o.F, "c"+tag)
						closeF(t, o.F)
					}
				case "open":
					if o := open(t, p.N); o.Panic == "" {
						readAt(t, o.F, 0, 64)
						closeF(t, o.F)
					}
				case "delete":
					r.record(t, in{K: "Delete", N: p.N}, func() out { im.Delete(dir, p.N); return out{} })
				case "opendel":
					// open, unlink while open, close: other open handles of the file must keep their data
					if o := open(t, p.N); o.Panic == "" {
						r.record(t, in{K: "Delete", N: p.N}, func() out { im.Delete(dir, p.N); return out{} })
						closeF(t, o.F)
					}
				case "link":
					r.record(t, in{K: "Link", N: p.N, M: p.M}, func() out { return out{Ok: im.Link(dir, p.N, dir, p.M)} })
				case "ac":
					d := "a" + tag + strings.Repeat(tag, 6)
					r.record(t, in{K: "AtomicCreate", N: p.N, Data: d}, func() out { im.AtomicCreate(dir, p.N, []byte(d)); return out{} })
				case "list":
					r.record(t, in{K: "List"}, func() out { return out{Names: strings.Join(im.List(dir), ",")} })
				case "appendpre":
					appendTo(t, pre[t], tag+"1")
					appendTo(t, pre[t], tag+"2")
				case "readpre":
					readAt(t, pre[t], 0, 64)
					readAt(t, pre[t], 1, 1)
				case "list2":
					r.record(t, in{K: "List", D: "d2"}, func() out { return out{Names: strings.Join(im.List("d2"), ",")} })
				case "ac2":
					d := "b" + tag + strings.Repeat(tag, 6)
					r.record(t, in{K: "AtomicCreate", D: "d2", N: p.N, Data: d}, func() out { im.AtomicCreate("d2", p.N, []byte(d)); return out{} })
				case "appendp":
					appendTo(t, hp, tag+"1")
					appendTo(t, hp, tag+"2")
				case "appendbig":
					appendTo(t, hp, strings.Repeat(tag, 70000)) // above any plausible "large append" threshold
				case "readp":
					readAt(t, pre[t], 0, 1<<17)
					readAt(t, pre[t], 0, 1<<17)
				}
			})
		}
		wg.Wait()
		// final observation, sequential: list + read everything
		r.record(-1, in{K: "List"}, func() out { return out{Names: strings.Join(im.List(dir), ",")} })
		for _, n := range im.List(dir) {
			if o := open(-1, n); o.Panic == "" {
				readAt(-1, o.F, 0, 1<<17)
				closeF(-1, o.F)
			}
		}
		r.record(-1, in{K: "List", D: "d2"}, func() out { return out{Names: strings.Join(im.List("d2"), ",")} })
		for _, n := range im.List("d2") {
			if o := r.record(-1, in{K: "Open", D: "d2", N: n}, func() out { return out{F: im.Open("d2", n)} }); o.Panic == "" {
				readAt(-1, o.F, 0, 1<<17)
				closeF(-1, o.F)
			}
		}
	}
}

func verdict(sc Scenario, r *run, s *csched.Sched) (kind, msg, outcome string) {
	var outs []string
	h := append([]event(nil), r.hist...)
	sort.Slice(h, func(i, j int) bool { return h[i].Call < h[j].Call })
	for _, e := range h {
		outs = append(outs, fmt.Sprintf("%v%s%s%s", e.Out.Ok, e.Out.Data, e.Out.Names, e.Out.Panic))
	}
	// descriptors are not part of the outcome label (numbers may differ), results are
	outcome = strings.Join(outs, ";")
	if s != nil && s.Deadlock {
		return "deadlock", fmt.Sprint(s.BlockedDesc), outcome
	}
	if s != nil {
		if p := mcx.ThreadPanics(s); p != "" {
			return "panic", p, outcome
		}
	}
	for _, e := range h {
		if e.Out.Panic != "" {
			return "panic", fmt.Sprintf("t%d %s(%s) panicked on a valid history: %s", e.Thread, e.In.K, e.In.N, e.Out.Panic), outcome
		}
	}
	// live descriptors handed to different callers must be distinct: checked inside the model (dup => not linearizable)
	var ops []porcupine.Operation
	for _, e := range h {
		ops = append(ops, porcupine.Operation{ClientId: e.Thread + 1, Input: e.In, Output: e.Out, Call: e.Call, Return: e.Ret})
	}
	weak := sc.Impl == "dir"
	model := porcupine.Model{
		Init: func() interface{} {
			m := &mstate{fs: refmodel.NewFS(), files: map[filesys.File]int{}, weakList: weak}
			m.fs.Mkdir("d")
			m.fs.Mkdir("d2")
			return m
		},
		Step:  step,
		Equal: func(a, b interface{}) bool { return a.(*mstate).canon() == b.(*mstate).canon() },
	}
	if !porcupine.CheckOperations(model, ops) {
		return "nonlinearizable", "history is not linearizable w.r.t. the reference filesystem (or a live descriptor was handed out twice): " + histString(h), outcome
	}
	if weak {
		// DirFs List (documented as non-atomic): names must have existed at some point, names present throughout must be listed
		ever := map[string]map[string]bool{"d": {"f": true}, "d2": {}}
		always := map[string]map[string]bool{"d": {"f": true}, "d2": {}}
		if sc.PriorG {
			ever["d"]["g"], always["d"]["g"] = true, true
		}
		for t, p := range sc.Threads {
			switch p.K {
			case "create", "ac":
				ever["d"][p.N] = true
			case "link":
				ever["d"][p.M] = true
			case "delete", "opendel":
				always["d"][p.N] = false
			case "appendpre":
				n := fmt.Sprintf("p%d", t)
				ever["d"][n], always["d"][n] = true, true
			case "appendp", "appendbig", "readp":
				ever["d"]["p"], always["d"]["p"] = true, true
			}
			switch p.K {
			case "list2", "ac2":
				ever["d2"]["h"], always["d2"]["h"] = true, true
			}
			if p.K == "ac2" {
				ever["d2"][p.N] = true
			}
		}
		for _, e := range h {
			if e.In.K != "List" || e.Thread < 0 {
				continue
			}
			d := "d"
			if e.In.D != "" {
				d = e.In.D
			}
			got := map[string]bool{}
			for _, n := range strings.Split(e.Out.Names, ",") {
				if n == "" {
					continue
				}
				if !ever[d][n] {
					return "list", fmt.Sprintf("List(%s) returned %q which never existed there", d, n), outcome
				}
				if got[n] {
					return "list", fmt.Sprintf("List(%s) returned %q twice", d, n), outcome
				}
				got[n] = true
			}
			for n, a := range always[d] {
				if a && !got[n] {
					return "list", fmt.Sprintf("List(%s) omitted %q which existed throughout the call", d, n), outcome
				}
			}
		}
	}
	return "", "", outcome
}

func histString(h []event) string {
	var s []string
	for _, e := range h {
		if e.Thread < 0 && e.In.K != "List" && e.In.K != "ReadAt" {
			continue
		}
		s = append(s, fmt.Sprintf("t%d %s(%s%s fd=%d)[%d,%d]=>{ok=%v fd=%d data=%q names=%s}", e.Thread, e.In.K, e.In.N, e.In.M, e.In.F, e.Call, e.Ret, e.Out.Ok, e.Out.F, fsh.Short([]byte(e.Out.Data)), e.Out.Names))
	}
	return strings.Join(s, "; ")
}

// ---------------------------------------------------------------- scenarios

func progs() []Prog {
	return []Prog{
		{K: "create", N: "f"}, {K: "create", N: "g"},
		{K: "open", N: "f"},
		{K: "delete", N: "f"},
		{K: "link", N: "f", M: "g"},
		{K: "ac", N: "f"}, {K: "ac", N: "g"},
		{K: "list"},
		{K: "appendpre"}, {K: "readpre"},
		{K: "list2"}, {K: "ac2", N: "f"}, {K: "appendp"}, {K: "appendbig"}, {K: "readp"},
		{K: "opendel", N: "f"},
	}
}

// valid: preconditions hold under every interleaving
func valid(ths []Prog) bool {
	deletes := 0
	for _, p := range ths {
		if p.K == "delete" || p.K == "opendel" {
			deletes++
		}
	}
	if deletes > 1 {
		return false
	}
	for _, p := range ths {
		if (p.K == "open" || p.K == "link") && deletes > 0 { // need a stable f
			return false
		}
	}
	return true
}

func interesting(ths []Prog) bool {
	// at least one mutating program
	for _, p := range ths {
		switch p.K {
		case "create", "delete", "opendel", "link", "ac", "appendpre", "open", "ac2", "appendp", "appendbig", "list2":
			// open allocates a descriptor: it mutates the descriptor table
			return true
		}
	}
	return false
}

func scenarios(tier string) []Scenario {
	var out []Scenario
	ps := progs()
	for _, impl := range []string{"mem", "dir"} {
		for _, pg := range []bool{false, true} {
			for i := range ps {
				for j := i; j < len(ps); j++ {
					ths := []Prog{ps[i], ps[j]}
					if valid(ths) && interesting(ths) {
						out = append(out, Scenario{impl, pg, ths})
					}
					if tier != "thorough" {
						continue
					}
					for k := j; k < len(ps) && k < 10 && j < 10; k++ { // triples over the ten single-directory programs
						ths3 := []Prog{ps[i], ps[j], ps[k]}
						if valid(ths3) && interesting(ths3) && !pg {
							out = append(out, Scenario{impl, pg, ths3})
						}
					}
				}
			}
		}
	}
	return out
}

func mkCase(sc Scenario, bound int, deadline time.Time) mcx.Case {
	return mcx.Case{Prop: "C14", ID: sc.ID(), Bound: bound, Deadline: deadline, Replay: sc,
		Mk: func() (func(), func(*csched.Sched) (string, string, string)) {
			r := &run{}
			clock = 0
			return body(sc, r), func(s *csched.Sched) (string, string, string) { return verdict(sc, r, s) }
		}}
}

type replayFile struct {
	Replay struct {
		Scenario Scenario `json:"scenario"`
		Choices  []byte   `json:"choices"`
	} `json:"replay"`
}

func main() {
	tier := flag.String("tier", "quick", "")
	replay := flag.String("replay", "", "")
	flag.Parse()
	start := time.Now()
	bound := 2
	if *tier == "thorough" {
		bound = 3
	}
	if *replay != "" {
		var rf replayFile
		b, err := os.ReadFile(*replay)
		if err == nil {
			err = json.Unmarshal(b, &rf)
		}
		if err != nil {
			fmt.Fprintln(os.Stderr, err)
			os.Exit(3)
		}
		if mcx.ReplayOne(mkCase(rf.Replay.Scenario, 99, time.Time{}), rf.Replay.Choices) {
			fmt.Printf("VIOLATION property=C14 replay=%s\n", *replay)
			os.Exit(1)
		}
		fmt.Println("replay: property holds on this schedule")
		return
	}
	scs := scenarios(*tier)
	if hpar.Free {
		acc := ev.NewAcc()
		for _, sc := range scs {
			if sc.Impl != "mem" {
				continue
			}
			for rep := 0; rep < 3; rep++ {
				r := &run{}
				body(sc, r)()
				acc.Add("free_runs", 1)
				if kind, msg, _ := verdict(sc, r, nil); kind != "" {
					acc.Violate(ev.Violation{Key: "C14/" + sc.ID() + "/free-" + kind, Msg: "free-running: " + msg, Replay: map[string]any{"scenario": sc, "mode": "free"}})
				}
			}
		}
		acc.EmitChild()
		return
	}
	if ev.IsChild() {
		i, n := ev.Shard()
		acc := ev.NewAcc()
		for k, sc := range scs {
			if k%n == i {
				b := bound
				if len(sc.Threads) >= 3 {
					b = 2 // three client programs: one preemption less than the pairs
				}
				mcx.Explore(mkCase(sc, b, start.Add(25*time.Minute)), acc)
			}
		}
		acc.EmitChild()
		return
	}
	acc, err := ev.RunSharded(0)
	if err != nil {
		fmt.Fprintln(os.Stderr, "harness error:", err)
		os.Exit(3)
	}
	mcx.RacePass(acc, "C14", *tier)
	os.Exit(acc.Done(ev.Finish{
		Prop: "C14", Tier: *tier, Level: "model_checking", Start: start,
		Rule:        fmt.Sprintf("all pairs (thorough: + triples) of thread programs {Create+Append+Close, Open+ReadAt+Close, Delete, Link, AtomicCreate, List, two Appends through an own descriptor, two ReadAts through a pre-opened descriptor, Open+Delete+Close of a file that another thread holds open} on one directory (every range over a map in mem.go / dir.go iterates in an order chosen by the explorer) with colliding names f,g whose preconditions hold under every interleaving; MemFs with a preemption point before every statement and lock operation and copies split in halves, DirFs with one atomic step per simulated system call; every schedule with <= %d preemptions; oracle: porcupine linearizability of the complete call/return history (including the sequential prior and final read-back) w.r.t. the reference filesystem, live descriptors distinct; DirFs List judged by the documented non-atomic contract", bound),
		Assumptions: []string{"preemption only at instrumented points", "system calls are atomic steps in simunix", "free-running -race pass is a complement, not exhaustive over schedules"},
		Extra:       mcx.Extra(acc, map[string]any{"preemption_bound": bound}),
	}))
}
