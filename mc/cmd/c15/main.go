// c15: integer encoding is little-endian, framed and invertible.
// Bounded-exhaustive input enumeration: every byte value in every byte lane
// (other lanes all-zero and all-one), corner values, buffer lengths 0..12, two
// prior fills.
package main

import (
	"encoding/json"
	"flag"
	"fmt"
	"os"
	"sync"
	"sync/atomic"
	"time"
	"unsafe"

	"github.com/goose-lang/goose/machine"

	"verif/csched"
	"verif/ev"
	"verif/hpar"
	"verif/libh"
	"verif/mcx"
)

type Case struct {
	W     int    `json:"w"` // 8 or 4
	V     uint64 `json:"v"`
	Len   int    `json:"len"`
	Fill  byte   `json:"fill"`
	Extra int    `json:"extra,omitempty"` // spare capacity behind the buffer (the buffer is a window of a larger array)
}

func values(w int) []uint64 {
	seen := map[uint64]bool{}
	var out []uint64
	add := func(v uint64) {
		if w == 4 {
			v &= 0xffffffff
		}
		if !seen[v] {
			seen[v] = true
			out = append(out, v)
		}
	}
	for lane := 0; lane < w; lane++ {
		for b := 0; b < 256; b++ {
			add(uint64(b) << (8 * lane))
			add(^uint64(0)&^(uint64(0xff)<<(8*lane)) | uint64(b)<<(8*lane))
		}
	}
	add(0)
	add(^uint64(0))
	for k := 0; k < 8*w; k++ {
		add(uint64(1) << k)
		add(uint64(1)<<k - 1)
		add(uint64(1)<<k + 1)
	}
	add(0x0102030405060708)
	add(0x8877665544332211)
	return out
}

func check(c Case) string {
	backing := make([]byte, c.Len+c.Extra)
	for i := range backing {
		backing[i] = c.Fill ^ byte(i*3)
	}
	buf := backing[:c.Len]
	before := append([]byte(nil), buf...)
	spareBefore := append([]byte(nil), backing[c.Len:]...)
	spareOK := func() string {
		if string(backing[c.Len:]) != string(spareBefore) {
			return fmt.Sprintf("bytes behind the buffer (len %d, cap %d) were written: % x -> % x", c.Len, cap(buf), spareBefore, backing[c.Len:])
		}
		return ""
	}
	put := func() {
		if c.W == 8 {
			machine.UInt64Put(buf, c.V)
		} else {
			machine.UInt32Put(buf, uint32(c.V))
		}
	}
	get := func(p []byte) (v uint64) {
		if c.W == 8 {
			return machine.UInt64Get(p)
		}
		return uint64(machine.UInt32Get(p))
	}
	p := libh.Try(put)
	if c.Len < c.W {
		if p == "" {
			return "Put into a too-short buffer was not refused"
		}
		if string(buf) != string(before) {
			return fmt.Sprintf("Put into a too-short buffer was refused but wrote bytes: % x -> % x", before, buf)
		}
		if m := spareOK(); m != "" {
			return m
		}
		var got uint64
		if p := libh.Try(func() { got = get(buf) }); p == "" {
			return fmt.Sprintf("Get from a too-short buffer was not refused (returned %d)", got)
		}
		return ""
	}
	if m := spareOK(); m != "" {
		return m
	}
	if p != "" {
		return "Put panicked on a long-enough buffer: " + p
	}
	for i := 0; i < c.W; i++ {
		if want := byte(c.V >> (8 * i)); buf[i] != want {
			return fmt.Sprintf("byte %d is 0x%02x, little-endian encoding wants 0x%02x (buffer % x)", i, buf[i], want, buf)
		}
	}
	for i := c.W; i < c.Len; i++ {
		if buf[i] != before[i] {
			return fmt.Sprintf("byte %d outside the frame changed from 0x%02x to 0x%02x", i, before[i], buf[i])
		}
	}
	var got uint64
	if p := libh.Try(func() { got = get(buf) }); p != "" {
		return "Get panicked: " + p
	}
	if got != c.V {
		return fmt.Sprintf("Get returned %#x after Put(%#x)", got, c.V)
	}
	// Get reads only the frame: changing later bytes must not change the result
	for i := c.W; i < len(backing); i++ {
		backing[i] ^= 0xFF
	}
	if g2 := get(buf); g2 != c.V {
		return fmt.Sprintf("Get depends on bytes outside the frame: %#x vs %#x", g2, c.V)
	}
	// Get must not modify the buffer
	for i := 0; i < c.W; i++ {
		if buf[i] != byte(c.V>>(8*i)) {
			return "Get modified the buffer"
		}
	}
	return ""
}

// ---------------------------------------------------------------- concurrent callers

// Conc: two or three goroutines encode into and decode from their own buffers at
// the same time (the primitives are stateless: callers on disjoint buffers must
// not disturb each other).
type Conc struct {
	Ops [][2]int `json:"ops"` // per thread: width, value index
}

var concVals = []uint64{0x0102030405060708, 0xF1F2F3F4F5F6F7F8, 0x8877665544332211}

func (c Conc) ID() string { return fmt.Sprint("conc:", c.Ops) }

func concCase(c Conc, bound int) mcx.Case {
	return mcx.Case{Prop: "C15", ID: c.ID(), Bound: bound, Replay: c, Mk: func() (func(), func(*csched.Sched) (string, string, string)) {
		problems := make([]string, len(c.Ops))
		body := func() {
			var wg hpar.WaitGroup
			wg.Add(len(c.Ops))
			for t, op := range c.Ops {
				t, op := t, op
				hpar.Go(func() {
					defer wg.Done()
					w, v := op[0], concVals[op[1]]
					buf := make([]byte, 12)
					for i := range buf {
						buf[i] = 0xEE
					}
					var got uint64
					if w == 8 {
						machine.UInt64Put(buf, v)
						got = machine.UInt64Get(buf)
					} else {
						v &= 0xffffffff
						machine.UInt32Put(buf, uint32(v))
						got = uint64(machine.UInt32Get(buf))
					}
					for i := 0; i < 12; i++ {
						want := byte(0xEE)
						if i < w {
							want = byte(v >> (8 * i))
						}
						if buf[i] != want {
							problems[t] = fmt.Sprintf("thread %d: UInt%dPut(%#x) into its own buffer left % x (byte %d wants 0x%02x) while other goroutines encode other values", t, w*8, v, buf, i, want)
							return
						}
					}
					if got != v {
						problems[t] = fmt.Sprintf("thread %d: UInt%dGet of its own buffer returned %#x, want %#x", t, w*8, got, v)
					}
				})
			}
			wg.Wait()
		}
		verdict := func(s *csched.Sched) (string, string, string) {
			if s != nil {
				if p := mcx.ThreadPanics(s); p != "" {
					return "panic", p, "panic"
				}
			}
			if s != nil && s.Deadlock {
				return "deadlock", fmt.Sprint(s.BlockedDesc), "deadlock"
			}
			for _, p := range problems {
				if p != "" {
					return "interference", p, "bad"
				}
			}
			return "", "", "ok"
		}
		return body, verdict
	}}
}

func concCases(tier string) []Conc {
	var out []Conc
	for _, a := range [][2]int{{8, 0}, {4, 0}} {
		for _, b := range [][2]int{{8, 1}, {4, 1}} {
			out = append(out, Conc{Ops: [][2]int{a, b}})
			if tier == "thorough" {
				out = append(out, Conc{Ops: [][2]int{a, b, {8, 2}}}, Conc{Ops: [][2]int{a, b, {4, 2}}})
			}
		}
	}
	return out
}

func main() {
	tier := flag.String("tier", "quick", "")
	replay := flag.String("replay", "", "")
	flag.Parse()
	start := time.Now()
	if *replay != "" {
		var rf struct {
			Replay Case `json:"replay"`
		}
		b, _ := os.ReadFile(*replay)
		if json.Unmarshal(b, &rf) != nil {
			os.Exit(3)
		}
		var rc struct {
			Replay struct {
				Scenario Conc   `json:"scenario"`
				Choices  []byte `json:"choices"`
			} `json:"replay"`
		}
		if json.Unmarshal(b, &rc) == nil && len(rc.Replay.Scenario.Ops) > 0 {
			if mcx.ReplayOne(concCase(rc.Replay.Scenario, 99), rc.Replay.Choices) {
				fmt.Printf("VIOLATION property=C15 replay=%s\n", *replay)
				os.Exit(1)
			}
			fmt.Println("replay: property holds on this schedule")
			return
		}
		if m := check(rf.Replay); m != "" {
			fmt.Printf("%s\nVIOLATION property=C15 replay=%s\n", m, *replay)
			os.Exit(1)
		}
		fmt.Println("replay: property holds on this input")
		return
	}
	bound := 2
	if *tier == "thorough" {
		bound = 3
	}
	if hpar.Free {
		// free-running -race complement: the same bodies on real goroutines
		acc := ev.NewAcc()
		for _, c := range concCases(*tier) {
			for r := 0; r < 200; r++ {
				body, verdict := concCase(c, 0).Mk()
				body()
				acc.Add("free_runs", 1)
				if kind, msg, _ := verdict(nil); kind != "" {
					acc.Violate(ev.Violation{Key: "C15/" + c.ID() + "/free-" + kind, Msg: "free-running: " + msg, Replay: map[string]any{"scenario": c, "mode": "free"}})
				}
			}
		}
		// neighbours in one array: one goroutine keeps encoding into p[0:4] / p[0:8] of a larger, 8-aligned
		// buffer while another owns the bytes right behind the frame and checks that its own stores stay.
		// (A store wider than the frame that rewrites the neighbour's bytes with their old value is invisible
		// to every sequential check and is a single statement for the controlled scheduler: this part is a
		// free-running complement, not an exhaustive one.)
		for _, w := range []int{4, 8} {
			backing := make([]uint64, 4)
			p := unsafe.Slice((*byte)(unsafe.Pointer(&backing[0])), 32)
			var wg sync.WaitGroup
			lost := int64(0)
			stop := int32(0)
			wg.Add(2)
			go func() {
				defer wg.Done()
				for i := 0; atomic.LoadInt32(&stop) == 0; i++ {
					if w == 4 {
						machine.UInt32Put(p, uint32(i))
					} else {
						machine.UInt64Put(p, uint64(i))
					}
				}
			}()
			go func() {
				defer wg.Done()
				q := p[w : w+1 : w+1]
				for i := 0; i < 2000000; i++ {
					v := byte(i)
					q[0] = v
					if q[0] != v {
						atomic.AddInt64(&lost, 1)
					}
				}
				atomic.StoreInt32(&stop, 1)
			}()
			wg.Wait()
			acc.Add("free_runs", 1)
			if lost > 0 {
				acc.Violate(ev.Violation{Key: fmt.Sprintf("C15/free-neighbour/u%d", w*8), Msg: fmt.Sprintf("free-running: while one goroutine encodes %d-byte values into the start of a buffer, the goroutine that owns the byte right behind the frame lost %d of its own stores: Put writes behind its frame", w, lost), Replay: map[string]any{"mode": "free"}})
			}
		}
		acc.EmitChild()
		return
	}
	acc := ev.NewAcc()
	for _, c := range concCases(*tier) {
		mcx.Explore(concCase(c, bound), acc)
	}
	mcx.RacePass(acc, "C15", *tier)
	for _, w := range []int{8, 4} {
		vals := values(w)
		for _, v := range vals {
			for l := 0; l <= 12; l++ {
				for _, fe := range [][2]int{{0x00, 0}, {0xA5, 0}, {0x00, 8}, {0xA5, 1}, {0x5A, 4096}} {
					fill := byte(fe[0])
					c := Case{W: w, V: v, Len: l, Fill: fill, Extra: fe[1]}
					acc.Add("evaluations", 1)
					if l >= w {
						acc.Set("nontrivial", fmt.Sprintf("%d/%x/%d", w, v, l))
					}
					if m := check(c); m != "" {
						kind := "encoding"
						if l < w {
							kind = "short-buffer"
						}
						acc.Violate(ev.Violation{Key: fmt.Sprintf("C15/u%d/%s/len%d+%d/v%x/fill%x", w*8, kind, l, c.Extra, v, fill), Msg: fmt.Sprintf("UInt%d value %#x, buffer length %d (capacity %d): %s", w*8, v, l, l+c.Extra, m), Replay: c})
					}
				}
			}
		}
		acc.Sample(map[string]any{"width_bytes": w, "values": len(vals), "example": Case{W: w, V: vals[300], Len: 9, Fill: 0xA5}}, 4)
	}
	os.Exit(acc.Done(ev.Finish{
		Prop: "C15", Tier: *tier, Level: "model_checking", Start: start,
		Rule:        "values: every byte value in every byte lane with the other lanes all 0 and all 0xFF, 0, max, 2^k, 2^k+-1, two mixed constants; x buffer lengths 0..12 x prior fills x spare capacity behind the buffer {0,1,8,4096} (the buffer is a window of a larger array: nothing behind len may be read or written), for both widths; non-trivial = (width,value,length) with length >= width (the encoding, the frame, Get-after-Put and Get's independence of later bytes are all checked); shorter buffers check refusal without partial write. Put/Get act lane-wise, so every lane x every byte value covers every table an implementation could index. Concurrent callers: 2 (thorough 3) goroutines each doing Put then Get of its own value on its own buffer, both widths, every interleaving of the statements of machine/prims.go with <= 2 (thorough 3) preemptions, plus a free-running -race pass of the same bodies",
		Assumptions: []string{"values outside the lane/corner domain are covered by the lane-wise argument, not enumerated"},
		Extra:       map[string]any{"distinct_nontrivial": len(acc.Sets["nontrivial"])},
	}))
}
