// c15: integer encoding is little-endian, framed and invertible.
// Bounded-exhaustive input enumeration: every byte value in every byte lane
// (other lanes all-zero and all-one), corner values, buffer lengths 0..12, two
// prior fills.
package main

import (
	"encoding/json"
	"flag"
	"fmt"
	"os"
	"time"

	"github.com/goose-lang/goose/machine"

	"verif/ev"
	"verif/libh"
)

type Case struct {
	W    int    `json:"w"` // 8 or 4
	V    uint64 `json:"v"`
	Len  int    `json:"len"`
	Fill byte   `json:"fill"`
}

func values(w int) []uint64 {
	seen := map[uint64]bool{}
	var out []uint64
	add := func(v uint64) {
		if w == 4 {
			v &= 0xffffffff
		}
		if !seen[v] {
			seen[v] = true
			out = append(out, v)
		}
	}
	for lane := 0; lane < w; lane++ {
		for b := 0; b < 256; b++ {
			add(uint64(b) << (8 * lane))
			add(^uint64(0)&^(uint64(0xff)<<(8*lane)) | uint64(b)<<(8*lane))
		}
	}
	add(0)
	add(^uint64(0))
	for k := 0; k < 8*w; k++ {
		add(uint64(1) << k)
		add(uint64(1)<<k - 1)
		add(uint64(1)<<k + 1)
	}
	add(0x0102030405060708)
	add(0x8877665544332211)
	return out
}

func check(c Case) string {
	buf := make([]byte, c.Len)
	for i := range buf {
		buf[i] = c.Fill ^ byte(i*3)
	}
	before := append([]byte(nil), buf...)
	put := func() {
		if c.W == 8 {
			machine.UInt64Put(buf, c.V)
		} else {
			machine.UInt32Put(buf, uint32(c.V))
		}
	}
	get := func(p []byte) (v uint64) {
		if c.W == 8 {
			return machine.UInt64Get(p)
		}
		return uint64(machine.UInt32Get(p))
	}
	p := libh.Try(put)
	if c.Len < c.W {
		if p == "" {
			return "Put into a too-short buffer was not refused"
		}
		if string(buf) != string(before) {
			return fmt.Sprintf("Put into a too-short buffer was refused but wrote bytes: % x -> % x", before, buf)
		}
		var got uint64
		if p := libh.Try(func() { got = get(buf) }); p == "" {
			return fmt.Sprintf("Get from a too-short buffer was not refused (returned %d)", got)
		}
		return ""
	}
	if p != "" {
		return "Put panicked on a long-enough buffer: " + p
	}
	for i := 0; i < c.W; i++ {
		if want := byte(c.V >> (8 * i)); buf[i] != want {
			return fmt.Sprintf("byte %d is 0x%02x, little-endian encoding wants 0x%02x (buffer % x)", i, buf[i], want, buf)
		}
	}
	for i := c.W; i < c.Len; i++ {
		if buf[i] != before[i] {
			return fmt.Sprintf("byte %d outside the frame changed from 0x%02x to 0x%02x", i, before[i], buf[i])
		}
	}
	var got uint64
	if p := libh.Try(func() { got = get(buf) }); p != "" {
		return "Get panicked: " + p
	}
	if got != c.V {
		return fmt.Sprintf("Get returned %#x after Put(%#x)", got, c.V)
	}
	// Get reads only the frame: changing later bytes must not change the result
	for i := c.W; i < c.Len; i++ {
		buf[i] ^= 0xFF
	}
	if g2 := get(buf); g2 != c.V {
		return fmt.Sprintf("Get depends on bytes outside the frame: %#x vs %#x", g2, c.V)
	}
	// Get must not modify the buffer
	for i := 0; i < c.W; i++ {
		if buf[i] != byte(c.V>>(8*i)) {
			return "Get modified the buffer"
		}
	}
	return ""
}

func main() {
	tier := flag.String("tier", "quick", "")
	replay := flag.String("replay", "", "")
	flag.Parse()
	start := time.Now()
	if *replay != "" {
		var rf struct {
			Replay Case `json:"replay"`
		}
		b, _ := os.ReadFile(*replay)
		if json.Unmarshal(b, &rf) != nil {
			os.Exit(3)
		}
		if m := check(rf.Replay); m != "" {
			fmt.Printf("%s\nVIOLATION property=C15 replay=%s\n", m, *replay)
			os.Exit(1)
		}
		fmt.Println("replay: property holds on this input")
		return
	}
	acc := ev.NewAcc()
	for _, w := range []int{8, 4} {
		vals := values(w)
		for _, v := range vals {
			for l := 0; l <= 12; l++ {
				for _, fill := range []byte{0x00, 0xA5} {
					c := Case{W: w, V: v, Len: l, Fill: fill}
					acc.Add("evaluations", 1)
					if l >= w {
						acc.Set("nontrivial", fmt.Sprintf("%d/%x/%d", w, v, l))
					}
					if m := check(c); m != "" {
						kind := "encoding"
						if l < w {
							kind = "short-buffer"
						}
						acc.Violate(ev.Violation{Key: fmt.Sprintf("C15/u%d/%s/len%d/v%x/fill%x", w*8, kind, l, v, fill), Msg: fmt.Sprintf("UInt%d value %#x, buffer length %d: %s", w*8, v, l, m), Replay: c})
					}
				}
			}
		}
		acc.Sample(map[string]any{"width_bytes": w, "values": len(vals), "example": Case{W: w, V: vals[300], Len: 9, Fill: 0xA5}}, 4)
	}
	os.Exit(acc.Done(ev.Finish{
		Prop: "C15", Tier: *tier, Level: "exploration", Start: start,
		Rule:        "values: every byte value in every byte lane with the other lanes all 0 and all 0xFF, 0, max, 2^k, 2^k+-1, two mixed constants; x buffer lengths 0..12 x two prior fills, for both widths; non-trivial = (width,value,length) with length >= width (the encoding, the frame, Get-after-Put and Get's independence of later bytes are all checked); shorter buffers check refusal without partial write. Put/Get act lane-wise, so every lane x every byte value covers every table an implementation could index",
		Assumptions: []string{"values outside the lane/corner domain are covered by the lane-wise argument, not enumerated"},
		Extra:       map[string]any{"distinct_nontrivial": len(acc.Sets["nontrivial"])},
	}))
}
