// c06: translation is deterministic and packages do not influence each other.
// (A) the real binary: every non-empty subset of a 5-package fixture, in two
// pattern orders, repeated, against solo translations; (B) the real
// TranslatePackages with its worker goroutines under the controlled scheduler
// (interface.go instrumented by overlay: go -> controlled spawn, sync -> shim,
// channel operations -> scheduler channels, preemption points at function
// entries and loop heads, i.e. at declaration granularity): every schedule up
// to a preemption bound; (C) a -race build of cmd/goose, free-running.
package main

import (
	"bytes"
	"crypto/sha1"
	"encoding/json"
	"flag"
	"fmt"
	"os"
	"os/exec"
	"path/filepath"
	"strings"
	"sync"
	"time"

	"github.com/goose-lang/goose"

	"verif/csched"
	"verif/ev"
	"verif/mcx"
)

var pkgNames = []string{"a", "b", "c", "d", "e", "f", "g", "h"}

const modPath = "example.com/c06"

type entry struct {
	Pkg  string
	Hash string
	Err  string
}

func (e entry) String() string {
	return e.Pkg + ":" + e.Hash + ":" + fmt.Sprintf("%x", sha1.Sum([]byte(e.Err)))[:8]
}

// translate runs the (instrumented) library entry point and summarises what it returns, in order.
func translate(dir string, pats []string) (out []entry, problem string) {
	var tr goose.TranslationConfig
	files, errs, perr := tr.TranslatePackages(dir, pats...)
	if perr != nil {
		return nil, "pattern error: " + perr.Error()
	}
	if len(files) != len(errs) {
		return nil, fmt.Sprintf("%d files but %d error slots", len(files), len(errs))
	}
	for i, f := range files {
		var buf bytes.Buffer
		f.Write(&buf)
		e := entry{Pkg: f.PkgPath, Hash: fmt.Sprintf("%x", sha1.Sum(buf.Bytes()))[:12]}
		if errs[i] != nil {
			e.Err = errs[i].Error()
		}
		out = append(out, e)
	}
	return out, ""
}

func pats(names []string) []string {
	var p []string
	for _, n := range names {
		p = append(p, "./"+n)
	}
	return p
}

func subsets(all []string, maxSize int) [][]string {
	var out [][]string
	for mask := 1; mask < 1<<len(all); mask++ {
		var s []string
		for i, n := range all {
			if mask&(1<<i) != 0 {
				s = append(s, n)
			}
		}
		if len(s) <= maxSize {
			out = append(out, s)
		}
	}
	return out
}

func reversed(s []string) []string {
	r := append([]string(nil), s...)
	for i, j := 0, len(r)-1; i < j; i, j = i+1, j-1 {
		r[i], r[j] = r[j], r[i]
	}
	return r
}

// ---------------------------------------------------------------- part B

func partSchedules(dir string, tier string, acc *ev.Acc, start time.Time, only []string) {
	// solo reference (default schedule, one package at a time)
	solo := map[string]entry{}
	for _, n := range pkgNames {
		var res []entry
		var prob string
		csched.Run(nil, 200000, false, func() { res, prob = translate(dir, pats([]string{n})) })
		if prob != "" || len(res) != 1 {
			fmt.Fprintln(os.Stderr, "harness error: solo translation of", n, "failed:", prob)
			os.Exit(3)
		}
		solo[res[0].Pkg] = res[0]
	}
	sets := subsets(pkgNames, 4)
	if only != nil {
		sets = [][]string{only}
	}
	shard, nshards := ev.Shard()
	scenario := 0
	for _, set := range sets {
		if len(set) >= 3 && tier == "quick" && only == nil {
			// quick: triples among the first five packages and those around the f/g pair
			hasFG, late := 0, 0
			for _, n := range set {
				if n == "f" || n == "g" {
					hasFG++
				}
				if n > "e" {
					late++
				}
			}
			if !(late == 0 || (hasFG == 2 && late == 2)) {
				continue
			}
		}
		// pairs are explored with the larger preemption bound, bigger groups with a smaller one
		bound := 0
		switch {
		case len(set) == 1:
			bound = 2 // a single package: only the order of map iterations can deviate
		case tier == "quick" && len(set) == 2:
			bound = 2
		case tier == "quick" && len(set) == 3:
			bound = 1
		case tier == "thorough" && len(set) == 2:
			bound = 3
		case tier == "thorough" && len(set) == 3:
			bound = 2
		case tier == "thorough" && len(set) == 4:
			bound = 1
		default:
			continue
		}
		if only != nil {
			bound = 3
		}
		for oi, order := range [][]string{set, reversed(set)} {
			order := order
			if oi == 1 && len(set) == 1 {
				continue
			}
			scenario++
			if scenario%nshards != shard {
				continue
			}
			want := ""
			c := mcx.Case{Prop: "C06", ID: "sched:" + strings.Join(order, ","), Bound: bound, MaxSteps: 200000, Deadline: start.Add(20 * time.Minute), Replay: map[string]any{"part": "sched", "packages": order},
				Mk: func() (func(), func(*csched.Sched) (string, string, string)) {
					var res []entry
					var prob string
					body := func() { res, prob = translate(dir, pats(order)) }
					verdict := func(s *csched.Sched) (string, string, string) {
						var parts []string
						for _, e := range res {
							parts = append(parts, e.String())
						}
						outcome := strings.Join(parts, " ")
						if s.Deadlock {
							return "deadlock", fmt.Sprint(s.BlockedDesc), outcome
						}
						if p := mcx.ThreadPanics(s); p != "" {
							return "panic", p, outcome
						}
						if prob != "" {
							return "error", prob, outcome
						}
						if len(res) != len(order) {
							return "count", fmt.Sprintf("%d results for %d packages", len(res), len(order)), outcome
						}
						for _, e := range res {
							so, ok := solo[e.Pkg]
							if !ok {
								return "unknown-package", e.Pkg, outcome
							}
							if so.Hash != e.Hash {
								return "content-differs-from-solo", fmt.Sprintf("the file of %s differs from its solo translation when translated together with %v under this schedule", e.Pkg, order), outcome
							}
							if so.Err != e.Err {
								return "errors-differ-from-solo", fmt.Sprintf("the error list of %s differs from its solo translation:\n--- joint ---\n%s\n--- solo ---\n%s", e.Pkg, e.Err, so.Err), outcome
							}
						}
						if want == "" {
							want = outcome
						} else if outcome != want {
							return "order-depends-on-schedule", fmt.Sprintf("the returned sequence of (package, file, errors) depends on the worker schedule:\n  default schedule: %s\n  this schedule:    %s", want, outcome), outcome
						}
						return "", "", outcome
					}
					return body, verdict
				}}
			mcx.Explore(c, acc)
		}
	}
}

// ---------------------------------------------------------------- part A / C

// binFlags are passed to every invocation of the binary in part A (the part is run once per flag set)
var binFlags []string

func runBin(bin, dir, out string, env []string, pats []string) (int, string) {
	c := exec.Command(bin, append(append([]string{"-out", out}, binFlags...), pats...)...)
	c.Dir = dir
	c.Env = append(os.Environ(), env...)
	var stderr bytes.Buffer
	c.Stderr = &stderr
	c.Stdout = &stderr
	err := c.Run()
	code := 0
	if ee, ok := err.(*exec.ExitError); ok {
		code = ee.ExitCode()
	}
	return code, stderr.String()
}

func tree(dir string) map[string]string {
	m := map[string]string{}
	filepath.Walk(dir, func(p string, info os.FileInfo, err error) error {
		if err == nil && !info.IsDir() {
			b, _ := os.ReadFile(p)
			rel, _ := filepath.Rel(dir, p)
			m[rel] = string(b)
		}
		return nil
	})
	return m
}

// errBlocks splits stderr into the per-error blocks (order-insensitive comparison key and ordered list)
func stderrKey(s, dir string) string { return strings.ReplaceAll(s, dir, "<dir>") }

func partBinary(goose, dir, work, tier string, acc *ev.Acc) {
	soloFiles := map[string]map[string]string{}
	soloErr := map[string]string{}
	soloCode := map[string]int{}
	for _, n := range append(append([]string{}, pkgNames...), "t") {
		out := filepath.Join(work, "solo_"+n)
		code, stderr := runBin(goose, dir, out, nil, pats([]string{n}))
		soloFiles[n], soloErr[n], soloCode[n] = tree(out), stderrKey(stderr, dir), code
		os.RemoveAll(out)
	}
	reps := 2
	if tier == "thorough" {
		reps = 5
	}
	if tier == "flags" {
		reps = 1
	}
	type job struct {
		id    int
		order []string
		rep   int
		procs int // GOMAXPROCS of the goose process (0: inherited)
	}
	var jobs []job
	id := 0
	sets := subsets(pkgNames, len(pkgNames))
	for _, set := range sets {
		if tier == "flags" && len(set) != 2 && len(set) != len(pkgNames) {
			continue
		}
		if len(set) > 2 && len(set) < len(pkgNames) {
			fg, late := 0, 0
			for _, n := range set {
				if n == "f" || n == "g" {
					fg++
				}
				if n > "e" {
					late++
				}
			}
			// beyond pairs: every subset of the first five packages, triples around the f/g pair, and everything at once
			if !(late == 0 || (len(set) == 3 && fg == 2)) {
				continue
			}
		}
		for oi, order := range [][]string{set, reversed(set)} {
			if oi == 1 && len(set) == 1 {
				continue
			}
			for rep := 0; rep < reps; rep++ {
				id++
				jobs = append(jobs, job{id, order, rep, 0})
			}
			// the number of processors must not matter either (work split between a bounded number of workers)
			if len(set) >= 3 {
				maxp := 3
				if len(set) == len(pkgNames) {
					maxp = len(set) - 1
				}
				for p := 1; p <= maxp; p++ {
					id++
					jobs = append(jobs, job{id, order, 0, p})
				}
			}
		}
	}
	// t reaches two FFIs and is refused: translated together with others it must not take them down
	for _, order := range [][]string{{"a", "t"}, {"t", "a"}, {"e", "t"}, {"t", "e"}, append(append([]string{}, pkgNames...), "t"), append([]string{"t"}, pkgNames...)} {
		if tier == "flags" && len(order) != 2 {
			continue
		}
		id++
		jobs = append(jobs, job{id, order, 0, 0})
	}
	var wg sync.WaitGroup
	ch := make(chan job)
	for w := 0; w < 16; w++ {
		wg.Add(1)
		go func() {
			defer wg.Done()
			for j := range ch {
				order, rep := j.order, j.rep
				out := filepath.Join(work, fmt.Sprintf("joint%d", j.id))
				var env []string
				if j.procs > 0 {
					env = []string{fmt.Sprintf("GOMAXPROCS=%d", j.procs)}
				}
				code, stderr := runBin(goose, dir, out, env, pats(order))
				got := tree(out)
				os.RemoveAll(out)
				acc.Add("binary_invocations", 1)
				viol := func(kind, msg string) {
					acc.Violate(ev.Violation{Key: fmt.Sprintf("C06/binary/%s/%s%s", kind, strings.Join(order, ","), strings.Join(binFlags, "")), Msg: fmt.Sprintf("goose %s %s (run %d, GOMAXPROCS=%d): %s", strings.Join(binFlags, " "), strings.Join(pats(order), " "), rep+1, j.procs, msg), Replay: map[string]any{"part": "binary", "packages": order}})
				}
				wantCode := 0
				want := map[string]string{}
				for _, n := range order {
					if soloCode[n] != 0 {
						wantCode = 1
					}
					for p, c := range soloFiles[n] {
						want[p] = c
					}
				}
				if code != wantCode {
					viol("exit-status", fmt.Sprintf("exit status %d, solo translations give %d", code, wantCode))
					continue
				}
				bad := false
				for p, c := range want {
					if got[p] != c {
						viol("content-differs-from-solo", fmt.Sprintf("%s differs from the solo translation of its package", p))
						bad = true
						break
					}
				}
				if bad {
					continue
				}
				if len(got) != len(want) {
					viol("file-set", fmt.Sprintf("files %d, solo translations give %d", len(got), len(want)))
					continue
				}
				// the error list: each package's solo stderr, in the order the packages were given
				wantErr := ""
				for _, n := range order {
					wantErr += soloErr[n]
				}
				if stderrKey(stderr, dir) != wantErr {
					viol("error-list", fmt.Sprintf("stderr differs from the concatenation of the solo error lists in pattern order:\n--- joint ---\n%s\n--- expected ---\n%s", stderrKey(stderr, dir), wantErr))
				}
			}
		}()
	}
	for _, j := range jobs {
		ch <- j
	}
	close(ch)
	wg.Wait()
}

func partRace(raceBin, dir, work string, acc *ev.Acc) {
	if raceBin == "" {
		acc.NotExhaustive("race pass not run (no -race binary)")
		return
	}
	for _, procs := range []string{"1", "2", "16"} {
		out := filepath.Join(work, "race"+procs)
		_, stderr := runBin(raceBin, dir, out, []string{"GOMAXPROCS=" + procs, "GORACE=halt_on_error=0"}, []string{"./..."})
		os.RemoveAll(out)
		n := strings.Count(stderr, "WARNING: DATA RACE")
		acc.Add("race_pass_runs", 1)
		acc.Add("race_pass_races", int64(n))
		if n > 0 {
			i := strings.Index(stderr, "WARNING: DATA RACE")
			acc.Violate(ev.Violation{Key: "C06/data-race", Msg: fmt.Sprintf("the race detector reports %d data race(s) when all packages are translated in one invocation (GOMAXPROCS=%s): %s", n, procs, stderr[i:min(len(stderr), i+2500)]), Replay: map[string]any{"part": "race"}})
		}
	}
}

func main() {
	tier := flag.String("tier", "quick", "")
	replay := flag.String("replay", "", "")
	goose := flag.String("bin", "", "goose binary")
	raceBin := flag.String("race", "", "goose binary built with -race")
	flag.Parse()
	start := time.Now()
	work, _ := os.MkdirTemp("", "verif-c06-")
	defer os.RemoveAll(work)
	// private copy of the fixture (go.sum is taken from /repo)
	dir := filepath.Join(work, "mod")
	exec.Command("cp", "-r", "/verif/fixtures/c06mod", dir).Run()
	sum, _ := os.ReadFile("/repo/go.sum")
	os.WriteFile(filepath.Join(dir, "go.sum"), sum, 0644)
	acc := ev.NewAcc()
	if *replay != "" {
		var rf struct {
			Replay struct {
				Part     string   `json:"part"`
				Packages []string `json:"packages"`
				Scenario struct {
					Packages []string `json:"packages"`
				} `json:"scenario"`
			} `json:"replay"`
		}
		b, _ := os.ReadFile(*replay)
		json.Unmarshal(b, &rf)
		pk := rf.Replay.Packages
		if pk == nil {
			pk = rf.Replay.Scenario.Packages
		}
		if rf.Replay.Part == "race" {
			partRace(*raceBin, dir, work, acc)
		} else if rf.Replay.Part == "binary" {
			partBinary(*goose, dir, work, "quick", acc)
		} else {
			partSchedules(dir, "thorough", acc, start, pk)
		}
		os.RemoveAll(work)
		if len(acc.Violations) > 0 {
			fmt.Println(acc.Violations[0].Msg)
			fmt.Printf("VIOLATION property=C06 replay=%s\n", *replay)
			os.Exit(1)
		}
		fmt.Println("replay: property holds on this case")
		return
	}
	if ev.IsChild() {
		partSchedules(dir, *tier, acc, start, nil)
		os.RemoveAll(work)
		acc.EmitChild()
		return
	}
	sacc, err := ev.RunSharded(0)
	if err != nil {
		fmt.Fprintln(os.Stderr, "harness error:", err)
		os.Exit(3)
	}
	acc.Merge(sacc)
	partBinary(*goose, dir, work, *tier, acc)
	for _, fl := range [][]string{{"-source-comments"}, {"-typecheck"}} {
		// flags that add text to the output: what they add must not depend on the company either
		binFlags = fl
		partBinary(*goose, dir, work, "flags", acc)
	}
	binFlags = nil
	partRace(*raceBin, dir, work, acc)
	os.RemoveAll(work)
	os.Exit(acc.Done(ev.Finish{
		Prop: "C06", Tier: *tier, Level: "model_checking", Start: start,
		Rule:        "fixture of 8 packages (plain; two files on the disk FFI; conversion errors among good declarations; importing another package and re-using its identifiers with other shapes; sync + an error; a package exporting a struct / method / constant / interface and a package using them; a declaration with seven independent forward references). (B) the real TranslatePackages under the controlled scheduler (interface.go instrumented by overlay: workers are controlled threads, WaitGroup/channels are scheduler objects, preemption points at function entries and loop heads, i.e. between declarations; every range over a map in the translator and printer iterates in an order chosen by the explorer; packages.Load memoised): every pair of packages with <=2 preemptions and every triple with <=1 (thorough: pairs 3, triples 2, quadruples 1), in both pattern orders; oracle: every returned (package, file bytes, error text) equals the solo translation and the returned sequence is the same in every schedule. (A) the real binary, free-running: every singleton and pair, every subset of the first five, the triples around the exporting/importing pair and all eight at once, in both orders, repeated, the larger sets also under GOMAXPROCS 1..3 (all eight: 1..7), and once more for every pair and all eight under -source-comments and under -typecheck: exit status, files and stderr equal those composed from solo runs. (C) a -race build of cmd/goose translating all packages with GOMAXPROCS 1, 2, 16",
		Assumptions: []string{"interleavings inside the translation of one declaration (goose.go has no preemption points) are covered only by the free-running -race pass", "the loaded packages are treated as read-only and shared between explored executions"},
		Extra:       mcx.Extra(acc, map[string]any{}),
	}))
}
