// instr: build an overlay of instrumented files.
// usage: instr -dir DIR -o overlay.json path=opts[,opts] ...
package main

import (
	"flag"
	"fmt"
	"os"
	"strings"

	"verif/instr"
)

func main() {
	dir := flag.String("dir", "", "directory for rewritten files")
	out := flag.String("o", "", "overlay json")
	flag.Parse()
	if err := os.MkdirAll(*dir, 0755); err != nil {
		fmt.Fprintln(os.Stderr, err)
		os.Exit(2)
	}
	ov := instr.NewOverlay(*dir)
	for _, a := range flag.Args() {
		p, o, _ := strings.Cut(a, "=")
		if strings.HasPrefix(o, "@") { // replace with given file / add virtual file
			b, err := os.ReadFile(o[1:])
			if err == nil {
				err = ov.AddContent(p, b)
			}
			if err != nil {
				fmt.Fprintln(os.Stderr, err)
				os.Exit(2)
			}
			continue
		}
		opts, err := instr.ParseOpts(o)
		if err == nil {
			err = ov.AddRewritten(p, opts)
		}
		if err != nil {
			fmt.Fprintln(os.Stderr, "instr:", err)
			os.Exit(2)
		}
	}
	if err := ov.Write(*out); err != nil {
		fmt.Fprintln(os.Stderr, err)
		os.Exit(2)
	}
}
