// c08: the file header names exactly the FFI and imports the package uses.
// Generated module with local stub modules (so arbitrary import paths exist
// offline): (a) every import graph of one or two routes to the FFI packages
// (direct, through one or two helper packages, hidden behind another FFI);
// (b) every import path over a component alphabet with '.', '-', '_' and
// trusted_ prefixes, imported once / from two files / next to builtin imports.
// The real goose binary translates them; a 30-line reference function gives
// the expected prelude, footer, Require lines and output path.
package main

import (
	"encoding/json"
	"flag"
	"fmt"
	"os"
	"os/exec"
	"path/filepath"
	"sort"
	"strings"
	"time"

	"verif/ev"
	"verif/gl"
)

const mod = "example.com/c08-mod"

type ffi struct {
	id, path, name, use string // use: expression of type uint64 using the package
	pkgName             string
}

var ffis = []ffi{
	{"mdisk", "github.com/goose-lang/goose/machine/disk", "disk", "disk.Size()", "disk"},
	{"pdisk", "github.com/goose-lang/primitive/disk", "disk", "disk.Size()", "disk"},
	{"masync", "github.com/goose-lang/goose/machine/async_disk", "async_disk", "async_disk.BlockSize", "async_disk"},
	{"pasync", "github.com/goose-lang/primitive/async_disk", "async_disk", "async_disk.BlockSize", "async_disk"},
	{"grove", "github.com/mit-pdos/gokv/grove_ffi", "grove", "grove_ffi.Nop()", "grove_ffi"},
}

type Route struct {
	Ffi int `json:"ffi"` // -1 none
	Via int `json:"via"` // 0 direct, 1 one helper, 2 two helpers
}

func (r Route) id() string {
	if r.Ffi < 0 {
		return "none"
	}
	return fmt.Sprintf("%s_via%d", ffis[r.Ffi].id, r.Via)
}

type Cfg struct {
	Kind    string   `json:"kind"` // ffi | imports
	Name    string   `json:"name"`
	Routes  []Route  `json:"routes,omitempty"`
	Imports []string `json:"imports,omitempty"` // import paths (relative to mod) per file
	Shape   string   `json:"shape,omitempty"`
	Special string   `json:"special,omitempty"` // hand-written import graphs: stdlib | pkgname | filesys_m | filesys_p
	PkgPath string   `json:"pkg_path"` // relative to mod
}

// ---------------------------------------------------------------- reference (independent of /repo)

func mapPath(p string) string { return strings.NewReplacer(".", "_", "-", "_").Replace(p) }

func wantRequire(importPath string) string {
	logical := strings.ReplaceAll(mapPath(importPath), "/", ".")
	base := importPath[strings.LastIndex(importPath, "/")+1:]
	if strings.HasPrefix(base, "trusted_") {
		return "From Perennial.goose_lang.trusted Require Import " + logical + "."
	}
	return "From Goose Require " + logical + "."
}

func wantFfi(routes []Route) (ffiName string, refused bool) {
	set := map[string]bool{}
	for _, r := range routes {
		if r.Ffi >= 0 {
			set[ffis[r.Ffi].name] = true
		}
	}
	if len(set) > 1 {
		return "", true
	}
	for f := range set {
		return f, false
	}
	return "none", false
}

// ---------------------------------------------------------------- generation

func write(root, rel, content string) {
	p := filepath.Join(root, rel)
	os.MkdirAll(filepath.Dir(p), 0755)
	if err := os.WriteFile(p, []byte(content), 0644); err != nil {
		panic(err)
	}
}

func genBase(root string) {
	write(root, "go.mod", "module "+mod+"\n\ngo 1.22\n\nrequire (\n\tgithub.com/goose-lang/goose v0.0.0\n\tgithub.com/goose-lang/primitive v0.1.0\n\tgithub.com/mit-pdos/gokv v0.0.0\n)\n\nreplace github.com/goose-lang/goose => /repo\n\nreplace github.com/mit-pdos/gokv => ./stubs/gokv\n")
	sum, _ := os.ReadFile("/repo/go.sum")
	write(root, "go.sum", string(sum))
	write(root, "stubs/gokv/go.mod", "module github.com/mit-pdos/gokv\n\ngo 1.22\n\nrequire github.com/goose-lang/goose v0.0.0\n")
	// the grove FFI stub is itself built on the disk package (an FFI hidden behind an FFI)
	write(root, "stubs/gokv/grove_ffi/g.go", "package grove_ffi\n\nimport \"github.com/goose-lang/goose/machine/disk\"\n\nfunc Nop() uint64 {\n\treturn disk.BlockSize\n}\n")
	for _, f := range ffis {
		write(root, "h/"+f.id+"_1/h.go", fmt.Sprintf("package h1\n\nimport %q\n\nfunc Use() uint64 {\n\treturn %s\n}\n", f.path, f.use))
		write(root, "h/"+f.id+"_2/h.go", fmt.Sprintf("package h2\n\nimport %q\n\nfunc Use() uint64 {\n\treturn h1.Use()\n}\n", mod+"/h/"+f.id+"_1"))
	}
}

func routeImport(r Route) (path, use string) {
	f := ffis[r.Ffi]
	switch r.Via {
	case 0:
		return f.path, f.use
	case 1:
		return mod + "/h/" + f.id + "_1", "h1.Use()"
	}
	return mod + "/h/" + f.id + "_2", "h2.Use()"
}

func genFfiCfg(root string, c Cfg) {
	for i, r := range c.Routes {
		if r.Ffi < 0 {
			write(root, fmt.Sprintf("%s/r%d.go", c.PkgPath, i), fmt.Sprintf("package c\n\nfunc R%d() uint64 {\n\treturn %d\n}\n", i, i))
			continue
		}
		p, use := routeImport(r)
		write(root, fmt.Sprintf("%s/r%d.go", c.PkgPath, i), fmt.Sprintf("package c\n\nimport %q\n\nfunc R%d() uint64 {\n\treturn %s\n}\n", p, i, use))
	}
}

var comps = []string{"a", "a-b", "a.b", "a_b", "trusted_x", "x-y.z"}

func pkgIdent(comp string) string { // Go package name for a path component
	if strings.HasPrefix(comp, "trusted_") {
		return comp // "packages named trusted_*": the package clause decides, and here it agrees with the directory
	}
	return "p" + strings.NewReplacer(".", "", "-", "", "_", "").Replace(comp)
}

func genLib(root, rel string) {
	comp := rel[strings.LastIndex(rel, "/")+1:]
	write(root, rel+"/l.go", fmt.Sprintf("package %s\n\nfunc Use() uint64 {\n\treturn 1\n}\n", pkgIdent(comp)))
}

// specials: import shapes the path alphabet cannot spell (absolute one-element paths, a package clause that differs
// from the directory name, the two variants of a prelude-modelled package).  want = the Require lines of the header.
var specials = map[string]struct {
	files map[string]string // relative to the client package, or to the module when starting with "/"
	want  []string
}{
	"stdlib": {map[string]string{"r0.go": "package c\n\nimport (\n\t\"errors\"\n\t\"sort\"\n)\n\nfunc F(xs []string) {\n\tsort.Strings(xs)\n}\n\nfunc G() {\n\terrors.New(\"x\")\n}\n"},
		[]string{"From Goose Require errors.", "From Goose Require sort."}},
	"pkgname": {map[string]string{
		"/special/tlib/t.go":        "package trusted_tlib\n\nfunc F() uint64 {\n\treturn 1\n}\n",
		"/special/trusted_dir/t.go": "package plain\n\nfunc G() uint64 {\n\treturn 2\n}\n",
		"r0.go": "package c\n\nimport (\n\t\"" + mod + "/special/tlib\"\n\t\"" + mod + "/special/trusted_dir\"\n)\n\nfunc F() uint64 {\n\treturn trusted_tlib.F() + plain.G()\n}\n"},
		[]string{"From Goose Require " + strings.ReplaceAll(mapPath(mod), "/", ".") + ".special.trusted_dir.",
			"From Perennial.goose_lang.trusted Require Import " + strings.ReplaceAll(mapPath(mod), "/", ".") + ".special.tlib."}},
	"filesys_m": {map[string]string{"r0.go": "package c\n\nimport \"github.com/goose-lang/goose/machine/filesys\"\n\nfunc F() {\n\tfd, _ := filesys.Create(\"dir\", \"name\")\n\tfilesys.Close(fd)\n}\n"}, nil},
	"filesys_p": {map[string]string{"r0.go": "package c\n\nimport \"github.com/goose-lang/primitive/filesys\"\n\nfunc F() {\n\tfd, _ := filesys.Create(\"dir\", \"name\")\n\tfilesys.Close(fd)\n}\n"}, nil},
}

func genImportsCfg(root string, c Cfg) {
	if c.Special != "" {
		for rel, content := range specials[c.Special].files {
			if strings.HasPrefix(rel, "/") {
				write(root, rel[1:], content)
			} else {
				write(root, c.PkgPath+"/"+rel, content)
			}
		}
		return
	}
	if c.Shape == "dup_between" {
		// file 0 imports p and q, file 1 imports p again: duplicates that are not adjacent in source order
		p, q := c.Imports[0], c.Imports[1]
		ip, iq := pkgIdent(p[strings.LastIndex(p, "/")+1:]), pkgIdent(q[strings.LastIndex(q, "/")+1:])
		write(root, c.PkgPath+"/r0.go", fmt.Sprintf("package c\n\nimport (\n\t%q\n\t%q\n)\n\nfunc R0() uint64 {\n\treturn %s.Use() + %s.Use()\n}\n", mod+"/"+p, mod+"/"+q, ip, iq))
		write(root, c.PkgPath+"/r1.go", fmt.Sprintf("package c\n\nimport %q\n\nfunc R1() uint64 {\n\treturn %s.Use()\n}\n", mod+"/"+p, ip))
		return
	}
	for i, imp := range c.Imports {
		comp := imp[strings.LastIndex(imp, "/")+1:]
		extra := ""
		if c.Shape == "with_builtin" && i == 0 {
			extra = "\t\"sync\"\n"
		}
		body := fmt.Sprintf("func R%d() uint64 {\n\treturn %s.Use()\n}\n", i, pkgIdent(comp))
		if extra != "" {
			body += "\nfunc L(m *sync.Mutex) {\n\tm.Lock()\n}\n"
		}
		write(root, fmt.Sprintf("%s/r%d.go", c.PkgPath, i), fmt.Sprintf("package c\n\nimport (\n%s\t%q\n)\n\n%s", extra, mod+"/"+imp, body))
	}
}

func configs(tier string) (cfgs []Cfg, libs []string) {
	// (a) FFI graphs
	var routes []Route
	routes = append(routes, Route{-1, 0})
	for i := range ffis {
		for via := 0; via <= 2; via++ {
			routes = append(routes, Route{i, via})
		}
	}
	n := 0
	for i, r1 := range routes {
		n++
		cfgs = append(cfgs, Cfg{Kind: "ffi", Name: "one:" + r1.id(), Routes: []Route{r1}, PkgPath: fmt.Sprintf("cfg/f%03d", n)})
		for _, r2 := range routes[i:] {
			if r1.Ffi < 0 || r2.Ffi < 0 {
				continue
			}
			if tier == "quick" && r1.Via == 2 && r2.Via == 2 {
				continue
			}
			n++
			cfgs = append(cfgs, Cfg{Kind: "ffi", Name: "two:" + r1.id() + "+" + r2.id(), Routes: []Route{r1, r2}, PkgPath: fmt.Sprintf("cfg/f%03d", n)})
		}
	}
	// (b) import paths
	depth := 2
	if tier == "thorough" {
		depth = 3
	}
	var paths []string
	var rec func(prefix string, d int)
	rec = func(prefix string, d int) {
		for _, c := range comps {
			p := prefix + "/" + c
			paths = append(paths, p)
			if d < depth {
				rec(p, d+1)
			}
		}
	}
	rec("lib", 1)
	libs = paths
	for i, p := range paths {
		n++
		cfgs = append(cfgs, Cfg{Kind: "imports", Name: "single:" + p, Imports: []string{p}, Shape: "single", PkgPath: fmt.Sprintf("cfg/i%04d", n)})
		q := paths[(i*7+3)%len(paths)]
		if q == p || strings.HasSuffix(q, p[strings.LastIndex(p, "/"):]) && pkgIdent(q[strings.LastIndex(q, "/")+1:]) == pkgIdent(p[strings.LastIndex(p, "/")+1:]) {
			continue
		}
		if tier == "quick" && i%3 != 0 {
			continue
		}
		n++
		cfgs = append(cfgs, Cfg{Kind: "imports", Name: "two_files:" + p + "," + q, Imports: []string{p, q}, Shape: "two", PkgPath: fmt.Sprintf("cfg/i%04d", n)})
		n++
		cfgs = append(cfgs, Cfg{Kind: "imports", Name: "two_files_rev:" + q + "," + p, Imports: []string{q, p}, Shape: "two", PkgPath: fmt.Sprintf("cfg/i%04d", n)})
		n++
		cfgs = append(cfgs, Cfg{Kind: "imports", Name: "same_in_two_files:" + p, Imports: []string{p, p}, Shape: "dup", PkgPath: fmt.Sprintf("cfg/i%04d", n)})
		if pkgIdent(q[strings.LastIndex(q, "/")+1:]) == pkgIdent(p[strings.LastIndex(p, "/")+1:]) {
			continue // both would be imported under the same Go package name in one file
		}
		n++
		cfgs = append(cfgs, Cfg{Kind: "imports", Name: "dup_between:" + p + "," + q, Imports: []string{p, q, p}, Shape: "dup_between", PkgPath: fmt.Sprintf("cfg/i%04d", n)})
		n++
		cfgs = append(cfgs, Cfg{Kind: "imports", Name: "dup_between:" + q + "," + p, Imports: []string{q, p, q}, Shape: "dup_between", PkgPath: fmt.Sprintf("cfg/i%04d", n)})
		n++
		cfgs = append(cfgs, Cfg{Kind: "imports", Name: "with_builtin:" + p, Imports: []string{p}, Shape: "with_builtin", PkgPath: fmt.Sprintf("cfg/i%04d", n)})
	}
	// two different packages with the same last path component (and the same Go package name), imported from two files
	for _, p := range paths {
		for _, q := range paths {
			lp, lq := p[strings.LastIndex(p, "/")+1:], q[strings.LastIndex(q, "/")+1:]
			if p >= q || lp != lq || strings.Count(p, "/") != 2 || strings.Count(q, "/") != 2 {
				continue
			}
			if tier == "quick" && lp != "a" && lp != "a.b" {
				continue
			}
			n++
			cfgs = append(cfgs, Cfg{Kind: "imports", Name: "same_base:" + p + "," + q, Imports: []string{p, q}, Shape: "two", PkgPath: fmt.Sprintf("cfg/i%04d", n)})
		}
	}
	for _, sp := range []string{"stdlib", "pkgname", "filesys_m", "filesys_p"} {
		n++
		cfgs = append(cfgs, Cfg{Kind: "imports", Name: "special:" + sp, Special: sp, Shape: "single", PkgPath: fmt.Sprintf("cfg/i%04d", n)})
	}
	// clients whose own path needs mapping (output file placement)
	for _, c1 := range comps {
		for _, c2 := range comps {
			n++
			cfgs = append(cfgs, Cfg{Kind: "imports", Name: "client_path:" + c1 + "/" + c2, Imports: []string{"lib/a"}, Shape: "single", PkgPath: "cl/" + c1 + "/" + c2})
		}
	}
	return
}

// ---------------------------------------------------------------- checking

func check(c Cfg, outDir string, refusedRun bool, exit int, stderr string) (kind, msg string) {
	outPath := filepath.Join(outDir, mapPath(mod+"/"+c.PkgPath)+".v")
	b, err := os.ReadFile(outPath)
	present := err == nil
	var wantReq []string
	ffiName, refused := "none", false
	if c.Kind == "ffi" {
		ffiName, refused = wantFfi(c.Routes)
		for _, r := range c.Routes {
			if r.Ffi >= 0 && r.Via > 0 {
				p, _ := routeImport(r)
				wantReq = append(wantReq, wantRequire(p))
			}
		}
	} else if c.Special != "" {
		wantReq = append(wantReq, specials[c.Special].want...)
	} else {
		for _, imp := range c.Imports {
			wantReq = append(wantReq, wantRequire(mod+"/"+imp))
		}
	}
	sort.Strings(wantReq)
	wantReq = dedup(wantReq)
	if refused {
		if present {
			return "two-ffis-not-refused", "the package reaches two different FFIs but a file was written"
		}
		if exit == 0 {
			return "two-ffis-not-refused", "the package reaches two different FFIs but goose exited 0"
		}
		return "", ""
	}
	if !present {
		return "no-output", fmt.Sprintf("no file at the expected path %s (exit %d): %s", strings.TrimPrefix(outPath, outDir+"/"), exit, firstLines(stderr, 6))
	}
	f, perr := gl.ParseFile(string(b))
	if perr != nil {
		return "malformed", perr.Error()
	}
	var gotReq []string
	prelude := ""
	hasSection, hasEnd := false, false
	for _, s := range f.Sentences {
		switch s.Kind {
		case "require":
			line := s.Name + "."
			line = strings.ReplaceAll(line, " . ", ".")
			switch {
			case strings.HasPrefix(s.Raw, "From Perennial.goose_lang Require Import prelude"):
			case strings.HasPrefix(s.Raw, "From Perennial.goose_lang Require Import ffi."):
				prelude = strings.TrimSuffix(strings.TrimPrefix(s.Raw, "From Perennial.goose_lang Require Import ffi."), "_prelude")
			default:
				gotReq = append(gotReq, s.Raw+".")
			}
		case "section":
			hasSection = true
		case "end":
			hasEnd = true
		}
	}
	if ffiName == "none" {
		if prelude != "" || !hasSection || !hasEnd {
			return "wrong-ffi-header", fmt.Sprintf("no FFI is reachable: want the generic Section header and End footer, got prelude=%q section=%v end=%v", prelude, hasSection, hasEnd)
		}
	} else if prelude != ffiName || hasSection || hasEnd {
		return "wrong-ffi-header", fmt.Sprintf("want the %s prelude and no section footer, got prelude=%q section=%v end=%v", ffiName, prelude, hasSection, hasEnd)
	}
	if strings.Join(gotReq, "\n") != strings.Join(wantReq, "\n") {
		return "wrong-requires", fmt.Sprintf("Require lines\n  got:  %v\n  want: %v", gotReq, wantReq)
	}
	return "", ""
}

func dedup(s []string) []string {
	var out []string
	for i, x := range s {
		if i == 0 || x != s[i-1] {
			out = append(out, x)
		}
	}
	return out
}

func firstLines(s string, n int) string {
	l := strings.Split(s, "\n")
	if len(l) > n {
		l = l[:n]
	}
	return strings.Join(l, " | ")
}

func runGoose(goose, root, outDir string, pkgs []string) (int, string) {
	args := append([]string{"-out", outDir}, pkgs...)
	c := exec.Command(goose, args...)
	c.Dir = root
	out, err := c.CombinedOutput()
	code := 0
	if ee, ok := err.(*exec.ExitError); ok {
		code = ee.ExitCode()
	}
	return code, string(out)
}

func main() {
	tier := flag.String("tier", "quick", "")
	replay := flag.String("replay", "", "")
	goose := flag.String("bin", "", "goose binary")
	flag.Parse()
	start := time.Now()
	work, _ := os.MkdirTemp("", "verif-c08-")
	defer os.RemoveAll(work)
	root := filepath.Join(work, "mod")
	cfgs, libs := configs(*tier)
	if *tier != "thorough" && *replay != "" {
		cfgs, libs = configs("thorough")
	}
	if *replay != "" {
		var rf struct {
			Replay Cfg `json:"replay"`
		}
		b, _ := os.ReadFile(*replay)
		if json.Unmarshal(b, &rf) != nil {
			os.Exit(3)
		}
		cfgs = []Cfg{rf.Replay}
	}
	genBase(root)
	for _, l := range libs {
		genLib(root, l)
	}
	genLib(root, "lib/a")
	for _, c := range cfgs {
		if c.Kind == "ffi" {
			genFfiCfg(root, c)
		} else {
			genImportsCfg(root, c)
		}
	}
	if out, err := func() ([]byte, error) {
		c := exec.Command("go", "build", "./...")
		c.Dir = root
		return c.CombinedOutput()
	}(); err != nil {
		fmt.Fprintln(os.Stderr, "harness error: generated module does not compile:", firstLines(string(out), 15))
		os.Exit(3)
	}
	acc := ev.NewAcc()
	outDir := filepath.Join(work, "out")
	// packages expected to be refused run one per invocation (a refusal may take the process down); the rest in batches
	var batch []Cfg
	results := map[string][2]string{}
	jointFailure := ""
	flush := func() {
		if len(batch) == 0 {
			return
		}
		var pk []string
		for _, c := range batch {
			pk = append(pk, "./"+c.PkgPath)
		}
		code, out := runGoose(*goose, root, outDir, pk)
		if code != 0 && code != 1 {
			// a crash in a batch: rerun one by one to attribute it
			attributed := false
			defer func() {
				if !attributed {
					jointFailure = fmt.Sprintf("goose exited with status %d when %d packages were translated in one invocation, but every one of them translates alone: %s", code, len(pk), firstLines(out, 8))
				}
			}()
			for _, c := range batch {
				code1, out1 := runGoose(*goose, root, outDir, []string{"./" + c.PkgPath})
				k, m := check(c, outDir, false, code1, out1)
				if code1 != 0 && code1 != 1 && k == "" {
					k, m = "crash", "goose exited with status "+fmt.Sprint(code1)+": "+firstLines(out1, 5)
				}
				if code1 != 0 && code1 != 1 {
					attributed = true
				}
				results[c.PkgPath] = [2]string{k, m}
			}
		} else {
			for _, c := range batch {
				k, m := check(c, outDir, false, code, out)
				results[c.PkgPath] = [2]string{k, m}
			}
		}
		batch = nil
	}
	for _, c := range cfgs {
		_, refused := wantFfi(c.Routes)
		if c.Kind == "ffi" && refused {
			code, out := runGoose(*goose, root, outDir, []string{"./" + c.PkgPath})
			k, m := check(c, outDir, true, code, out)
			results[c.PkgPath] = [2]string{k, m}
			acc.Set("refusal_exit_statuses", fmt.Sprint(code))
			continue
		}
		batch = append(batch, c)
		if len(batch) >= 300 {
			flush()
		}
	}
	flush()
	for _, c := range cfgs {
		r := results[c.PkgPath]
		acc.Add("evaluations", 1)
		acc.Set("nontrivial", c.Name)
		acc.Add("configs_"+c.Kind, 1)
		if r[0] != "" {
			acc.Violate(ev.Violation{Key: fmt.Sprintf("C08/%s/%s/%s", c.Kind, r[0], c.Name), Msg: fmt.Sprintf("%s (package %s/%s): %s", c.Name, mod, c.PkgPath, r[1]), Replay: c})
		}
	}
	if jointFailure != "" {
		acc.Violate(ev.Violation{Key: "C08/joint-invocation-fails", Msg: jointFailure, Replay: cfgs[0]})
	}
	acc.Sample(map[string]any{"config": cfgs[len(cfgs)/2]}, 1)
	acc.Sample(map[string]any{"config": cfgs[3]}, 2)
	os.RemoveAll(work)
	if *replay != "" {
		if len(acc.Violations) > 0 {
			fmt.Println(acc.Violations[0].Msg)
			fmt.Printf("VIOLATION property=C08 replay=%s\n", *replay)
			os.Exit(1)
		}
		fmt.Println("replay: property holds on this configuration")
		return
	}
	os.Exit(acc.Done(ev.Finish{
		Prop: "C08", Tier: *tier, Level: "exploration", Start: start,
		Rule:        "generated module (local stub modules through replace directives give arbitrary import paths offline): (a) every client with one route and every pair of routes to the FFI packages {machine/disk, primitive/disk, machine/async_disk, primitive/async_disk, gokv/grove_ffi (stub built on disk)} x {direct, one helper package, two helper packages}, plus no FFI; (b) every library path of <=2 (thorough <=3) components over {a, a-b, a.b, a_b, trusted_x, x-y.z} imported alone, together with a second path from another file in both orders, twice from two files (adjacent, and with another import in between), next to a builtin import, two different packages with the same last component from two files, and 36 client package paths over the same alphabet; translated by the real goose binary; reference: FFI = the set of FFIs reachable without passing through an FFI (one -> its prelude, none -> Section header + End footer, two -> refused, no file), one sorted de-duplicated Require per non-builtin import with '/'->'.', '.' and '-'->'_', trusted_* through the trusted namespace, output path derived the same way; the packages are translated in batches of up to 300 per invocation (each file is judged against its own package's import graph: a package without FFI translated next to FFI clients keeps its Section header), a batch that fails although every member translates alone is a violation",
		Assumptions: []string{"refusal of a two-FFI package is judged only as 'no file and non-zero exit' (the form of the refusal belongs to C07)"},
		Extra:       map[string]any{"distinct_nontrivial": len(acc.Sets["nontrivial"])},
	}))
}
