// c09: disks are arrays of independent 4096-byte registers; Mem == File through
// every entry point.  Explicit-state BFS over operation sequences on the real
// implementations in lock-step with a register-array reference model.
package main

import (
	"encoding/json"
	"flag"
	"fmt"
	"os"
	"strings"
	"time"

	"github.com/goose-lang/goose/machine/async_disk"
	"github.com/goose-lang/goose/machine/disk"

	"verif/bfs"
	"verif/ev"
	"verif/libh"
	"verif/simunix"
)

type Op struct {
	K string // W Wb WBad R RT M ML Size Barrier
	A uint64
	P string // pattern for W
	I int    // buffer index / bad length
}

func (o Op) String() string {
	switch o.K {
	case "W":
		return fmt.Sprintf("Write(%d,%s)", o.A, o.P)
	case "Wb":
		return fmt.Sprintf("Write(%d,buf%d)", o.A, o.I)
	case "WBad":
		return fmt.Sprintf("Write(0,len=%d)", o.I)
	case "R":
		return fmt.Sprintf("Read(%d)", o.A)
	case "RT":
		return fmt.Sprintf("ReadTo(%d,buf%d)", o.A, o.I)
	case "M":
		return fmt.Sprintf("Mutate(buf%d)", o.I)
	case "ML":
		return "Mutate(last)"
	}
	return o.K
}

func alphabet(n uint64) []Op {
	addrs := []uint64{}
	for a := uint64(0); a <= n; a++ {
		addrs = append(addrs, a)
	}
	addrs = append(addrs, 1<<63, ^uint64(0))
	var ops []Op
	for _, a := range addrs {
		for _, p := range []string{"A", "B"} {
			ops = append(ops, Op{K: "W", A: a, P: p})
		}
	}
	for a := uint64(0); a <= n; a++ {
		for i := 0; i < 2; i++ {
			ops = append(ops, Op{K: "Wb", A: a, I: i})
		}
	}
	for _, l := range []int{0, 4095, 4097} {
		ops = append(ops, Op{K: "WBad", I: l})
	}
	for _, a := range addrs {
		ops = append(ops, Op{K: "R", A: a})
	}
	for _, a := range addrs {
		for i := 0; i < 2; i++ {
			ops = append(ops, Op{K: "RT", A: a, I: i})
		}
	}
	ops = append(ops, Op{K: "M", I: 0}, Op{K: "M", I: 1}, Op{K: "ML"}, Op{K: "Size"}, Op{K: "Barrier"})
	return ops
}

// reference model
type model struct {
	blocks []string
	bufs   [2]string
	last   string
}

func (m *model) key() string {
	return strings.Join(m.blocks, ",") + "|" + m.bufs[0] + "," + m.bufs[1] + "|" + m.last
}

// step returns (enabled, refused, resultID)
func (m *model) step(o Op) (enabled, refused bool, res string) {
	n := uint64(len(m.blocks))
	switch o.K {
	case "W":
		m.last = o.P
		if o.A >= n {
			return true, true, ""
		}
		m.blocks[o.A] = o.P
	case "Wb":
		if o.A >= n {
			return true, true, ""
		}
		m.blocks[o.A] = m.bufs[o.I]
	case "WBad":
		return true, true, ""
	case "R":
		if o.A >= n {
			return true, true, ""
		}
		m.last = m.blocks[o.A]
		return true, false, m.blocks[o.A]
	case "RT":
		if o.A >= n {
			return true, true, ""
		}
		m.bufs[o.I] = m.blocks[o.A]
	case "M":
		m.bufs[o.I] = libh.Flip(m.bufs[o.I])
	case "ML":
		if m.last == "" {
			return false, false, ""
		}
		m.last = libh.Flip(m.last)
	case "Size":
		return true, false, fmt.Sprint(n)
	}
	return true, false, ""
}

// one real implementation under test
type impl struct {
	name   string
	d      disk.Disk
	global bool
	k      *simunix.Kernel
	bufs   [2][]byte
	last   []byte
}

var implNames = []string{"mem", "file", "async_mem", "async_file", "global_mem", "global_file"}

func mk(name string, n uint64) *impl {
	im := &impl{name: name}
	im.bufs[0], im.bufs[1] = libh.Pat("D"), libh.Pat("D")
	if strings.HasSuffix(name, "file") {
		im.k = simunix.New()
		simunix.K = im.k
	}
	var err error
	switch name {
	case "mem", "global_mem":
		im.d = disk.NewMemDisk(n)
	case "file", "global_file":
		im.d, err = disk.NewFileDisk("d.img", n)
	case "async_mem":
		im.d = async_disk.NewMemDisk(n)
	case "async_file":
		im.d, err = async_disk.NewFileDisk("d.img", n)
	}
	if err != nil {
		panic(err)
	}
	im.global = strings.HasPrefix(name, "global")
	return im
}

// do applies one op, returns refused flag, result bytes (R), size
func (im *impl) do(o Op) (refused string, res []byte, size uint64) {
	if im.k != nil {
		simunix.K = im.k
	}
	if im.global {
		disk.Init(im.d)
	}
	refused = libh.Try(func() {
		switch o.K {
		case "W":
			b := libh.Pat(o.P)
			im.last = b
			if im.global {
				disk.Write(o.A, b)
			} else {
				im.d.Write(o.A, b)
			}
		case "Wb":
			if im.global {
				disk.Write(o.A, im.bufs[o.I])
			} else {
				im.d.Write(o.A, im.bufs[o.I])
			}
		case "WBad":
			b := make([]byte, o.I)
			if im.global {
				disk.Write(0, b)
			} else {
				im.d.Write(0, b)
			}
		case "R":
			if im.global {
				res = disk.Read(o.A)
			} else {
				res = im.d.Read(o.A)
			}
			im.last = res
		case "RT":
			if im.global {
				disk.Get().ReadTo(o.A, im.bufs[o.I])
			} else {
				im.d.ReadTo(o.A, im.bufs[o.I])
			}
		case "M":
			libh.FlipBytes(im.bufs[o.I])
		case "ML":
			libh.FlipBytes(im.last)
		case "Size":
			if im.global {
				size = disk.Size()
			} else {
				size = im.d.Size()
			}
		case "Barrier":
			if im.global {
				disk.Barrier()
			} else {
				im.d.Barrier()
			}
		}
	})
	return
}

func (im *impl) dump(n uint64) (blocks []string, bufs [2]string, last string) {
	if im.k != nil {
		simunix.K = im.k
	}
	for a := uint64(0); a < n; a++ {
		var b []byte
		if p := libh.Try(func() { b = im.d.Read(a) }); p != "" {
			blocks = append(blocks, "panic:"+p)
		} else {
			blocks = append(blocks, libh.Classify(b))
		}
	}
	bufs[0], bufs[1] = libh.Classify(im.bufs[0]), libh.Classify(im.bufs[1])
	if im.last != nil {
		last = libh.Classify(im.last)
	}
	return
}

type cfg struct {
	N        uint64
	Impls    []string
	Depth    int
	Validate bool
}

var tmpRoot string
var validated int64

func apply(c cfg, ops []Op, path []int) bfs.Result {
	m := &model{blocks: make([]string, c.N)}
	for i := range m.blocks {
		m.blocks[i] = "0"
	}
	m.bufs = [2]string{"D", "D"}
	if len(path) == 0 {
		return bfs.Result{Key: m.key()}
	}
	// model run over the prefix
	for _, oi := range path[:len(path)-1] {
		m.step(ops[oi])
	}
	lastOp := ops[path[len(path)-1]]
	enabled, wantRefused, wantRes := m.step(lastOp)
	if !enabled {
		return bfs.Result{Skip: true}
	}
	outcome := lastOp.K
	if wantRefused {
		outcome += ":refused"
	}
	for _, name := range c.Impls {
		im := mk(name, c.N)
		for _, oi := range path[:len(path)-1] {
			im.do(ops[oi])
		}
		if im.k != nil && c.Validate && name == "file" {
			im.k.NoTrace = false
		} else if im.k != nil {
			im.k.NoTrace = true
		}
		refused, res, size := im.do(lastOp)
		fail := func(format string, a ...any) bfs.Result {
			return bfs.Result{Err: fmt.Errorf("%s: %s: %s", name, lastOp, fmt.Sprintf(format, a...))}
		}
		if (refused != "") != wantRefused {
			return fail("refused=%q, reference model says refused=%v", refused, wantRefused)
		}
		if lastOp.K == "R" && !wantRefused {
			if got := libh.Classify(res); got != wantRes {
				return fail("returned block %s, reference model %s", got, wantRes)
			}
		}
		if lastOp.K == "Size" && fmt.Sprint(size) != wantRes {
			return fail("returned %d, reference model %s", size, wantRes)
		}
		blocks, bufs, last := im.dump(c.N)
		if strings.Join(blocks, ",") != strings.Join(m.blocks, ",") {
			return fail("disk contents afterwards %v, reference model %v", blocks, m.blocks)
		}
		if bufs != m.bufs {
			return fail("caller buffers afterwards %v, reference model %v (caller memory changed or not filled)", bufs, m.bufs)
		}
		if last != m.last {
			return fail("last passed/returned slice afterwards %s, reference model %s", last, m.last)
		}
		if im.d.Size() != c.N {
			return fail("Size()=%d afterwards, want %d", im.d.Size(), c.N)
		}
		if im.k != nil && !im.k.NoTrace {
			// replay the system-call trace of the last operation + dump on the real kernel
			if err := validate(c, ops, path); err != nil {
				return bfs.Result{Err: fmt.Errorf("HARNESS simunix/kernel conformance: %v", err)}
			}
		}
	}
	return bfs.Result{Key: m.key(), Outcome: outcome}
}

// validate re-runs the whole path on a traced sim kernel and replays the trace on the real kernel.
func validate(c cfg, ops []Op, path []int) error {
	k := simunix.New()
	simunix.K = k
	d, err := disk.NewFileDisk("d.img", c.N)
	if err != nil {
		return err
	}
	im := &impl{name: "file", d: d, k: k}
	im.bufs[0], im.bufs[1] = libh.Pat("D"), libh.Pat("D")
	for _, oi := range path {
		im.do(ops[oi])
	}
	im.dump(c.N)
	dir, err := os.MkdirTemp(tmpRoot, "r")
	if err != nil {
		return err
	}
	defer os.RemoveAll(dir)
	validated++
	return simunix.ReplayOnKernel(k.Trace, dir, k.Tree())
}

func configs(tier string) []cfg {
	var out []cfg
	maxN, depth := uint64(2), 4
	if tier == "thorough" {
		maxN, depth = 3, 6
	}
	for n := uint64(0); n <= maxN; n++ {
		for _, im := range implNames {
			d := depth
			if tier == "thorough" && n == 3 {
				d = 5
			}
			out = append(out, cfg{N: n, Impls: []string{im}, Depth: d, Validate: im == "file"})
		}
	}
	return out
}

// capacityChecks: what lies beyond len() of a slice is caller memory too.  Every
// sequence of 2..3 Reads with all results kept alive, then one result overwritten
// over its full capacity: no other result and no block may change.  Write
// buffers of every (len, cap) on a grid: refused unless len is the block size,
// never written to, and only len bytes are stored.  ReadTo buffers with spare
// capacity: the spare bytes stay untouched.
func capacityChecks(acc *ev.Acc) {
	viol := func(name, what, msg string) {
		acc.Violate(ev.Violation{Key: "C09/capacity/" + name + "/" + what, Msg: name + ": " + msg, Replay: map[string]any{"cfg": cfg{N: 0}, "path": []int{}, "mode": "capacity"}})
	}
	for _, name := range implNames {
		use := func(im *impl) {
			if im.k != nil {
				simunix.K = im.k
			}
			if im.global {
				disk.Init(im.d)
			}
		}
		read := func(im *impl, a uint64) []byte {
			if im.global {
				return disk.Read(a)
			}
			return im.d.Read(a)
		}
		write := func(im *impl, a uint64, b []byte) {
			if im.global {
				disk.Write(a, b)
			} else {
				im.d.Write(a, b)
			}
		}
		// 1. read results kept alive
		var seqs [][]uint64
		for a := uint64(0); a < 2; a++ {
			for b := uint64(0); b < 2; b++ {
				seqs = append(seqs, []uint64{a, b})
				for c := uint64(0); c < 2; c++ {
					seqs = append(seqs, []uint64{a, b, c})
				}
			}
		}
		pats := []string{"A", "B"}
		for _, sq := range seqs {
			for victim := range sq {
				im := mk(name, 2)
				use(im)
				write(im, 0, libh.Pat("A"))
				write(im, 1, libh.Pat("B"))
				var held [][]byte
				for _, a := range sq {
					held = append(held, read(im, a))
				}
				v := held[victim]
				full := v[:cap(v)]
				for i := range full {
					full[i] = 0xDD
				}
				acc.Add("transitions", int64(len(sq)+3))
				acc.Add("capacity_histories", 1)
				for j, h := range held {
					if j != victim && libh.Classify(h) != pats[sq[j]] {
						viol(name, fmt.Sprintf("read-results-alias/%v/%d", sq, victim), fmt.Sprintf("Reads of %v kept alive; overwriting result #%d over its full capacity (len %d, cap %d) changed result #%d to %s", sq, victim, len(v), cap(v), j, libh.Classify(h)))
					}
				}
				for a := uint64(0); a < 2; a++ {
					if got := libh.Classify(read(im, a)); got != pats[a] {
						viol(name, fmt.Sprintf("read-result-aliases-disk/%v/%d", sq, victim), fmt.Sprintf("overwriting a Read result over its full capacity changed block %d to %s", a, got))
					}
				}
			}
		}
		// 2. write buffers on a (len, cap) grid
		for _, l := range []int{0, 1, 4095, 4096, 4097, 8191, 8192} {
			for _, extra := range []int{0, 1, 4096, 8192} {
				im := mk(name, 2)
				use(im)
				write(im, 0, libh.Pat("A"))
				backing := make([]byte, l+extra)
				for i := range backing {
					backing[i] = byte(0x40 + i%7)
				}
				before := append([]byte(nil), backing...)
				b := backing[:l]
				p := libh.Try(func() { write(im, 0, b) })
				acc.Add("transitions", 2)
				acc.Add("capacity_histories", 1)
				what := fmt.Sprintf("write-len%d-cap%d", l, l+extra)
				if (p == "") != (l == 4096) {
					viol(name, what+"/refusal", fmt.Sprintf("Write of a buffer with len %d cap %d: refused=%q (only a %d-byte buffer is a block)", l, l+extra, p, 4096))
				}
				if string(backing) != string(before) {
					viol(name, what+"/caller-memory", fmt.Sprintf("Write of a buffer with len %d cap %d changed the caller's memory", l, l+extra))
				}
				got := read(im, 0)
				want := libh.Pat("A")
				if l == 4096 {
					want = before[:4096]
				}
				if string(got) != string(want) {
					viol(name, what+"/contents", fmt.Sprintf("after Write of a buffer with len %d cap %d block 0 holds %s (neither the old block nor the buffer's first len bytes)", l, l+extra, libh.Classify(got)))
				}
				if string(read(im, 1)) != string(make([]byte, 4096)) {
					viol(name, what+"/other-block", fmt.Sprintf("Write(0) of a buffer with len %d cap %d changed block 1", l, l+extra))
				}
			}
		}
		// 2b. ReadTo buffers on a length grid: only a 4096-byte buffer is a block, for every implementation alike
		for _, l := range []int{0, 1, 4095, 4097, 8192} {
			im := mk(name, 2)
			use(im)
			write(im, 1, libh.Pat("B"))
			buf := make([]byte, l)
			for i := range buf {
				buf[i] = 0xEE
			}
			p := libh.Try(func() {
				if im.global {
					disk.Get().ReadTo(1, buf)
				} else {
					im.d.ReadTo(1, buf)
				}
			})
			acc.Add("transitions", 2)
			acc.Add("capacity_histories", 1)
			if p == "" {
				viol(name, fmt.Sprintf("readto-len%d/refusal", l), fmt.Sprintf("ReadTo into a buffer of %d bytes was accepted (only a %d-byte buffer is a block)", l, 4096))
			}
		}
		// 3. ReadTo into a block-sized window of a larger array
		for _, extra := range []int{1, 4096} {
			im := mk(name, 2)
			use(im)
			write(im, 1, libh.Pat("B"))
			backing := make([]byte, 4096+extra)
			for i := range backing {
				backing[i] = 0xEE
			}
			if im.global {
				disk.Get().ReadTo(1, backing[:4096])
			} else {
				im.d.ReadTo(1, backing[:4096])
			}
			acc.Add("transitions", 2)
			if libh.Classify(backing[:4096]) != "B" {
				viol(name, fmt.Sprintf("readto-cap%d/contents", 4096+extra), "ReadTo into a window of a larger array did not fill the window")
			}
			for _, x := range backing[4096:] {
				if x != 0xEE {
					viol(name, fmt.Sprintf("readto-cap%d/spare", 4096+extra), "ReadTo wrote beyond len(buf) into the caller's spare capacity")
					break
				}
			}
		}
	}
}

// hugeChecks: sizes and addresses whose byte offset does not fit (numBlocks*4096 and a*4096 wrap at 2^52 blocks).
// Only the file-backed disks are asked (a memory disk of that size cannot be allocated); creation may be refused,
// otherwise the registers stay independent.
func hugeChecks(acc *ev.Acc) {
	for _, name := range []string{"file", "async_file"} {
		for _, nb := range []uint64{1 << 52, 1<<52 + 2, 1 << 63, 1<<64 - 1} {
			k := simunix.New()
			simunix.K = k
			var d disk.Disk
			var err error
			p := libh.Try(func() {
				if name == "file" {
					d, err = disk.NewFileDisk("d.img", nb)
				} else {
					d, err = async_disk.NewFileDisk("d.img", nb)
				}
			})
			acc.Add("transitions", 1)
			acc.Add("capacity_histories", 1)
			if p != "" || err != nil {
				continue // refused: fine
			}
			viol := func(what, msg string) {
				acc.Violate(ev.Violation{Key: fmt.Sprintf("C09/huge/%s/%d/%s", name, nb, what), Msg: fmt.Sprintf("%s disk of %d blocks: %s", name, nb, msg), Replay: map[string]any{"cfg": cfg{N: 0}, "path": []int{}, "mode": "capacity"}})
			}
			if d.Size() != nb {
				viol("size", fmt.Sprintf("Size() = %d", d.Size()))
				continue
			}
			for _, hi := range []uint64{1 << 52, nb - 1} {
				if hi >= nb || hi == 0 {
					continue
				}
				if q := libh.Try(func() { d.Write(0, libh.Pat("A")) }); q != "" {
					break // the first block cannot be written: refused in effect
				}
				q := libh.Try(func() { d.Write(hi, libh.Pat("B")) })
				acc.Add("transitions", 3)
				var got []byte
				if r := libh.Try(func() { got = d.Read(0) }); r == "" && libh.Classify(got) != "A" {
					viol(fmt.Sprintf("alias/%d", hi), fmt.Sprintf("Write(%d) (refused=%q) changed block 0 to %s: the byte offset %d*4096 wraps", hi, q, libh.Classify(got), hi))
				}
			}
		}
	}
}

// globalRebind: the package-level wrappers must follow Init: every sequence of
// <=2 wrapper operations before and after re-pointing the global disk at a disk
// of another size (and another kind), against two independent register arrays.
func globalRebind(acc *ev.Acc) {
	type gop struct {
		k string
		a uint64
	}
	ops := []gop{{"Size", 0}, {"W", 0}, {"R", 0}, {"W", 1}, {"R", 1}, {"Barrier", 0}}
	var seqs [][]gop
	seqs = append(seqs, nil)
	for _, a := range ops {
		seqs = append(seqs, []gop{a})
		for _, b := range ops {
			seqs = append(seqs, []gop{a, b})
		}
	}
	kinds := []string{"mem", "file"}
	for _, k1 := range kinds {
		for _, k2 := range kinds {
			for n1 := uint64(0); n1 <= 2; n1++ {
				for n2 := uint64(0); n2 <= 2; n2++ {
					if n1 == n2 && k1 == k2 {
						continue
					}
					for _, s1 := range seqs {
						for _, s2 := range seqs {
							d1, d2 := mk(k1, n1), mk(k2, n2)
							m1, m2 := make([]string, n1), make([]string, n2)
							for i := range m1 {
								m1[i] = "0"
							}
							for i := range m2 {
								m2[i] = "0"
							}
							var bad string
							runSeq := func(im *impl, m []string, seq []gop, phase string) {
								for _, o := range seq {
									if bad != "" {
										return
									}
									if im.k != nil {
										simunix.K = im.k
									}
									var got string
									p := libh.Try(func() {
										switch o.k {
										case "Size":
											got = fmt.Sprint(disk.Size())
										case "W":
											disk.Write(o.a, libh.Pat("A"))
										case "R":
											got = libh.Classify(disk.Read(o.a))
										case "Barrier":
											disk.Barrier()
										}
									})
									want, wantRefused := "", false
									switch o.k {
									case "Size":
										want = fmt.Sprint(len(m))
									case "W":
										if o.a >= uint64(len(m)) {
											wantRefused = true
										} else {
											m[o.a] = "A"
										}
									case "R":
										if o.a >= uint64(len(m)) {
											wantRefused = true
										} else {
											want = m[o.a]
										}
									}
									if (p != "") != wantRefused || (p == "" && got != want) {
										bad = fmt.Sprintf("%s: wrapper %s(%d) gives %q (refused=%q), the disk currently installed by Init has %d blocks and the reference says %q (refused=%v)", phase, o.k, o.a, got, p, len(m), want, wantRefused)
									}
								}
							}
							disk.Init(d1.d)
							runSeq(d1, m1, s1, "after Init(d1)")
							disk.Init(d2.d)
							runSeq(d2, m2, s2, "after Init(d2)")
							disk.Init(d1.d)
							runSeq(d1, m1, []gop{{"Size", 0}, {"R", 0}}, "after Init(d1) again")
							acc.Add("transitions", int64(len(s1)+len(s2)+2))
							acc.Add("global_rebind_histories", 1)
							if bad != "" {
								acc.Violate(ev.Violation{Key: fmt.Sprintf("C09/global-rebind/%s%d-%s%d/%v/%v", k1, n1, k2, n2, s1, s2), Msg: fmt.Sprintf("global wrappers: Init(%s disk of %d blocks); %v; Init(%s disk of %d blocks); %v: %s", k1, n1, s1, k2, n2, s2, bad), Replay: map[string]any{"cfg": cfg{N: 0}, "path": []int{}, "mode": "global-rebind"}})
							}
						}
					}
				}
			}
		}
	}
}

type replayFile struct {
	Replay struct {
		Cfg  cfg    `json:"cfg"`
		Path []int  `json:"path"`
		Mode string `json:"mode"`
	} `json:"replay"`
}

func main() {
	tier := flag.String("tier", "quick", "")
	replay := flag.String("replay", "", "")
	flag.Parse()
	start := time.Now()
	tmpRoot = libh.TempDir("c09")
	defer os.RemoveAll(tmpRoot)
	if *replay != "" {
		var rf replayFile
		b, err := os.ReadFile(*replay)
		if err == nil {
			err = json.Unmarshal(b, &rf)
		}
		if err != nil {
			fmt.Fprintln(os.Stderr, err)
			os.Exit(3)
		}
		if rf.Replay.Mode == "global-rebind" || rf.Replay.Mode == "capacity" {
			a := ev.NewAcc()
			if rf.Replay.Mode == "capacity" {
				capacityChecks(a)
			} else {
				globalRebind(a)
			}
			for i, v := range a.Violations {
				if i < 5 {
					fmt.Println(v.Msg)
				}
			}
			if len(a.Violations) > 0 {
				fmt.Printf("VIOLATION property=C09 replay=%s\n", *replay)
				os.RemoveAll(tmpRoot)
				os.Exit(1)
			}
			fmt.Println("replay: property holds on every re-binding history")
			return
		}
		ops := alphabet(rf.Replay.Cfg.N)
		for i := 1; i <= len(rf.Replay.Path); i++ {
			r := apply(rf.Replay.Cfg, ops, rf.Replay.Path[:i])
			fmt.Printf("%-22s -> key=%s err=%v\n", ops[rf.Replay.Path[i-1]], r.Key, r.Err)
			if r.Err != nil {
				fmt.Printf("VIOLATION property=C09 replay=%s\n", *replay)
				os.RemoveAll(tmpRoot)
				os.Exit(1)
			}
		}
		fmt.Println("replay: property holds on this history")
		return
	}
	cfgs := configs(*tier)
	if ev.IsChild() {
		i, n := ev.Shard()
		acc := ev.NewAcc()
		for ci, c := range cfgs {
			if ci%n != i {
				continue
			}
			ops := alphabet(c.N)
			st, fails := bfs.Search(len(ops), c.Depth, start.Add(20*time.Minute), 20, func(p []int) bfs.Result { return apply(c, ops, p) })
			acc.Add("states", st.States)
			acc.Add("transitions", st.Transitions)
			acc.Add("configurations", 1)
			acc.SetMax("max_depth", int64(st.MaxDepth))
			if st.Fixpoint {
				acc.Add("configurations_at_fixpoint", 1)
			} else {
				acc.Note(fmt.Sprintf("N=%d impls=%v: %s at depth %d (all histories up to that depth covered)", c.N, c.Impls, st.Capped, c.Depth))
				if st.Capped == "internal deadline" {
					acc.NotExhaustive("internal deadline")
				}
			}
			for o := range st.Outcomes {
				acc.Set("outcomes", o)
			}
			acc.Sample(map[string]any{"N": c.N, "impls": c.Impls, "depth": c.Depth, "states": st.States, "transitions": st.Transitions, "alphabet": len(ops), "example_ops": []string{ops[0].String(), ops[len(ops)/2].String()}}, 2)
			for _, f := range fails {
				var names []string
				for _, oi := range f.Path {
					names = append(names, ops[oi].String())
				}
				kind := strings.SplitN(f.Err.Error(), ":", 3)
				acc.Violate(ev.Violation{
					Key:    fmt.Sprintf("C09/N%d/%s/%s", c.N, kind[0], strings.Join(names, ";")),
					Msg:    fmt.Sprintf("N=%d history %s: %v", c.N, strings.Join(names, "; "), f.Err),
					Replay: map[string]any{"cfg": c, "path": f.Path, "ops": names},
				})
			}
		}
		if i == n-1 {
			globalRebind(acc)
			capacityChecks(acc)
			hugeChecks(acc)
		}
		acc.Add("traces_validated_against_impl", validated)
		acc.EmitChild()
		return
	}
	acc, err := ev.RunSharded(0)
	if err != nil {
		fmt.Fprintln(os.Stderr, "harness error:", err)
		os.Exit(3)
	}
	for _, v := range acc.Violations {
		if strings.Contains(v.Msg, "HARNESS") {
			fmt.Fprintln(os.Stderr, "harness error:", v.Msg)
			os.Exit(3)
		}
	}
	os.Exit(acc.Done(ev.Finish{
		Prop: "C09", Tier: *tier, Level: "model_checking", Start: start,
		Rule:        "explicit-state BFS over histories of Write(a,A|B), Write(a,buf_i), Write(0,len 0/4095/4097), Read(a), ReadTo(a,buf_i), Mutate(buf_i), Mutate(last passed/returned slice), Size, Barrier with a in {0..N, 2^63, 2^64-1} on disks of N blocks; each history replayed on fresh real MemDisk, FileDisk (over simunix), the async_disk aliases and the global wrappers; state key = reference-model state (pattern id per block, per caller buffer, last slice); after the last operation the result, refusal, full disk dump, caller buffers and Size are compared with the register-array reference; simunix traces of the file disk replayed call by call on the real kernel; plus every sequence of <=2 wrapper operations before and after re-pointing the global disk (Init) at a disk of another size or kind; plus capacity isolation: 2..3 Read results kept alive and one overwritten over its full capacity, Write buffers on a (len, cap) grid, ReadTo into a window of a larger array",
		Assumptions: []string{"simunix models the kernel for FileDisk (validated per history by replay on the real kernel)", "ReadTo buffers have len == block size (a wrong-sized read buffer is outside the stated property)"},
	}))
}
