// c01/c02: differential execution of generated Go programs against the
// GooseLang reference interpretation of goose's output.
package main

import (
	"encoding/json"
	"flag"
	"fmt"
	"os"
	"strings"
	"time"

	"verif/diffexec"
	"verif/ev"
)

func main() {
	prop := flag.String("prop", "C01", "")
	tier := flag.String("tier", "quick", "")
	replay := flag.String("replay", "", "")
	goose := flag.String("bin", "", "goose binary")
	bridgeBin := flag.String("bridge", "", "gooseb binary")
	only := flag.String("only", "", "single descriptor")
	verbose := flag.Bool("v", false, "")
	flag.Parse()
	start := time.Now()
	work, _ := os.MkdirTemp("", "verif-"+strings.ToLower(*prop)+"-")
	defer os.RemoveAll(work)
	cfg := diffexec.Cfg{Prop: *prop, Tier: *tier, Goose: *goose, Work: work, Only: *only, Verbose: *verbose, Bridge: *bridgeBin, Exclude: map[string]string{}}
	if *replay != "" {
		var rf struct {
			Replay struct {
				Descriptor string `json:"descriptor"`
			} `json:"replay"`
		}
		b, _ := os.ReadFile(*replay)
		if json.Unmarshal(b, &rf) != nil || rf.Replay.Descriptor == "" {
			fmt.Fprintln(os.Stderr, "bad replay file")
			os.Exit(3)
		}
		cfg.Only, cfg.Tier, cfg.Verbose = rf.Replay.Descriptor, "thorough", true
		acc := ev.NewAcc()
		if strings.HasPrefix(rf.Replay.Descriptor, "lookalike:") {
			diffexec.RunLookalikes(cfg, acc)
			var keep []ev.Violation
			for _, v := range acc.Violations {
				if strings.Contains(v.Key, "/"+strings.TrimPrefix(rf.Replay.Descriptor, "lookalike:")+"/") {
					keep = append(keep, v)
				}
			}
			acc.Violations = keep
		} else {
			diffexec.Run(cfg, acc)
		}
		os.RemoveAll(work)
		if len(acc.Violations) > 0 {
			fmt.Println(acc.Violations[0].Msg)
			fmt.Printf("VIOLATION property=%s replay=%s\n", *prop, *replay)
			os.Exit(1)
		}
		fmt.Println("replay: property holds on this program")
		return
	}
	acc := ev.NewAcc()
	diffexec.Run(cfg, acc)
	if *prop == "C02" {
		diffexec.RunLookalikes(cfg, acc)
	}
	os.RemoveAll(work)
	rule := "programs = every (position x form) of the grammar: 20 statement positions (function tail / non-tail, if-then, early return, else, if/else returns, else-if chain, three-clause / condition-only / range loops, before break/continue, bare blocks, closure body, nested loops, two ifs deep, pointer- and value-receiver method bodies; quick: 11 of them) x all statement and expression forms (arithmetic, comparison and boolean operators per width, conversions, strings, assignment and op-assign to every l-value kind, inc/dec, define/var, multiple assignment and 2/3/4-value destructuring, maps, slices incl. slices of structs, struct values/pointers/nested fields, pointers, calls, methods, recursion, closures, constants, machine primitives, compound statements), each with the whole environment (variables, struct value and pointer, slice, slice of structs, map) observed in the result; each program translated by the real goose, executed natively by Go and on the GooseLang reference interpreter on 28 boundary input vectors; non-trivial = program with at least one input on which Go returns normally; constructs with known translation defects are enumerated in dedicated families never used by core programs"
	if *prop == "C02" {
		rule = "catalogue of constructs outside or at the edge of the supported subset (unsupported operators and assignment operators, conversions, slice forms, literals, statement kinds, control-flow shapes, builtin and FFI-package look-alikes ...) x statement positions, plus 19 look-alike packages (user functions named len/cap/append/copy/delete/panic/new/make, local packages named disk/machine/filesys/log/fmt/sync/util/primitive); per declaration: rejected with a conversion error, or accepted and faithful (same oracle as C01: Go result == GooseLang reference interpretation on 28 input vectors)"
	}
	os.Exit(acc.Done(ev.Finish{
		Prop: *prop, Tier: *tier, Level: "exploration", Start: start, Rule: rule,
		Assumptions: []string{"GooseLang semantics = the reference interpreter gl (gated by the repository's own semantics corpus: every test* of internal/examples/semantics evaluates to #true)", "programs deeper than the grammar and inputs outside the boundary vectors are not covered"},
		Extra:       map[string]any{"distinct_nontrivial": len(acc.Sets["nontrivial"])},
	}))
}
