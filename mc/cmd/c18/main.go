// c18: test_gen emits exactly one Go and one Coq test per test function.
// Bounded-exhaustive enumeration of package directories built from a
// file-kind alphabet x function-header alphabet; the real test_gen binary is
// run in both modes and compared with a go/parser-based reference extractor;
// distinct generated Go files are compiled against their package.
package main

import (
	"bytes"
	"encoding/json"
	"flag"
	"fmt"
	"go/ast"
	"go/build"
	"go/parser"
	"go/token"
	"os"
	"os/exec"
	"path/filepath"
	"regexp"
	"sort"
	"strings"
	"sync"
	"time"

	"verif/ev"
)

// function header alphabet
type Fn struct {
	ID   string
	Src  string // source text (top-level, gofmt style)
	Test string // "" not a test; else full function name
}

var fns = []Fn{
	{"testA", "func testA() bool {\n\treturn true\n}\n", "testA"},
	{"failing_testB", "func failing_testB() bool {\n\treturn false\n}\n", "failing_testB"},
	{"disabled_testC", "func disabled_testC() bool {\n\treturn true\n}\n", ""},
	{"helperD", "func helperD(x uint64) uint64 {\n\treturn x\n}\n", ""},
	{"methodTestE", "type S struct{}\n\nfunc (s S) testE() bool {\n\treturn true\n}\n", ""},
	{"test9", "func test9() bool {\n\treturn true\n}\n", "test9"},
	{"Testcap", "func Testcap() bool {\n\treturn true\n}\n", ""},
	{"test_g", "func test_g() bool {\n\treturn true\n}\n", "test_g"},
	{"testUni", "func testÄ() bool {\n\treturn true\n}\n", "testÄ"},
	{"failing_testA", "func failing_testA() bool {\n\treturn false\n}\n", "failing_testA"},
	{"decoyComment", "/*\nfunc testInComment() bool {\n\treturn true\n}\n*/\n", ""},
	{"decoyRaw", "var doc = `\nfunc testInRaw() bool {\n`\n", ""},
	{"testInfixFailing", "func testRead_failing_disk() bool {\n\treturn true\n}\n", "testRead_failing_disk"},
	{"infixTest", "func mytestX() bool {\n\treturn true\n}\n", ""},
	{"decoyIndentComment", "/*\n\tfunc testIndentedInComment() bool {\n\t\treturn true\n\t}\n*/\n", ""},
	{"decoyIndentRaw", "var doc2 = `\n    func testIndentedInRaw() bool {\n`\n", ""},
	{"testParam", "func testParam(x uint64) bool {\n\treturn x == 0\n}\n", "testParam"},
	{"testGeneric", "func testGeneric[T comparable](a T, b T) bool {\n\treturn a == b\n}\n", ""}, // cannot be called without instantiation: not a test
	{"testOtherResult", "func testOtherResult() uint64 {\n\treturn 1\n}\n", "testOtherResult"},
	{"testLatest", "func testLatestValue() bool {\n\treturn true\n}\n", "testLatestValue"},
	{"failing_testRetest", "func failing_testRetestfailing_test() bool {\n\treturn false\n}\n", "failing_testRetestfailing_test"},
	{"strWithCommentOpen", "var pat = \"logs/*\"\n", ""},
	{"lineCommentWithOpen", "// matches a/* and b\nvar pat2 = 1\n", ""},
	{"strWithCommentClose", "var pat3 = \"*/ end\"\n", ""},
	{"testLong", "func testWith2Words() bool {\n\treturn helper2()\n}\n\nfunc helper2() bool {\n\treturn true\n}\n", "testWith2Words"},
}

type Dir struct {
	F1     []int  `json:"f1"` // indices into fns for a.go
	F2     []int  `json:"f2"` // for b.go (nil = no second file)
	Extra  string `json:"extra"`
	Name1  string `json:"name1"`            // name of the first source file ("" = a.go)
	Parent string `json:"parent,omitempty"` // name of the directory's parent (characters that mean something to globbing or shells)
}

// source file names that share a prefix or suffix with the names the generators filter on
var fileNames = []string{"latest.go", "a.gold.go", "gold.v.go", "test_util.go", "a_testing.go", "a~b.go", "Zeta.go", "B.go", "_a.go", "0.go"}

func (d Dir) ID() string {
	n := func(x []int) string {
		var s []string
		for _, i := range x {
			s = append(s, fns[i].ID)
		}
		return strings.Join(s, "+")
	}
	if d.Parent != "" {
		return fmt.Sprintf("in(%s)a[%s]b[%s]extra=%s", d.Parent, n(d.F1), n(d.F2), d.Extra)
	}
	if d.Name1 != "" {
		return fmt.Sprintf("%s[%s]b[%s]extra=%s", d.Name1, n(d.F1), n(d.F2), d.Extra)
	}
	return fmt.Sprintf("a[%s]b[%s]extra=%s", n(d.F1), n(d.F2), d.Extra)
}

var extras = []string{"none", "x_test.go", "x.gold.v", "x.go~", "subdir", "README.md", "zz.txt", "symlink", "Z_ext_test.go", "dotfile", "underscore", "lockfile", "longline", "buildignore", "goos", "helper_suite"}

func (d Dir) files() map[string]string {
	out := map[string]string{}
	mk := func(idx []int) string {
		var b strings.Builder
		b.WriteString("package semantics\n\n")
		for _, i := range idx {
			b.WriteString(fns[i].Src)
			b.WriteString("\n")
		}
		return b.String()
	}
	if d.Name1 != "" {
		out[d.Name1] = mk(d.F1)
	} else {
		out["a.go"] = mk(d.F1)
	}
	if d.F2 != nil {
		out["b.go"] = mk(d.F2)
	}
	switch d.Extra {
	case "x_test.go":
		out["x_test.go"] = "package semantics\n\nfunc testInTestFile() bool {\n\treturn true\n}\n"
	case "x.gold.v":
		out["x.gold.v"] = "(* gold *)\nfunc testInGold() bool {\nDefinition x := 1.\n"
	case "x.go~":
		out["x.go~"] = "package semantics\n\nfunc testInBackup() bool {\n\treturn true\n}\n"
	case "subdir":
		out["sub/c.go"] = "package sub\n\nfunc testInSub() bool {\n\treturn true\n}\n"
	case "README.md":
		out["README.md"] = "# notes\n\nfunc testInReadme() bool {\n"
	case "Z_ext_test.go":
		// an external test file (package semantics_test) that sorts before every other file
		out["Z_ext_test.go"] = "package semantics_test\n\nfunc testInExternalTest() bool {\n\treturn true\n}\n"
	case "zz.txt":
		out["zz.txt"] = "func failing_testInTxt() bool {\n"
	case "buildignore":
		// a generator excluded from the package by a build constraint
		out["gen.go"] = "//go:build ignore\n\npackage main\n\nfunc testdata() bool {\n\treturn true\n}\n\nfunc main() {\n\ttestdata()\n}\n"
	case "goos":
		out["x_windows.go"] = "package semantics\n\nfunc testOnWindows() bool {\n\treturn true\n}\n"
	case "helper_suite":
		// a helper named like an identifier the fixed header of the generated Go file uses
		out["h.go"] = "package semantics\n\nfunc suite() bool {\n\treturn true\n}\n"
	case "dotfile":
		// files whose names begin with "." or "_" are not part of the package (go/build ignores them)
		out[".b.go"] = "package semantics\n\nfunc testInDotFile() bool {\n\treturn true\n}\n"
	case "underscore":
		out["_b.go"] = "package semantics\n\nfunc testInUnderscoreFile() bool {\n\treturn true\n}\n"
	case "lockfile":
		// runDir makes .#a.go a dangling symbolic link (an emacs lock file)
		out[".#a.go"] = ""
	case "longline":
		// a gofmt-clean line longer than bufio.Scanner's default token limit, followed by a test function
		out["l.go"] = "package semantics\n\nconst blob = \"" + strings.Repeat("x", 70000) + "\"\n\nfunc testAfterLongLine() bool {\n\treturn len(blob) > 0\n}\n"
	case "symlink":
		// runDir makes s.go a symbolic link to a file outside the directory (go list and the compiler follow it)
		out["s.go"] = "package semantics\n\nfunc testViaSymlink() bool {\n\treturn true\n}\n"
	}
	return out
}

type T struct {
	Name string // full function name
	Fail bool
}

// reference: go/parser over the package's non-test Go files in name order
func expected(dir string) ([]T, error) {
	ents, err := os.ReadDir(dir)
	if err != nil {
		return nil, err
	}
	var out []T
	for _, e := range ents {
		n := e.Name()
		if e.IsDir() || !strings.HasSuffix(n, ".go") || strings.HasSuffix(n, "_test.go") || strings.HasPrefix(n, ".") || strings.HasPrefix(n, "_") {
			continue // as go/build: not a source file of the package
		}
		if ok, err := build.Default.MatchFile(dir, n); err != nil || !ok {
			continue // excluded by a build constraint or a GOOS/GOARCH suffix
		}
		fset := token.NewFileSet()
		f, err := parser.ParseFile(fset, filepath.Join(dir, n), nil, 0)
		if err != nil {
			return nil, err
		}
		for _, dcl := range f.Decls {
			fd, ok := dcl.(*ast.FuncDecl)
			if !ok || fd.Recv != nil || fd.Type.TypeParams != nil {
				continue
			}
			name := fd.Name.Name
			switch {
			case strings.HasPrefix(name, "failing_test") && len(name) > len("failing_test"):
				out = append(out, T{name, true})
			case strings.HasPrefix(name, "test") && len(name) > len("test"):
				out = append(out, T{name, false})
			}
		}
	}
	return out, nil
}

var coqRe = regexp.MustCompile(`^(Fail )?Example (\S+)_ok : (\S+) #\(\) ~~> #true := t\.$`)

func parseCoq(out string) (ts []T, problem string) {
	for _, l := range strings.Split(out, "\n") {
		if strings.Contains(l, "Example") {
			m := coqRe.FindStringSubmatch(l)
			if m == nil {
				return nil, "malformed Example line: " + l
			}
			fail := m[1] != ""
			if fail != strings.HasPrefix(m[3], "failing_") {
				return nil, "Fail marking does not match the function name: " + l
			}
			if strings.TrimPrefix(m[3], "failing_") != m[2] {
				return nil, "example name does not match the function: " + l
			}
			ts = append(ts, T{m[3], fail})
		}
	}
	return ts, ""
}

func parseGo(src string) (ts []T, methods []string, problem string) {
	fset := token.NewFileSet()
	f, err := parser.ParseFile(fset, "generated_test.go", src, 0)
	if err != nil {
		return nil, nil, "generated Go file does not parse: " + err.Error()
	}
	if f.Name.Name != "semantics" {
		return nil, nil, "generated Go file is in package " + f.Name.Name + ", the test functions live in package semantics (it cannot call them)"
	}
	for _, dcl := range f.Decls {
		fd, ok := dcl.(*ast.FuncDecl)
		if !ok || fd.Recv == nil {
			continue
		}
		methods = append(methods, fd.Name.Name)
		called := ""
		ast.Inspect(fd.Body, func(n ast.Node) bool {
			if c, ok := n.(*ast.CallExpr); ok {
				if id, ok := c.Fun.(*ast.Ident); ok && len(c.Args) == 0 {
					called = id.Name
				}
			}
			return true
		})
		if called == "" {
			return nil, methods, "test method " + fd.Name.Name + " calls no test function"
		}
		ts = append(ts, T{called, strings.HasPrefix(called, "failing_")})
	}
	return ts, methods, ""
}

func same(a, b []T) bool {
	if len(a) != len(b) {
		return false
	}
	for i := range a {
		if a[i] != b[i] {
			return false
		}
	}
	return true
}

// diff renders got vs want as +extra / -missing names (order differences as "order")
func diff(got, want []T) string {
	w := map[string]bool{}
	g := map[string]bool{}
	for _, t := range want {
		w[t.Name] = true
	}
	for _, t := range got {
		g[t.Name] = true
	}
	var parts []string
	for _, t := range got {
		if !w[t.Name] {
			parts = append(parts, "+"+t.Name)
		}
	}
	for _, t := range want {
		if !g[t.Name] {
			parts = append(parts, "-"+t.Name)
		}
	}
	if len(parts) == 0 {
		return "order-or-multiplicity"
	}
	sort.Strings(parts)
	return strings.Join(parts, ",")
}

func names(ts []T) string {
	var s []string
	for _, t := range ts {
		s = append(s, t.Name)
	}
	return "[" + strings.Join(s, " ") + "]"
}

type result struct {
	kind, msg string
	goSrc     string
	want      []T
}

func runDir(bin, root string, d Dir) result {
	if d.Parent != "" {
		root = filepath.Join(root, d.Parent)
		os.MkdirAll(root, 0755)
	}
	dir, err := os.MkdirTemp(root, "d")
	if err != nil {
		panic(err)
	}
	defer os.RemoveAll(dir)
	for n, c := range d.files() {
		p := filepath.Join(dir, n)
		os.MkdirAll(filepath.Dir(p), 0755)
		if d.Extra == "lockfile" && n == ".#a.go" {
			if err := os.Symlink("user@host.4242:1700000000", p); err != nil {
				return result{kind: "HARNESS", msg: err.Error()}
			}
			continue
		}
		if d.Extra == "symlink" && n == "s.go" {
			shared := dir + ".shared"
			os.MkdirAll(shared, 0755)
			defer os.RemoveAll(shared)
			os.WriteFile(filepath.Join(shared, "s.go"), []byte(c), 0644)
			if err := os.Symlink(filepath.Join(shared, "s.go"), p); err != nil {
				return result{kind: "HARNESS", msg: err.Error()}
			}
			continue
		}
		os.WriteFile(p, []byte(c), 0644)
	}
	want, err := expected(dir)
	if err != nil {
		return result{kind: "HARNESS", msg: err.Error()}
	}
	run := func(mode string) (string, string) {
		var out, errb bytes.Buffer
		cmd := exec.Command(bin, mode, dir)
		cmd.Stdout, cmd.Stderr = &out, &errb
		if err := cmd.Run(); err != nil {
			return "", fmt.Sprintf("test_gen %s failed: %v %s", mode, err, errb.String())
		}
		return out.String(), ""
	}
	coqOut, p := run("-coq")
	if p != "" {
		return result{kind: "crash", msg: p}
	}
	goOut, p := run("-go")
	if p != "" {
		return result{kind: "crash", msg: p}
	}
	// the -out flag: same text, in a file, whatever the file held before
	for _, mode := range []string{"-coq", "-go"} {
		of := filepath.Join(root, filepath.Base(dir)+mode+".out")
		want := coqOut
		if mode == "-go" {
			want = goOut
		}
		os.WriteFile(of, []byte(want+"\n(* stale tail of a longer, older file *)\nfunc testStale() bool {\n"), 0644)
		var errb bytes.Buffer
		cmd := exec.Command(bin, mode, "-out", of, dir)
		cmd.Stderr = &errb
		err := cmd.Run()
		got, _ := os.ReadFile(of)
		os.Remove(of)
		if err != nil {
			return result{kind: "crash", msg: fmt.Sprintf("test_gen %s -out failed: %v %s", mode, err, errb.String())}
		}
		if string(got) != want {
			return result{kind: "out-file-differs(" + mode + ")", msg: fmt.Sprintf("test_gen %s -out <existing longer file>: the file holds %d bytes that differ from what the same command prints to standard output (%d bytes); first difference at byte %d", mode, len(got), len(want), firstDiff(string(got), want))}
		}
	}
	coqTs, p := parseCoq(coqOut)
	if p != "" {
		return result{kind: "coq-malformed", msg: p}
	}
	goTs, methods, p := parseGo(goOut)
	if p != "" {
		return result{kind: "go-malformed", msg: p}
	}
	res := result{goSrc: goOut, want: want}
	switch {
	case !same(coqTs, goTs):
		res.kind, res.msg = "generators-disagree("+diff(goTs, coqTs)+")", fmt.Sprintf("Coq tests %s, Go tests %s (reference %s)", names(coqTs), names(goTs), names(want))
	case !same(coqTs, want):
		res.kind, res.msg = "wrong-set("+diff(coqTs, want)+")", fmt.Sprintf("both generators emit %s, the package's test functions are %s", names(coqTs), names(want))
	}
	if res.kind == "" {
		byMethod := map[string][]string{}
		for i, m := range methods {
			byMethod[m] = append(byMethod[m], goTs[i].Name)
		}
		var dups []string
		for m, fs := range byMethod {
			if len(fs) > 1 {
				sort.Strings(fs)
				dups = append(dups, m+":"+strings.Join(fs, ","))
			}
		}
		if len(dups) > 0 {
			sort.Strings(dups)
			res.kind, res.msg = "go-duplicate-method("+strings.Join(dups, ";")+")", fmt.Sprintf("generated Go file declares a test method twice (does not compile): %v", dups)
		}
	}
	return res
}

func firstDiff(a, b string) int {
	i := 0
	for i < len(a) && i < len(b) && a[i] == b[i] {
		i++
	}
	return i
}

func seqs(maxLen int) [][]int {
	var out [][]int
	var rec func(cur []int)
	rec = func(cur []int) {
		if len(cur) > 0 {
			out = append(out, append([]int(nil), cur...))
		}
		if len(cur) == maxLen {
			return
		}
		for i := range fns {
			dup := false
			for _, c := range cur {
				if c == i {
					dup = true
				}
			}
			if !dup {
				rec(append(cur, i))
			}
		}
	}
	rec(nil)
	return out
}

func disjoint(a, b []int) bool {
	for _, x := range a {
		for _, y := range b {
			if x == y {
				return false
			}
		}
	}
	return true
}

func dirs(tier string) []Dir {
	var out []Dir
	l1 := 2
	if tier == "thorough" {
		l1 = 3
	}
	s1 := seqs(l1)
	s2 := seqs(1)
	if tier == "thorough" {
		s2 = seqs(2)
	}
	for _, a := range seqs(1) {
		for _, fn := range fileNames {
			out = append(out, Dir{F1: a, Extra: "none", Name1: fn})
			out = append(out, Dir{F1: a, F2: []int{(a[0] + 1) % len(fns)}, Extra: "none", Name1: fn})
		}
	}
	for _, par := range []string{"w[1]", "a*b", "q?x", "sp ace", "{a,b}", "back\\slash"} {
		out = append(out, Dir{F1: []int{0}, Extra: "none", Parent: par}, Dir{F1: []int{1}, F2: []int{0}, Extra: "none", Parent: par})
	}
	for _, a := range s1 {
		for _, ex := range extras {
			out = append(out, Dir{F1: a, Extra: ex})
		}
		for _, b := range s2 {
			if disjoint(a, b) && len(a) <= 2 {
				exs := []string{"none"}
				if len(a) == 1 {
					exs = extras
				}
				for _, ex := range exs {
					out = append(out, Dir{F1: a, F2: b, Extra: ex})
				}
			}
		}
	}
	return out
}

// compile distinct generated Go files against their package in one temp module
func compileBatch(root string, items map[string]Dir, srcs map[string]string, acc *ev.Acc) {
	mod := filepath.Join(root, "mod")
	os.MkdirAll(mod, 0755)
	os.WriteFile(filepath.Join(mod, "go.mod"), []byte("module cmod\n\ngo 1.22\n\nrequire github.com/goose-lang/goose v0.0.0\n\nreplace github.com/goose-lang/goose => /repo\n"), 0644)
	sum, _ := os.ReadFile("/repo/go.sum")
	os.WriteFile(filepath.Join(mod, "go.sum"), sum, 0644)
	var keys []string
	for k := range items {
		keys = append(keys, k)
	}
	sort.Strings(keys)
	pkgOf := map[string]string{}
	for i, k := range keys {
		pd := filepath.Join(mod, fmt.Sprintf("p%04d", i), "semantics")
		os.MkdirAll(pd, 0755)
		for n, c := range items[k].files() {
			if strings.HasSuffix(n, ".go") && !strings.Contains(n, "/") {
				os.WriteFile(filepath.Join(pd, n), []byte(c), 0644)
			}
		}
		os.WriteFile(filepath.Join(pd, "generated_test.go"), []byte(srcs[k]), 0644)
		pkgOf[fmt.Sprintf("p%04d", i)] = k
	}
	cmd := exec.Command("go", "vet", "./...")
	cmd.Dir = mod
	cmd.Env = append(os.Environ(), "GOFLAGS=-mod=mod")
	out, _ := cmd.CombinedOutput()
	acc.Add("go_files_compiled", int64(len(keys)))
	failed := map[string]string{}
	for _, l := range strings.Split(string(out), "\n") {
		for p, k := range pkgOf {
			if strings.Contains(l, p+"/") && !strings.HasPrefix(l, "#") {
				if _, ok := failed[k]; !ok {
					failed[k] = l
				}
			}
		}
	}
	if len(failed) == 0 && cmd.ProcessState.ExitCode() != 0 && !strings.Contains(string(out), "p0") {
		fmt.Fprintln(os.Stderr, "harness error: compile batch failed:", string(out))
		os.Exit(3)
	}
	for k, l := range failed {
		d := items[k]
		kind := "go-does-not-compile"
		if strings.Contains(l, "imported and not used") {
			kind += "(unused-import)"
		} else if m := regexp.MustCompile(`not enough arguments in call to (\w+)`).FindStringSubmatch(l); m != nil {
			kind += "(not-enough-arguments:" + m[1] + ")"
		}
		acc.Violate(ev.Violation{Key: "C18/" + d.ID() + "/" + kind, Msg: fmt.Sprintf("directory %s: generated Go test file does not compile against the package: %s", d.ID(), strings.TrimSpace(l)), Replay: d})
	}
}

func main() {
	tier := flag.String("tier", "quick", "")
	replay := flag.String("replay", "", "")
	bin := flag.String("bin", "", "test_gen binary")
	flag.Parse()
	start := time.Now()
	root, _ := os.MkdirTemp("", "verif-c18-")
	defer os.RemoveAll(root)
	if *replay != "" {
		var rf struct {
			Replay Dir `json:"replay"`
		}
		b, _ := os.ReadFile(*replay)
		if json.Unmarshal(b, &rf) != nil {
			os.Exit(3)
		}
		r := runDir(*bin, root, rf.Replay)
		for n, c := range rf.Replay.files() {
			fmt.Printf("--- %s\n%s", n, c)
		}
		acc := ev.NewAcc()
		if r.kind == "" {
			compileBatch(root, map[string]Dir{"x": rf.Replay}, map[string]string{"x": r.goSrc}, acc)
			if len(acc.Violations) > 0 {
				r.kind, r.msg = "go-does-not-compile", acc.Violations[0].Msg
			}
		}
		os.RemoveAll(root)
		if r.kind != "" {
			fmt.Printf("%s: %s\nVIOLATION property=C18 replay=%s\n", r.kind, r.msg, *replay)
			os.Exit(1)
		}
		fmt.Println("replay: property holds on this directory")
		return
	}
	ds := dirs(*tier)
	acc := ev.NewAcc()
	type job struct {
		i int
		d Dir
	}
	jobs := make(chan job)
	results := make([]result, len(ds))
	var wg sync.WaitGroup
	for w := 0; w < 16; w++ {
		wg.Add(1)
		go func() {
			defer wg.Done()
			for j := range jobs {
				results[j.i] = runDir(*bin, root, j.d)
			}
		}()
	}
	for i, d := range ds {
		jobs <- job{i, d}
	}
	close(jobs)
	wg.Wait()
	compileItems := map[string]Dir{}
	compileSrcs := map[string]string{}
	compileCap := 150
	if *tier == "thorough" {
		compileCap = 1500
	}
	seenSig := map[string]bool{}
	for i, d := range ds {
		r := results[i]
		acc.Add("evaluations", 2)
		if r.kind == "HARNESS" {
			fmt.Fprintln(os.Stderr, "harness error:", r.msg)
			os.Exit(3)
		}
		if len(r.want) > 0 {
			acc.Set("nontrivial", d.ID())
		}
		if r.kind != "" {
			acc.Violate(ev.Violation{Key: "C18/" + d.ID() + "/" + r.kind, Msg: "directory " + d.ID() + ": " + r.msg, Replay: d})
			continue
		}
		// compile one representative per distinct (source files, generated file)
		sig := fmt.Sprint(d.F1, d.F2) + r.goSrc
		if !seenSig[sig] && (d.Extra == "none" || strings.HasSuffix(d.Extra, "_test.go")) && len(compileItems) < compileCap {
			seenSig[sig] = true
			compileItems[d.ID()] = d
			compileSrcs[d.ID()] = r.goSrc
		}
	}
	if len(compileItems) > 0 {
		compileBatch(root, compileItems, compileSrcs, acc)
	}
	if len(compileItems) >= compileCap {
		acc.Note(fmt.Sprintf("compile check capped at %d distinct generated files (structural checks cover all)", compileCap))
	}
	acc.Sample(map[string]any{"directory": ds[len(ds)/3].ID(), "files": ds[len(ds)/3].files()}, 1)
	acc.Sample(map[string]any{"directory": ds[len(ds)-1].ID()}, 2)
	os.RemoveAll(root)
	os.Exit(acc.Done(ev.Finish{
		Prop: "C18", Tier: *tier, Level: "exploration", Start: start,
		Rule:        "all package directories with a.go holding every sequence of <=2 (thorough <=3) distinct items of a 25-item function-header alphabet (string literals and line comments containing /* or */, names containing 'test' / 'failing_test' a second time, functions named test… with a parameter, type parameters, another result type, plain, failing_, disabled_, helper, method, digit suffix, capital T, underscore and non-ASCII suffix, failing_ twin of a plain test, failing_ and test as infixes, column-0 and indented decoys inside a block comment and a raw string, multi-word), the first file also under 6 names that share a prefix or suffix with filtered names (latest.go, a.gold.go, gold.v.go, test_util.go, a_testing.go, a~b.go, Zeta.go, B.go, _a.go, 0.go), directories under parents named w[1], a*b, q?x, 'sp ace', {a,b}, back\\slash; optionally b.go with <=1 (thorough <=2) further items, x one extra entry {none, x_test.go, x.gold.v, x.go~, sub-directory, README.md, zz.txt, an external test file Z_ext_test.go of package semantics_test, .b.go, _b.go, a dangling emacs lock symlink .#a.go, a file with a 70 kB line before a test function, a //go:build ignore generator, x_windows.go, a helper named suite} each holding a decoy header, or a .go file that is a symbolic link to a file elsewhere (a real source file of the package); the real test_gen binary run in -coq and -go mode, to standard output and with -out into an existing longer file (same bytes); reference = go/parser over the non-test .go files that go/build selects (MatchFile), in name order; oracles: Coq list == Go list == reference (order and Fail marking), method names unique, distinct generated Go files compiled against their package with go vet; evaluations = test_gen runs; non-trivial = directory with at least one test function",
		Assumptions: []string{"a semantics package is gofmt-formatted and its test…/failing_test… functions have signature func() bool", "functions named exactly `test` are outside the alphabet"},
		Extra:       map[string]any{"distinct_nontrivial": len(acc.Sets["nontrivial"])},
	}))
}
