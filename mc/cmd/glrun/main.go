// glrun: run every test*/failing_test* definition of an emitted .v file on the reference interpreter.
package main

import (
	"fmt"
	"os"
	"strings"

	"verif/gl"
)

func main() {
	b, err := os.ReadFile(os.Args[1])
	if err != nil {
		panic(err)
	}
	f, err := gl.ParseFile(string(b))
	if err != nil {
		fmt.Println("parse error:", err)
		os.Exit(2)
	}
	okT, badT := 0, 0
	for _, name := range f.Order {
		isFail := strings.HasPrefix(name, "failing_test")
		if !strings.HasPrefix(name, "test") && !isFail {
			continue
		}
		if len(os.Args) > 2 && os.Args[2] != name {
			continue
		}
		in := gl.New(f)
		v, err := in.Call(name)
		res := ""
		if err != nil {
			res = err.Error()
		} else {
			res = gl.Show(v)
		}
		if len(in.ThreadFails) > 0 {
			res += " threads:" + strings.Join(in.ThreadFails, ";")
		}
		good := res == "#true"
		if isFail {
			fmt.Printf("  (expected-failing) %-40s %s\n", name, res)
			continue
		}
		if good {
			okT++
		} else {
			badT++
			fmt.Printf("MISMATCH %-40s %s\n", name, res)
		}
	}
	fmt.Printf("tests true: %d, not true: %d\n", okT, badT)
	if badT > 0 {
		os.Exit(1)
	}
}
