// c13: AtomicCreate is all-or-nothing, durable-before-visible, interference-free.
package main

import (
	"encoding/json"
	"flag"
	"fmt"
	"os"
	"strings"
	"time"

	"github.com/goose-lang/goose/machine/filesys"

	"verif/csched"
	"verif/ev"
	"verif/fsh"
	"verif/hpar"
	"verif/libh"
	"verif/mcx"
	"verif/simunix"
)

// ---------------------------------------------------------------- sequential part (DirFs over simunix)

type SeqCase struct {
	Dest     int    `json:"dest"`     // 0 absent, 1 present with other data
	Leftover int    `json:"leftover"` // index into leftovers
	Data     int    `json:"data"`     // index into datas
	Where    string `json:"where"`    // directory of the destination
}

var datas = [][]byte{{}, []byte("N"), []byte("new"), fsh.Big(5000, 3)}
var oldData = []byte("OLD-CONTENT-OF-DEST")

// leftover name.tmp contents: absent, shorter, longer, equal length, different content
func leftoverFor(i int, data []byte) ([]byte, bool) {
	switch i {
	case 0:
		return nil, false
	case 1:
		return []byte{}, true
	case 2:
		return []byte("L"), true
	case 3:
		return append(fsh.Big(len(data), 9), []byte("LEFTOVERLEFTOVER")...), true
	case 4:
		return fsh.Big(len(data), 11), true
	}
	panic("leftover")
}

func (c SeqCase) String() string {
	return fmt.Sprintf("dest=%d,leftover=%d,data=%d,dir=%s", c.Dest, c.Leftover, c.Data, c.Where)
}

// tmp candidates: the harness does not know where the implementation stages its
// data; leftovers are planted at every place an implementation could plausibly use.
func plantLeftovers(k *simunix.Kernel, c SeqCase) {
	lo, ok := leftoverFor(c.Leftover, datas[c.Data])
	if !ok {
		return
	}
	for _, p := range []string{"f.tmp", c.Where + "/f.tmp"} {
		k.WriteFileDurable(p, lo)
	}
}

func setup(c SeqCase) *simunix.Kernel {
	k := simunix.New()
	simunix.K = k
	k.MkdirDurable("d")
	k.MkdirDurable("d2")
	if c.Dest == 1 {
		k.WriteFileDurable(c.Where+"/f", oldData)
	}
	plantLeftovers(k, c)
	return k
}

// destOK: dest is as before or exactly data
func destState(k *simunix.Kernel, c SeqCase) string {
	got, ok := k.ReadFile(c.Where + "/f")
	data := datas[c.Data]
	if !ok {
		if c.Dest == 0 {
			return "old"
		}
		return "MISSING (was present before)"
	}
	if string(got) == string(data) {
		if c.Dest == 1 && string(data) == string(oldData) {
			return "old"
		}
		return "new"
	}
	if c.Dest == 1 && string(got) == string(oldData) {
		return "old"
	}
	return "CORRUPT " + fsh.Short(got)
}

type plan struct {
	Faults map[int]simunix.Fault
	Names  map[string]simunix.Errno // every call of this name fails (a persistent condition)
	Desc   string
}

func seqRun(c SeqCase, p plan, acc *ev.Acc, mode string) {
	k := setup(c)
	for i, f := range p.Faults {
		k.Faults[i] = f
	}
	var violation string
	type snap struct {
		k  *simunix.Kernel
		at string
	}
	var snaps []snap
	published := false
	k.OnCall = func(kk *simunix.Kernel, idx int, name string) {
		// "at every instant": visible state between system calls
		if s := destState(kk, c); strings.HasPrefix(s, "CORRUPT") || strings.HasPrefix(s, "MISSING") {
			if violation == "" {
				violation = fmt.Sprintf("before call %d (%s) %s/f is %s", idx, name, c.Where, s)
			}
		}
		if mode == "crash" {
			snaps = append(snaps, snap{kk.Clone(), fmt.Sprintf("before call %d (%s)", idx, name)})
		}
	}
	k.Monitor = func(kk *simunix.Kernel, call simunix.Call) {
		// flushed before visible: when the new content first becomes visible under the name, its inode must be durable
		if published || destState(kk, c) != "new" {
			return
		}
		published = true
		for _, in := range kk.Inodes {
			if !in.Dir && string(in.Data) == string(datas[c.Data]) && len(in.Pending) > 0 && isNamed(kk, in.Ino, c.Where, "f") {
				if violation == "" {
					violation = fmt.Sprintf("after %s the new content is visible under %s/f but %d of its page writes are not flushed", call.Name, c.Where, len(in.Pending))
				}
			}
		}
	}
	fs := filesys.NewDirFs(".")
	if len(p.Names) > 0 {
		k.FaultNames = p.Names // from here on: the file system object itself was opened under normal conditions
		k.MaxCalls = k.NCalls + 2000
	}
	buf := append([]byte(nil), datas[c.Data]...)
	panicked := libh.Try(func() { fs.AtomicCreate(c.Where, "f", buf) })
	hit := k.FaultHits > 0
	k.OnCall, k.Monitor = nil, nil
	acc.Add("sequential_runs", 1)
	final := destState(k, c)
	switch {
	case violation != "":
	case panicked != "" && !hit:
		violation = "AtomicCreate panicked without any injected failure: " + panicked
	case panicked == "" && final != "new" && !(final == "old" && string(datas[c.Data]) == string(oldData)):
		violation = fmt.Sprintf("AtomicCreate returned but %s/f is %s, not exactly the data", c.Where, final)
	case strings.HasPrefix(final, "CORRUPT") || strings.HasPrefix(final, "MISSING"):
		violation = fmt.Sprintf("after the injected failure %s/f is %s", c.Where, final)
	}
	if violation == "" && mode == "crash" {
		snaps = append(snaps, snap{k.Clone(), "after return"})
		for _, s := range snaps {
			acc.Add("crash_points", 1)
			imgs, trunc := s.k.CrashImages(1 << 14)
			if trunc {
				acc.NotExhaustive("crash image enumeration truncated")
			}
			for ii, img := range imgs {
				acc.Add("crash_images", 1)
				if st := destState(img, c); st != "old" && st != "new" {
					violation = fmt.Sprintf("crash %s, post-crash image #%d: %s/f is %s", s.at, ii, c.Where, st)
					break
				}
			}
			if violation != "" {
				break
			}
		}
	}
	if violation != "" {
		acc.Violate(ev.Violation{
			Key:    fmt.Sprintf("C13/seq/%s/%s/%s", mode, c, p.Desc),
			Msg:    fmt.Sprintf("DirFs.AtomicCreate(%s,f,%s) with %s [%s]: %s", c.Where, fsh.Short(datas[c.Data]), c, p.Desc, violation),
			Replay: map[string]any{"mode": mode, "case": c, "plan": p},
		})
	}
}

func isNamed(k *simunix.Kernel, ino int, dir, name string) bool {
	for _, in := range k.Inodes {
		if in.Dir {
			if c, ok := in.Entries[name]; ok && c == ino {
				return true
			}
		}
	}
	return false
}

// countCalls runs fault-free to learn the call indices of AtomicCreate
func callList(c SeqCase) []string {
	k := setup(c)
	fs := filesys.NewDirFs(".")
	start := len(k.Trace)
	fs.AtomicCreate(c.Where, "f", append([]byte(nil), datas[c.Data]...))
	var names []string
	for _, cl := range k.Trace[start:] {
		names = append(names, cl.Name)
	}
	return names
}

func seqAll(tier string, shard, nshards int, acc *ev.Acc) {
	n := 0
	for _, where := range []string{"d", "d2"} {
		for dest := 0; dest <= 1; dest++ {
			for lo := 0; lo <= 4; lo++ {
				for di := range datas {
					c := SeqCase{Dest: dest, Leftover: lo, Data: di, Where: where}
					n++
					if n%nshards != shard {
						continue
					}
					// fault-free + crash
					seqRun(c, plan{Desc: "no-fault"}, acc, "crash")
					calls := callList(c)
					first := 1 // call 0 is NewDirFs's open
					// every single failing system call
					for i, name := range calls {
						for _, e := range []simunix.Errno{simunix.EIO, simunix.ENOSPC, simunix.EINVAL, simunix.EROFS, simunix.EDQUOT, simunix.EINTR, simunix.EBADF} {
							seqRun(c, plan{Faults: map[int]simunix.Fault{first + i: {Err: e}}, Desc: fmt.Sprintf("fault:%s#%d=%v", name, i, e)}, acc, "fault")
							acc.Add("faults_injected", 1)
						}
					}
					// every kind of system call failing persistently (a read-only or full file system, a directory without
					// permission, a file system without rename-over): whatever AtomicCreate tries next also fails
					kinds := map[string]bool{}
					for _, name := range calls {
						kinds[name] = true
					}
					for name := range kinds {
						for _, e := range []simunix.Errno{simunix.EIO, simunix.EPERM, simunix.EEXIST, simunix.EACCES, simunix.EROFS} {
							if name == "openat" && e == simunix.EEXIST {
								continue // "exists" for every fresh temporary name is not a condition a kernel produces
							}
							seqRun(c, plan{Names: map[string]simunix.Errno{name: e}, Desc: fmt.Sprintf("always:%s=%v", name, e)}, acc, "fault")
							acc.Add("faults_injected", 1)
						}
					}
					// short writes: every split into <=3 pieces at boundary positions
					L := len(datas[c.Data])
					if L >= 2 {
						wi := -1
						for i, name := range calls {
							if name == "write" {
								wi = first + i
								break
							}
						}
						if wi >= 0 {
							cuts := []int{1, L / 2, L - 1}
							if L > 4096 {
								cuts = append(cuts, 4096)
							}
							for _, s1 := range cuts {
								seqRun(c, plan{Faults: map[int]simunix.Fault{wi: {Short: s1}}, Desc: fmt.Sprintf("short:%d", s1)}, acc, "crash")
								rem := L - s1
								if rem >= 2 {
									for _, s2 := range []int{1, rem - 1} {
										seqRun(c, plan{Faults: map[int]simunix.Fault{wi: {Short: s1}, wi + 1: {Short: s2}}, Desc: fmt.Sprintf("short:%d,%d", s1, s2)}, acc, "seq")
									}
								}
							}
						}
					}
				}
			}
		}
	}
}

// ---------------------------------------------------------------- concurrent part

type ConcCase struct {
	Impl    string `json:"impl"`   // dir | mem
	Prior   bool   `json:"prior"`  // d/f present before
	Second  string `json:"second"` // "", "same", "othername", "otherdir"
	Reader  int    `json:"reader"` // reader iterations
	DataLen int    `json:"datalen"`
}

func (c ConcCase) ID() string {
	return fmt.Sprintf("conc:%s,prior=%v,second=%s,reader=%d,len=%d", c.Impl, c.Prior, c.Second, c.Reader, c.DataLen)
}

func concCase(c ConcCase, bound int, deadline time.Time) mcx.Case {
	dataA := fsh.Big(c.DataLen, 5)
	dataB := fsh.Big(c.DataLen+1, 17)
	mk := func() (func(), func(s *csched.Sched) (string, string, string)) {
		var reads []string
		var im *fsh.Impl
		var finalF1, finalOther string
		var otherOK bool
		bd, bn := "", ""
		switch c.Second {
		case "same":
			bd, bn = "d", "f"
		case "othername":
			bd, bn = "d", "g"
		case "otherdir":
			bd, bn = "d2", "f"
		}
		var problems []string
		body := func() {
			im = fsh.New(c.Impl, false)
			if c.Prior {
				im.AtomicCreate("d", "f", append([]byte(nil), oldData...))
				if im.K != nil {
					simunix.Sync()
				}
			}
			var wg hpar.WaitGroup
			run := func(f func()) {
				wg.Add(1)
				hpar.Go(func() {
					defer wg.Done()
					if p := libh.Try(f); p != "" {
						problems = append(problems, "panic: "+p)
					}
				})
			}
			run(func() { im.AtomicCreate("d", "f", append([]byte(nil), dataA...)) })
			if bd != "" {
				run(func() { im.AtomicCreate(bd, bn, append([]byte(nil), dataB...)) })
			}
			if c.Reader > 0 {
				run(func() {
					for i := 0; i < c.Reader; i++ {
						var got []byte
						exists := true
						if p := libh.Try(func() {
							h := im.Open("d", "f")
							got = im.ReadAt(h, 0, 1<<20)
							im.Close(h)
						}); p != "" {
							exists = false
						}
						if !exists {
							reads = append(reads, "absent")
						} else {
							reads = append(reads, string(got))
						}
					}
				})
			}
			wg.Wait()
			d, _ := im.Dump()
			finalF1 = d["d/f"]
			if bd != "" {
				finalOther, otherOK = d[bd+"/"+bn]
			}
		}
		name := func(s string) string {
			switch s {
			case string(dataA):
				return "A"
			case string(dataB):
				return "B"
			case string(oldData):
				return "old"
			case "absent":
				return "absent"
			}
			return "CORRUPT(" + fsh.Short([]byte(s)) + ")"
		}
		verdict := func(s *csched.Sched) (string, string, string) {
			out := []string{}
			for _, r := range reads {
				out = append(out, name(r))
			}
			outcome := strings.Join(out, ",") + "|" + name(finalF1) + "|" + name(finalOther)
			if s.Deadlock {
				return "deadlock", fmt.Sprint(s.BlockedDesc), outcome
			}
			if len(problems) > 0 {
				return "panic", "a concurrent call was disturbed: " + strings.Join(problems, "; "), outcome
			}
			if p := mcx.ThreadPanics(s); p != "" {
				return "panic", p, outcome
			}
			for i, r := range reads {
				n := name(r)
				ok := n == "A" || (n == "old" && c.Prior) || (n == "absent" && !c.Prior) || (n == "B" && c.Second == "same")
				if !ok {
					return "reader", fmt.Sprintf("reader iteration %d saw d/f = %s (neither the previous state nor one caller's complete data)", i, n), outcome
				}
			}
			if f := name(finalF1); !(f == "A" || (f == "B" && c.Second == "same")) {
				return "final", "after all calls returned d/f is " + f, outcome
			}
			if c.Second == "othername" || c.Second == "otherdir" {
				if !otherOK || name(finalOther) != "B" {
					return "final", fmt.Sprintf("after all calls returned %s/%s is %s (present=%v), want its own caller's data", bd, bn, name(finalOther), otherOK), outcome
				}
			}
			return "", "", outcome
		}
		return body, verdict
	}
	return mcx.Case{Prop: "C13", ID: c.ID(), Bound: bound, Deadline: deadline, Mk: mk, Replay: c}
}

func concCases(tier string) []ConcCase {
	var out []ConcCase
	for _, impl := range []string{"dir", "mem"} {
		for _, prior := range []bool{false, true} {
			for _, second := range []string{"", "same", "othername", "otherdir"} {
				for _, l := range []int{3, 5000} {
					if tier == "quick" && l == 5000 && impl == "mem" {
						continue
					}
					out = append(out, ConcCase{Impl: impl, Prior: prior, Second: second, Reader: 2, DataLen: l})
				}
			}
		}
	}
	return out
}

type replayFile struct {
	Replay struct {
		Mode     string          `json:"mode"`
		Case     json.RawMessage `json:"case"`
		Plan     plan            `json:"plan"`
		Scenario ConcCase        `json:"scenario"`
		Choices  []byte          `json:"choices"`
	} `json:"replay"`
}

func main() {
	tier := flag.String("tier", "quick", "")
	replay := flag.String("replay", "", "")
	flag.Parse()
	start := time.Now()
	bound := 2
	if *tier == "thorough" {
		bound = 4
	}
	if *replay != "" {
		var rf replayFile
		b, err := os.ReadFile(*replay)
		if err == nil {
			err = json.Unmarshal(b, &rf)
		}
		if err != nil {
			fmt.Fprintln(os.Stderr, err)
			os.Exit(3)
		}
		bad := false
		if rf.Replay.Mode != "" {
			var c SeqCase
			json.Unmarshal(rf.Replay.Case, &c)
			acc := ev.NewAcc()
			seqRun(c, rf.Replay.Plan, acc, rf.Replay.Mode)
			if len(acc.Violations) > 0 {
				fmt.Println(acc.Violations[0].Msg)
				bad = true
			}
		} else {
			bad = mcx.ReplayOne(concCase(rf.Replay.Scenario, 99, time.Time{}), rf.Replay.Choices)
		}
		if bad {
			fmt.Printf("VIOLATION property=C13 replay=%s\n", *replay)
			os.Exit(1)
		}
		fmt.Println("replay: property holds on this case")
		return
	}
	if ev.IsChild() {
		i, n := ev.Shard()
		acc := ev.NewAcc()
		seqAll(*tier, i, n, acc)
		for k, c := range concCases(*tier) {
			if k%n == i {
				mcx.Explore(concCase(c, bound, start.Add(25*time.Minute)), acc)
			}
		}
		acc.EmitChild()
		return
	}
	acc, err := ev.RunSharded(0)
	if err != nil {
		fmt.Fprintln(os.Stderr, "harness error:", err)
		os.Exit(3)
	}
	acc.Counters["executions"] += acc.Counters["sequential_runs"] + acc.Counters["crash_images"]
	os.Exit(acc.Done(ev.Finish{
		Prop: "C13", Tier: *tier, Level: "model_checking", Start: start,
		Rule:        fmt.Sprintf("DirFs.AtomicCreate over simunix: prior destination {absent,present} x leftover temp file {absent, empty, shorter, longer, same length} (planted at every plausible staging path) x data {0,1,3,5000 bytes} x directory; for each: visible state checked before every system call, durability of the inode checked at the instant the new content becomes visible, crash before every system call and after return x every post-crash image, every system call failing once with each of EIO, ENOSPC, EINVAL, EROFS, EDQUOT, EINTR, EBADF, every kind of system call failing persistently with each of EIO, EPERM, EEXIST, EACCES, EROFS, every split of the write into <=3 short writes at boundary cuts. Concurrency: creator of d/f + optional second creator {same name, other name, other dir} + reader (2 x Open/ReadAt/Close) on DirFs (system calls atomic) and MemFs (preemption before every statement), all schedules with <= %d preemptions", bound),
		Assumptions: []string{"crash model of simunix (ordered metadata journal, fsync commits it; unsynced page writes persist in any subset)", "errno and short-write injection are simulated", "system calls are atomic steps"},
		Extra:       mcx.Extra(acc, map[string]any{"preemption_bound": bound}),
	}))
}
