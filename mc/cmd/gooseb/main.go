// gooseb: per-declaration translation through the overlay bridge (built with
// -overlay adding zz_verif_bridge.go to package goose). Prints JSON.
package main

import (
	"bufio"
	"encoding/json"
	"flag"
	"fmt"
	"os"

	"github.com/goose-lang/goose"
)

func main() {
	var tr goose.TranslationConfig
	flag.BoolVar(&tr.AddSourceFileComments, "source-comments", false, "")
	flag.BoolVar(&tr.TypeCheck, "typecheck", false, "")
	flag.BoolVar(&tr.SkipInterfaces, "skip-interfaces", false, "")
	dir := flag.String("dir", ".", "")
	serve := flag.Bool("serve", false, "read requests {file, content, only, pattern} as JSON lines, answer with one JSON line each")
	flag.Parse()
	if *serve {
		in := bufio.NewReaderSize(os.Stdin, 1<<22)
		out := json.NewEncoder(os.Stdout)
		for {
			line, err := in.ReadBytes('\n')
			if err != nil {
				return
			}
			var req struct {
				File    string `json:"file"`
				Content string `json:"content"`
				Only    string `json:"only"`
				Pattern string `json:"pattern"`
			}
			if json.Unmarshal(line, &req) != nil {
				out.Encode(map[string]string{"error": "bad request"})
				continue
			}
			pkgs, err := goose.VerifTranslateOverlay(tr, *dir, map[string][]byte{req.File: []byte(req.Content)}, req.Only, req.Pattern)
			if err != nil {
				out.Encode(map[string]string{"error": err.Error()})
				continue
			}
			out.Encode(pkgs)
		}
	}
	pkgs, err := goose.VerifTranslate(tr, *dir, flag.Args()...)
	if err != nil {
		fmt.Fprintln(os.Stderr, err)
		os.Exit(1)
	}
	json.NewEncoder(os.Stdout).Encode(pkgs)
}
