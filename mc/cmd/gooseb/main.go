// gooseb: per-declaration translation through the overlay bridge (built with
// -overlay adding zz_verif_bridge.go to package goose). Prints JSON.
package main

import (
	"encoding/json"
	"flag"
	"fmt"
	"os"

	"github.com/goose-lang/goose"
)

func main() {
	var tr goose.TranslationConfig
	flag.BoolVar(&tr.AddSourceFileComments, "source-comments", false, "")
	flag.BoolVar(&tr.TypeCheck, "typecheck", false, "")
	flag.BoolVar(&tr.SkipInterfaces, "skip-interfaces", false, "")
	dir := flag.String("dir", ".", "")
	flag.Parse()
	pkgs, err := goose.VerifTranslate(tr, *dir, flag.Args()...)
	if err != nil {
		fmt.Fprintln(os.Stderr, err)
		os.Exit(1)
	}
	json.NewEncoder(os.Stdout).Encode(pkgs)
}
