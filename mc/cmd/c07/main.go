// c07: goose never crashes: output or structured, located errors.
// (1) the out-of-subset catalogue and a family of crash-prone type shapes at
// every statement position, translated declaration by declaration through the
// overlay bridge (the real translation and printing code under recover):
// no foreign panic, documented error category, position inside the declaration.
// (2) packages with k bad declarations among good ones over several file
// layouts through the real binary: exit status, one error per bad
// declaration, nothing lost under -ignore-errors, per-package aggregation.
package main

import (
	"bufio"
	"bytes"
	"encoding/json"
	"flag"
	"fmt"
	"go/ast"
	"go/parser"
	"go/token"
	"os"
	"os/exec"
	"path/filepath"
	"regexp"
	"sort"
	"strconv"
	"strings"
	"sync"
	"time"

	"verif/diffexec"
	"verif/ev"
	"verif/gl"
	"verif/progenum"
)

type bdecl struct {
	Pkg      string   `json:"pkg"`
	File     string   `json:"file"`
	Line     int      `json:"line"`
	EndLine  int      `json:"end_line"`
	Kind     string   `json:"kind"`
	GoName   string   `json:"go_name"`
	Coq      []string `json:"coq"`
	ErrCat   string   `json:"err_category"`
	ErrMsg   string   `json:"err_message"`
	ErrLine  int      `json:"err_line"`
	ErrFile  string   `json:"err_file"`
	Panic    string   `json:"panic"`
	PanicTop string   `json:"panic_top"`
}
type bpkg struct {
	Path      string  `json:"path"`
	LoadError string  `json:"load_error"`
	FfiPanic  string  `json:"ffi_panic"`
	Decls     []bdecl `json:"decls"`
}

var documented = map[string]bool{"unsupported": true, "todo": true, "future": true, "impossible(go)": true, "impossible(no-examples)": true}
var numRe = regexp.MustCompile(`[0-9]+`)

func norm(s string) string {
	s = numRe.ReplaceAllString(s, "N")
	if len(s) > 100 {
		s = s[:100]
	}
	return s
}

func must(err error) {
	if err != nil {
		fmt.Fprintln(os.Stderr, "harness error:", err)
		os.Exit(3)
	}
}

func write(root, rel, content string) {
	p := filepath.Join(root, rel)
	os.MkdirAll(filepath.Dir(p), 0755)
	must(os.WriteFile(p, []byte(content), 0644))
}

// ---------------------------------------------------------------- part 1

func part1(tier, bridge, work, only string, acc *ev.Acc) {
	quickPos := map[string]bool{"P01_tail": true, "P03_if_then_nontail": true, "P08_for3_body": true, "P15_closure_body": true}
	forms := append(progenum.CatalogueForms(), progenum.CrashForms()...)
	forms = append(forms, progenum.CoreForms()[:12]...) // controls: must translate
	var progs []progenum.Prog
	formOf := map[string]progenum.Form{}
	for _, pos := range progenum.Positions() {
		if tier == "quick" && !quickPos[pos.ID] {
			continue
		}
		for _, fm := range forms {
			if pos.InMapLoop && fm.WritesM {
				continue
			}
			if pos.ID == "P15_closure_body" && strings.Contains(fm.Code, "return a, b, sv") {
				continue
			}
			pr := progenum.Build(pos, fm)
			if only != "" && pr.Name != only {
				continue
			}
			progs = append(progs, pr)
			formOf[pr.Name] = fm
		}
	}
	gen := filepath.Join(work, "gen1")
	pk := progenum.Render(progs, "package p\n")
	declLines := map[string][][3]any{} // file -> (start line, form id)
	for rel, c := range pk.Files {
		write(gen, rel, c)
		if strings.HasPrefix(rel, "p/a_") || strings.HasPrefix(rel, "p/b_") {
			for i, l := range strings.Split(c, "\n") {
				if strings.HasPrefix(l, "// DECLS ") {
					declLines[filepath.Base(rel)] = append(declLines[filepath.Base(rel)], [3]any{i + 1, strings.TrimPrefix(l, "// DECLS "), 0})
				}
				if l == "// ENDDECLS" {
					declLines[filepath.Base(rel)] = append(declLines[filepath.Base(rel)], [3]any{i + 1, "", 0})
				}
			}
		}
	}
	sum, _ := os.ReadFile("/repo/go.sum")
	write(gen, "go.sum", string(sum))
	c := exec.Command(bridge, "./p")
	c.Dir = gen
	var stderr bytes.Buffer
	c.Stderr = &stderr
	out, err := c.Output()
	if err != nil {
		acc.Violate(ev.Violation{Key: "C07/bridge-failed", Msg: "per-declaration translation of the catalogue package failed: " + err.Error() + " " + stderr.String()})
		return
	}
	var pkgs []bpkg
	must(json.Unmarshal(out, &pkgs))
	if len(pkgs) != 1 || pkgs[0].LoadError != "" {
		fmt.Fprintln(os.Stderr, "harness error: catalogue package does not load:", pkgs[0].LoadError)
		os.Exit(3)
	}
	helperForm := func(d bdecl) string {
		f := ""
		for _, e := range declLines[d.File] {
			if e[0].(int) <= d.Line {
				f = e[1].(string)
			}
		}
		return f
	}
	for _, d := range pkgs[0].Decls {
		name := d.GoName
		if strings.HasPrefix(name, "MF_") {
			name = name[1:]
		}
		fm, isProg := formOf[name]
		formID, pos := "", ""
		if isProg {
			formID = fm.ID
			pos = strings.SplitN(strings.TrimPrefix(name, "F_"), "__", 2)[0]
		} else if hf := helperForm(d); hf != "" {
			formID, pos = hf, "helper-decl:"+d.GoName
		} else {
			formID, pos = "prelude", d.GoName
		}
		acc.Add("declarations_translated", 1)
		acc.Add("evaluations", 1)
		acc.Set("nontrivial", name+"/"+d.GoName)
		switch {
		case d.Panic != "":
			acc.Add("declarations_panicking", 1)
			acc.Violate(ev.Violation{
				Key:    fmt.Sprintf("C07/crash/%s/%s/%s", formID, pos, norm(d.Panic)),
				Msg:    fmt.Sprintf("form %s at %s: the translator panics instead of reporting a conversion error: %s @ %s\n--- Go source ---\n%s%s", formID, pos, d.Panic, d.PanicTop, fm.Decls, fm.Code),
				Replay: map[string]any{"part": 1, "descriptor": name},
			})
		case d.ErrCat != "":
			acc.Add("declarations_rejected", 1)
			acc.Set("error_categories", d.ErrCat)
			if !documented[d.ErrCat] {
				acc.Violate(ev.Violation{Key: fmt.Sprintf("C07/undocumented-category/%s/%s/%s", formID, pos, d.ErrCat), Msg: fmt.Sprintf("form %s at %s: error category %q is not one of the documented ones (%s)", formID, pos, d.ErrCat, d.ErrMsg), Replay: map[string]any{"part": 1, "descriptor": name}})
			}
			if filepath.Base(d.ErrFile) != d.File || d.ErrLine < d.Line || d.ErrLine > d.EndLine {
				acc.Violate(ev.Violation{Key: fmt.Sprintf("C07/position-outside-declaration/%s/%s", formID, pos), Msg: fmt.Sprintf("form %s at %s: the error (%s: %s) is located at %s:%d, outside the offending declaration %s:%d-%d\n--- Go source ---\n%s", formID, pos, d.ErrCat, d.ErrMsg, d.ErrFile, d.ErrLine, d.File, d.Line, d.EndLine, fm.Code), Replay: map[string]any{"part": 1, "descriptor": name}})
			}
		default:
			acc.Add("declarations_accepted", 1)
			if len(d.Coq) == 0 && d.Kind != "import" && d.GoName != "" && d.GoName != "_" { // a group with no specs, or a blank declaration, declares nothing
				acc.Violate(ev.Violation{Key: fmt.Sprintf("C07/silently-dropped/%s/%s", formID, pos), Msg: fmt.Sprintf("form %s at %s: no error and no output for the declaration", formID, pos), Replay: map[string]any{"part": 1, "descriptor": name}})
			}
		}
	}
	acc.Sample(map[string]any{"part": "per-declaration translation", "positions": len(progs) / len(forms), "forms": len(forms), "example": progs[len(progs)/2].Name}, 2)
}

// ---------------------------------------------------------------- part 2

type agg struct {
	Name  string            `json:"name"`
	Files map[string]string `json:"files"`
	Good  []string          `json:"good"`
	Bad   []string          `json:"bad"` // names of bad functions
}

var goodDecl = func(i int) (string, string) {
	n := fmt.Sprintf("Good%d", i)
	return n, fmt.Sprintf("func %s(x uint64) uint64 {\n\treturn x + %d\n}\n", n, i)
}
var badBodies = []string{
	"\tswitch x {\n\tcase 1:\n\t\treturn 2\n\t}\n\treturn x\n",
	"\tdefer func() {}()\n\treturn x\n",
	"\tvar y uint64 = x\n\ty *= 2\n\treturn y\n",
}
var badDecl = func(i int) (string, string) {
	n := fmt.Sprintf("Bad%d", i)
	return n, fmt.Sprintf("func %s(x uint64) uint64 {\n%s}\n", n, badBodies[i%len(badBodies)])
}

func aggPackages(tier string) []agg {
	var out []agg
	// B: bad declarations with different offending statements; b: bad declarations that all fail for the
	// same reason on the same statement text (an error list de-duplicated by message loses them)
	patterns := []string{"B", "GB", "BG", "GBG", "BB", "GBBG", "BGB", "BBB", "GBGBG", "BGBGB", "bb", "bGb", "bbb", "GbGbG", "bB"}
	if tier == "thorough" {
		patterns = append(patterns, "GGBBB", "BBBGG", "BGGB", "GBGBGB")
	}
	layouts := []string{"one", "split_mid", "first_alone", "last_alone"}
	id := 0
	for _, pat := range patterns {
		for _, lay := range layouts {
			var units [][2]string // name, code
			var good, bad []string
			gi, bi := 0, 0
			for _, ch := range pat {
				if ch == 'G' {
					n, c := goodDecl(gi)
					gi++
					units = append(units, [2]string{n, c})
					good = append(good, n)
				} else if ch == 'b' {
					n := fmt.Sprintf("Bad%d", bi)
					bi++
					units = append(units, [2]string{n, fmt.Sprintf("func %s(x uint64) uint64 {\n%s}\n", n, badBodies[0])})
					bad = append(bad, n)
				} else {
					n, c := badDecl(bi)
					bi++
					units = append(units, [2]string{n, c})
					bad = append(bad, n)
				}
			}
			cut := len(units)
			switch lay {
			case "split_mid":
				cut = (len(units) + 1) / 2
			case "first_alone":
				cut = 1
			case "last_alone":
				cut = len(units) - 1
			}
			if lay != "one" && (cut <= 0 || cut >= len(units)) {
				continue
			}
			files := map[string]string{}
			var a, b strings.Builder
			a.WriteString("package q\n\n")
			b.WriteString("package q\n\n")
			for i, u := range units {
				if i < cut {
					a.WriteString(u[1] + "\n")
				} else {
					b.WriteString(u[1] + "\n")
				}
			}
			files["a.go"] = a.String()
			if cut < len(units) {
				files["b.go"] = b.String()
			}
			id++
			out = append(out, agg{Name: fmt.Sprintf("g%03d_%s_%s", id, pat, lay), Files: files, Good: good, Bad: bad})
		}
	}
	// a generated definition (struct-to-interface conversion) needed by a bad declaration first and by a good one later:
	// the good one must keep it under -ignore-errors
	convHead := "type I interface {\n\tm(k uint64) uint64\n}\n\ntype St struct {\n\tv uint64\n}\n\nfunc (s St) m(k uint64) uint64 {\n\treturn s.v + k\n}\n\nfunc use(i I) uint64 {\n\treturn i.m(1)\n}\n"
	convBad := func(i int) (string, string) {
		n := fmt.Sprintf("Bad%d", i)
		return n, fmt.Sprintf("func %s(x uint64) uint64 {\n\tswitch x {\n\tcase 1:\n\t\treturn use(St{v: 2})\n\t}\n\treturn use(St{v: x})\n}\n", n)
	}
	convGood := func(i int) (string, string) {
		n := fmt.Sprintf("Good%d", i)
		return n, fmt.Sprintf("func %s(x uint64) uint64 {\n\treturn use(St{v: x + %d})\n}\n", n, i)
	}
	for _, pat := range []string{"BG", "GB", "BGB", "BBG"} {
		for _, lay := range []string{"one", "split"} {
			var sb, sb2 strings.Builder
			sb.WriteString("package q\n\n" + convHead + "\n")
			sb2.WriteString("package q\n\n")
			var good, bad []string
			good = append(good, "I", "St", "St__m", "use", "St__to__I")
			gi, bi := 0, 0
			for k, ch := range pat {
				var n, c string
				if ch == 'G' {
					n, c = convGood(gi)
					gi++
					good = append(good, n)
				} else {
					n, c = convBad(bi)
					bi++
					bad = append(bad, n)
				}
				if lay == "split" && k > 0 {
					sb2.WriteString(c + "\n")
				} else {
					sb.WriteString(c + "\n")
				}
			}
			files := map[string]string{"a.go": sb.String()}
			if lay == "split" {
				files["b.go"] = sb2.String()
			}
			id++
			out = append(out, agg{Name: fmt.Sprintf("g%03d_conv%s_%s", id, pat, lay), Files: files, Good: good, Bad: bad})
		}
	}
	// one bad spec in a const / var group: every spec is a declaration of its own
	for _, kw := range []string{"const", "var"} {
		id++
		out = append(out, agg{Name: fmt.Sprintf("g%03d_%sgroup_one", id, kw), Files: map[string]string{"a.go": "package q\n\n" + kw + " (\n\tGood0 uint64 = 1\n\tBad0  int8   = 3\n\tGood1 uint64 = 2\n\tBad1         = -1\n)\n\nfunc Good2() uint64 {\n\treturn Good0 + Good1\n}\n"}, Good: []string{"Good0", "Good1", "Good2"}, Bad: []string{"Bad0", "Bad1"}})
	}
	return out
}

var catLine = regexp.MustCompile(`(?m)^(?:conversion failed: )?\[([a-z()\-]+)\]: `)
var srcLine = regexp.MustCompile(`(?m)^\s+src: (\S+?):(\d+):\d+`)
var nErrors = regexp.MustCompile(`(?m)^(\d+) errors$`)

var specLine = regexp.MustCompile(`^\t((?:Good|Bad)\d+)\s`)

func funcRanges(src string) map[string][2]int {
	out := map[string][2]int{}
	cur, start := "", 0
	for i, l := range strings.Split(src, "\n") {
		if strings.HasPrefix(l, "func ") {
			cur = l[5:strings.Index(l, "(")]
			start = i + 1
		}
		if l == "}" && cur != "" {
			out[cur] = [2]int{start, i + 1}
			cur = ""
		}
		if m := specLine.FindStringSubmatch(l); m != nil && cur == "" {
			out[m[1]] = [2]int{i + 1, i + 1} // a spec of a const / var group
		}
	}
	return out
}

func runGoose(goose, dir string, args ...string) (int, string) {
	c := exec.Command(goose, args...)
	c.Dir = dir
	out, err := c.CombinedOutput()
	code := 0
	if ee, ok := err.(*exec.ExitError); ok {
		code = ee.ExitCode()
	} else if err != nil {
		code = -1
	}
	return code, string(out)
}

func checkAgg(goose, mod, work string, a agg) (kind, msg string) {
	// without -ignore-errors
	out1 := filepath.Join(work, "o1_"+a.Name)
	code, stderr := runGoose(goose, mod, "-out", out1, "./"+a.Name)
	defer os.RemoveAll(out1)
	if code != 1 {
		return "exit-status", fmt.Sprintf("exit status %d for a package with %d bad declarations (want 1): %s", code, len(a.Bad), first(stderr, 5))
	}
	cats := catLine.FindAllStringSubmatch(stderr, -1)
	if len(cats) != len(a.Bad) {
		return fmt.Sprintf("error-count(%d-of-%d)", len(cats), len(a.Bad)), fmt.Sprintf("%d conversion errors reported for %d bad declarations:\n%s", len(cats), len(a.Bad), first(stderr, 30))
	}
	for _, c := range cats {
		if !documented[c[1]] {
			return "undocumented-category", "category " + c[1]
		}
	}
	if m := nErrors.FindStringSubmatch(stderr); m == nil || m[1] != strconv.Itoa(len(a.Bad)) {
		return "error-summary", fmt.Sprintf("the summary line does not say '%d errors': %s", len(a.Bad), first(stderr, 30))
	}
	// every error inside its bad declaration, one per bad declaration
	hit := map[string]int{}
	for _, s := range srcLine.FindAllStringSubmatch(stderr, -1) {
		ln, _ := strconv.Atoi(s[2])
		fr := funcRanges(a.Files[filepath.Base(s[1])])
		found := ""
		for n, r := range fr {
			if ln >= r[0] && ln <= r[1] {
				found = n
			}
		}
		if found == "" || !strings.HasPrefix(found, "Bad") {
			return "position-outside-declaration", fmt.Sprintf("error located at %s:%d, which is inside no bad declaration (found %q)", s[1], ln, found)
		}
		hit[found]++
	}
	for _, b := range a.Bad {
		if hit[b] != 1 {
			return "error-per-declaration", fmt.Sprintf("bad declaration %s has %d errors reported (want exactly 1): %v", b, hit[b], hit)
		}
	}
	if _, err := os.Stat(filepath.Join(out1, "c07mod", a.Name+".v")); err == nil {
		return "file-written-on-error", "a file was written although the package has conversion errors and -ignore-errors was not given"
	}
	// with -ignore-errors
	out2 := filepath.Join(work, "o2_"+a.Name)
	defer os.RemoveAll(out2)
	code, stderr = runGoose(goose, mod, "-out", out2, "-ignore-errors", "./"+a.Name)
	if code != 1 {
		return "exit-status-ignore-errors", fmt.Sprintf("exit status %d with -ignore-errors (want 1)", code)
	}
	b, err := os.ReadFile(filepath.Join(out2, "c07mod", a.Name+".v"))
	if err != nil {
		return "no-partial-output", "no file written under -ignore-errors"
	}
	f, perr := gl.ParseFile(string(b))
	if perr != nil || len(f.Bad) > 0 {
		if perr != nil {
			return "partial-output-malformed", perr.Error()
		}
		return "partial-output-malformed", fmt.Sprint(f.Bad[0].Err)
	}
	got := append([]string(nil), f.Order...)
	want := append([]string(nil), a.Good...)
	sort.Strings(got)
	sort.Strings(want)
	if strings.Join(got, ",") != strings.Join(want, ",") {
		return "partial-output-declarations", fmt.Sprintf("partial output defines %v, the declarations that translate are %v", got, want)
	}
	// what the partial file defines must be closed: no body may mention a definition of the full package that is missing here
	defined := map[string]bool{}
	for _, n := range f.Order {
		defined[n] = true
	}
	for _, snt := range f.Sentences {
		if snt.Body == nil {
			continue
		}
		for _, id := range gl.FreeGlobals(snt.Body) {
			if strings.Contains(id, "__to__") && !defined[id] {
				return "partial-output-dangling", fmt.Sprintf("under -ignore-errors %s mentions %s, which the partial file does not define", snt.Name, id)
			}
		}
	}
	return "", ""
}

func first(s string, n int) string {
	l := strings.Split(s, "\n")
	if len(l) > n {
		l = l[:n]
	}
	return strings.Join(l, " | ")
}

func part2(tier, goose, work string, acc *ev.Acc, only string) {
	mod := filepath.Join(work, "mod2")
	write(mod, "go.mod", "module c07mod\n\ngo 1.22\n")
	aggs := aggPackages(tier)
	for _, a := range aggs {
		for fn, c := range a.Files {
			write(mod, a.Name+"/"+fn, c)
		}
	}
	for _, a := range aggs {
		if only != "" && a.Name != only {
			continue
		}
		k, m := checkAgg(goose, mod, work, a)
		acc.Add("evaluations", 2)
		acc.Add("aggregation_packages", 1)
		acc.Set("nontrivial", a.Name)
		if k != "" {
			pat := strings.SplitN(a.Name, "_", 2)[1]
			acc.Violate(ev.Violation{Key: "C07/aggregation/" + k + "/" + pat, Msg: fmt.Sprintf("package %s (G = good, B = bad declaration; layout after the last '_'): %s", pat, m), Replay: map[string]any{"part": 2, "package": a.Name}})
		}
	}
	// two packages that both contain bad declarations in one invocation
	if only == "" && len(aggs) > 6 {
		a1, a2 := aggs[1], aggs[5]
		code, stderr := runGoose(goose, mod, "-out", filepath.Join(work, "o3"), "./"+a1.Name, "./"+a2.Name)
		n := len(catLine.FindAllString(stderr, -1))
		acc.Add("evaluations", 1)
		if code != 1 || n != len(a1.Bad)+len(a2.Bad) {
			acc.Violate(ev.Violation{Key: "C07/aggregation/two-packages", Msg: fmt.Sprintf("two packages with %d and %d bad declarations translated together: exit %d, %d errors reported: %s", len(a1.Bad), len(a2.Bad), code, n, first(stderr, 20)), Replay: map[string]any{"part": 2, "package": "pair"}})
		}
	}
	// packages at the edge (accepted today, candidates for new checks): whatever goose says must be structured
	shapes := map[string]string{
		"two_inits":                 "package q\n\nvar G uint64 = 1\n\nfunc init() {\n\tuse()\n}\n\nfunc init() {\n\tuse()\n\tuse()\n}\n\nfunc use() uint64 {\n\treturn G\n}\n",
		"mangling_clash":            "package q\n\ntype A struct {\n\tv uint64\n}\n\nfunc (a A) b__c(k uint64) uint64 {\n\treturn a.v + k\n}\n\ntype A__b struct {\n\tv uint64\n}\n\nfunc (a A__b) c(k uint64) uint64 {\n\treturn a.v + k + 1\n}\n",
		"method_vs_func":            "package q\n\ntype T struct {\n\tv uint64\n}\n\nfunc (t T) M(k uint64) uint64 {\n\treturn t.v + k\n}\n\nfunc T__M(k uint64) uint64 {\n\treturn k\n}\n",
		"two_blank_vars":            "package q\n\nvar _ uint64 = 1\n\nvar _ uint64 = 2\n\nfunc F() uint64 {\n\treturn 3\n}\n",
		"two_blank_funcs":           "package q\n\nfunc _() uint64 {\n\treturn 1\n}\n\nfunc _() uint64 {\n\treturn 2\n}\n\nfunc F() uint64 {\n\treturn 3\n}\n",
		"const_and_func":            "package q\n\nconst K uint64 = 1\n\nfunc F() uint64 {\n\treturn K\n}\n\ntype K2 struct {\n\tv uint64\n}\n\nfunc K2__get() uint64 {\n\treturn 2\n}\n\nfunc (k K2) get() uint64 {\n\treturn k.v\n}\n",
		"mutual_recursion_plus_bad": "package q\n\nfunc IsEven(n uint64) bool {\n\tif n == 0 {\n\t\treturn true\n\t}\n\treturn IsOdd(n - 1)\n}\n\nfunc IsOdd(n uint64) bool {\n\tif n == 0 {\n\t\treturn false\n\t}\n\treturn IsEven(n - 1)\n}\n\nfunc Bad(x uint64) uint64 {\n" + badBodies[0] + "}\n",
		"mutual_recursion_methods":  "package q\n\ntype T struct {\n\tv uint64\n}\n\nfunc (t *T) A(n uint64) uint64 {\n\tif n == 0 {\n\t\treturn t.v\n\t}\n\treturn t.B(n - 1)\n}\n\nfunc (t *T) B(n uint64) uint64 {\n\tif n == 0 {\n\t\treturn 1\n\t}\n\treturn t.A(n - 1)\n}\n",
		"recursive_types":           "package q\n\ntype Node struct {\n\tnext *Node\n\tval  uint64\n}\n\ntype A struct {\n\tb *B\n}\n\ntype B struct {\n\ta *A\n}\n\nfunc Len(n *Node) uint64 {\n\tif n == nil {\n\t\treturn 0\n\t}\n\treturn Len(n.next) + 1\n}\n",
		"three_cycle":               "package q\n\nfunc F1(n uint64) uint64 {\n\tif n == 0 {\n\t\treturn 1\n\t}\n\treturn F2(n - 1)\n}\n\nfunc F2(n uint64) uint64 {\n\tif n == 0 {\n\t\treturn 2\n\t}\n\treturn F3(n - 1)\n}\n\nfunc F3(n uint64) uint64 {\n\tif n == 0 {\n\t\treturn 3\n\t}\n\treturn F1(n - 1)\n}\n",
		"same_bad_two_files":        "",
		// values whose named type lives in the universe scope (error) or in no named struct; a body-less function (stub.s makes it legal Go)
		"error_value_method": "package q\n\nimport \"errors\"\n\nfunc Ok() uint64 {\n\treturn 1\n}\n\nfunc Msg() string {\n\treturn errors.New(\"boom\").Error()\n}\n",
		"error_pointer":      "package q\n\nimport \"errors\"\n\nfunc Ok() uint64 {\n\treturn 1\n}\n\nfunc P() uint64 {\n\te := errors.New(\"boom\")\n\tp := &e\n\tif *p == nil {\n\t\treturn 0\n\t}\n\treturn 1\n}\n",
		"bodyless_func":      "package q\n\n// implemented in assembly\nfunc External(x uint64) uint64\n\nfunc Ok() uint64 {\n\treturn 1\n}\n",
		"anon_struct_func":   "package q\n\ntype T struct {\n\tin struct {\n\t\tf func() uint64\n\t}\n}\n\nfunc Use(t *T) uint64 {\n\treturn t.in.f()\n}\n",
		"generic_append":     "package q\n\nfunc Push[S ~[]uint64](s S) S {\n\treturn append(s, 1)\n}\n",
		"generic_deref":      "package q\n\nfunc Load[P ~*uint64](p P) uint64 {\n\treturn *p\n}\n",
		"local_util_dprintf": "",
	}
	var shapeNames []string
	for n := range shapes {
		shapeNames = append(shapeNames, n)
	}
	sort.Strings(shapeNames)
	for _, n := range shapeNames {
		if only != "" {
			break
		}
		src := shapes[n]
		if n == "same_bad_two_files" {
			write(mod, "shape_"+n+"/a.go", "package q\n\nfunc Height(x uint64) uint64 {\n"+badBodies[0]+"}\n\nfunc Width(x uint64) uint64 {\n"+badBodies[0]+"}\n")
			write(mod, "shape_"+n+"/b.go", "package q\n\nfunc Scale(x uint64) uint64 {\n"+badBodies[0]+"}\n\nfunc Depth(x uint64) uint64 {\n"+badBodies[1]+"}\n")
		} else if n == "local_util_dprintf" {
			write(mod, "shape_"+n+"/util/u.go", "package util\n\nfunc DPrintf(msg string) {\n}\n")
			write(mod, "shape_"+n+"/a.go", "package q\n\nimport \"c07mod/shape_local_util_dprintf/util\"\n\nfunc F() {\n\tutil.DPrintf(\"hello\")\n}\n")
		} else {
			write(mod, "shape_"+n+"/a.go", src)
			if n == "bodyless_func" {
				write(mod, "shape_"+n+"/stub.s", "")
			}
		}
		for _, variant := range []int{0, 1, 2, 3} {
			ign := variant&1 != 0
			args := []string{"-out", filepath.Join(work, "oshape")}
			if ign {
				args = append(args, "-ignore-errors")
			}
			if variant&2 != 0 {
				args = append(args, "-skip-interfaces")
			}
			code, stderr := runGoose(goose, mod, append(args, "./shape_"+n)...)
			acc.Add("evaluations", 1)
			acc.Set("nontrivial", "shape:"+n)
			bad := ""
			ncat := len(catLine.FindAllString(stderr, -1))
			nsrc := len(srcLine.FindAllString(stderr, -1))
			switch {
			case code != 0 && code != 1:
				bad = fmt.Sprintf("exit status %d", code)
			case code == 0 && strings.TrimSpace(stderr) != "":
				bad = "exit status 0 but something was reported"
			case code == 1 && ncat == 0:
				bad = "exit status 1 without any structured ([category]: ...) error"
			case code == 1 && nsrc != ncat:
				bad = fmt.Sprintf("%d structured errors but %d source positions", ncat, nsrc)
			case code == 1:
				if m := nErrors.FindStringSubmatch(stderr); m == nil || m[1] != strconv.Itoa(ncat) {
					bad = fmt.Sprintf("the summary does not say '%d errors' although %d structured errors are listed (an error without category and position?)", ncat, ncat)
				}
			}
			if n == "same_bad_two_files" && bad == "" && ncat != 4 {
				bad = fmt.Sprintf("%d errors reported for 4 bad declarations (three of them fail on the same statement text)", ncat)
			}
			if bad != "" {
				acc.Violate(ev.Violation{Key: "C07/shape/" + n + "/" + fmt.Sprint(ign) + map[bool]string{false: "", true: "/skip-interfaces"}[variant&2 != 0], Msg: fmt.Sprintf("package %s (-ignore-errors=%v -skip-interfaces=%v): %s\n%s", n, ign, variant&2 != 0, bad, first(stderr, 25)), Replay: map[string]any{"part": 2, "package": "shape"}})
			}
		}
	}
	acc.Sample(map[string]any{"part": "aggregation", "packages": len(aggs), "example": aggs[len(aggs)/2]}, 3)
}

func main() {
	tier := flag.String("tier", "quick", "")
	replay := flag.String("replay", "", "")
	goose := flag.String("bin", "", "goose binary")
	bridge := flag.String("bridge", "", "gooseb binary")
	flag.Parse()
	start := time.Now()
	work, _ := os.MkdirTemp("", "verif-c07-")
	defer os.RemoveAll(work)
	acc := ev.NewAcc()
	if *replay != "" {
		var rf struct {
			Replay struct {
				Part       int    `json:"part"`
				Descriptor string `json:"descriptor"`
				Package    string `json:"package"`
			} `json:"replay"`
		}
		b, _ := os.ReadFile(*replay)
		json.Unmarshal(b, &rf)
		if rf.Replay.Part == 1 {
			part1("thorough", *bridge, work, rf.Replay.Descriptor, acc)
		} else if rf.Replay.Part == 4 {
			diffexec.CrashCheckLookalikes(*goose, work, acc)
		} else {
			part2("thorough", *goose, work, acc, rf.Replay.Package)
		}
		os.RemoveAll(work)
		if len(acc.Violations) > 0 {
			fmt.Println(acc.Violations[0].Msg)
			fmt.Printf("VIOLATION property=C07 replay=%s\n", *replay)
			os.Exit(1)
		}
		fmt.Println("replay: property holds on this case")
		return
	}
	if *bridge != "" {
		part1(*tier, *bridge, work, "", acc)
	} else {
		acc.NotExhaustive("the per-declaration bridge does not build against this tree (it calls unexported functions of package goose): parts (1) and (3) skipped, parts (2) and (4) run through the real binary")
	}
	part2(*tier, *goose, work, acc, "")
	if *bridge != "" {
		part3(*tier, *bridge, acc, start)
	}
	diffexec.CrashCheckLookalikes(*goose, work, acc)
	os.RemoveAll(work)
	os.Exit(acc.Done(ev.Finish{
		Prop: "C07", Tier: *tier, Level: "exploration", Start: start,
		Rule:        "(1) every construct of the out-of-subset catalogue (C02) plus a family of crash-prone type shapes (named slice / map / pointer types, 5-value destructuring, generics, methods on named integers, interface shapes, arrays, nested containers, defer/select/labels ...) and 12 supported controls at every statement position (quick: 4 positions), each declaration translated and printed separately by the real translator code through the overlay bridge under recover: a foreign panic, an undocumented error category, an error position outside the offending declaration or a declaration with neither error nor output is a violation. (2) packages of good (G) and bad (B) declarations in every pattern of a fixed list (B, GB, BG, GBG, BB, GBBG, BGB, BBB, ...) over 4 file layouts through the real binary with and without -ignore-errors: exit 1, exactly one located error per bad declaration, correct summary, nothing written without -ignore-errors, exactly the good declarations with it; plus two bad packages in one invocation; plus patterns whose bad declarations all fail on the same statement text, and edge packages (several init, name-mangling clashes between methods and functions, several blank declarations): whatever goose answers must be exit 0 with empty stderr or exit 1 with only structured, located errors matching the summary count. (3) every single mutation (node x operator: parenthesise, &/* on selector bases and call arguments, literal conversions, := to var, op-assign expansion, ++ to +=, block / if-true / function-literal wrapping of statements) of the shipped example packages (quick: append_log, async; thorough: all of internal/examples), type-checked and translated declaration by declaration in memory; ill-typed mutants are discarded and counted. (4) the real binary on every look-alike package of C02 (user functions named like builtins with the builtin's and with other arities, local packages named like library packages), with and without -ignore-errors: exit status 0 or 1, no Go panic",
		Assumptions: []string{"per-declaration translation goes through an overlay-added file in package goose that calls declsOrError and CoqDecl exactly as Decls / File.Write do", "crashes outside declaration translation (package loading, FFI detection) are covered by C08's two-FFI configurations"},
		Extra:       map[string]any{"distinct_nontrivial": len(acc.Sets["nontrivial"])},
	}))
}

// ---------------------------------------------------------------- part 3: single mutations of the shipped examples

type mutant struct {
	File, Op, Text string
	Off            int
	Content        string
}

// mutantsOf enumerates every single textual mutation (node x operator) of one Go file.
func mutantsOf(path string, src []byte) []mutant {
	fset := token.NewFileSet()
	f, err := parser.ParseFile(fset, path, src, 0)
	if err != nil {
		return nil
	}
	var out []mutant
	add := func(op string, n ast.Node, repl func(old string) string) {
		s, e := fset.Position(n.Pos()).Offset, fset.Position(n.End()).Offset
		if s < 0 || e > len(src) || s >= e {
			return
		}
		old := string(src[s:e])
		nw := repl(old)
		if nw == old {
			return
		}
		out = append(out, mutant{File: path, Op: op, Text: old, Off: s, Content: string(src[:s]) + nw + string(src[e:])})
	}
	inFunc := false
	ast.Inspect(f, func(n ast.Node) bool {
		switch n := n.(type) {
		case *ast.FuncDecl:
			inFunc = n.Body != nil
		case *ast.BinaryExpr, *ast.CallExpr, *ast.IndexExpr, *ast.SelectorExpr, *ast.StarExpr, *ast.UnaryExpr, *ast.SliceExpr, *ast.CompositeLit:
			if inFunc {
				add("paren", n, func(o string) string { return "(" + o + ")" })
			}
			if se, ok := n.(*ast.SelectorExpr); ok && inFunc {
				add("addr-sel", se.X, func(o string) string { return "(&" + o + ")" })
				add("deref-sel", se.X, func(o string) string { return "(*" + o + ")" })
			}
			if ce, ok := n.(*ast.CallExpr); ok && inFunc {
				for _, a := range ce.Args {
					add("addr-deref-arg", a, func(o string) string { return "*&" + o })
				}
			}
		case *ast.BasicLit:
			if inFunc && n.Kind == token.INT {
				add("conv-lit", n, func(o string) string { return "uint64(" + o + ")" })
				add("lit-plus-zero", n, func(o string) string { return "(" + o + " + 0)" })
			}
			if inFunc && n.Kind == token.STRING {
				add("str-concat-empty", n, func(o string) string { return "(" + o + " + \"\")" })
			}
		case *ast.AssignStmt:
			if inFunc && n.Tok == token.DEFINE && len(n.Lhs) == 1 && len(n.Rhs) == 1 {
				add("define-to-var", n, func(o string) string { return "var " + strings.Replace(o, ":=", "=", 1) })
			}
			if inFunc && n.Tok == token.ADD_ASSIGN && len(n.Lhs) == 1 {
				l, r := string(src[fset.Position(n.Lhs[0].Pos()).Offset:fset.Position(n.Lhs[0].End()).Offset]), string(src[fset.Position(n.Rhs[0].Pos()).Offset:fset.Position(n.Rhs[0].End()).Offset])
				add("expand-opassign", n, func(o string) string { return l + " = " + l + " + " + r })
				add("mul-assign", n, func(o string) string { return l + " *= " + r })
			}
		case *ast.IncDecStmt:
			if inFunc {
				x := string(src[fset.Position(n.X.Pos()).Offset:fset.Position(n.X.End()).Offset])
				add("incdec-to-opassign", n, func(o string) string {
					if n.Tok == token.INC {
						return x + " += 1"
					}
					return x + " -= 1"
				})
			}
		case *ast.ExprStmt, *ast.ReturnStmt, *ast.IfStmt, *ast.ForStmt, *ast.RangeStmt, *ast.BranchStmt, *ast.GoStmt:
			if inFunc {
				add("block-wrap", n, func(o string) string { return "{\n" + o + "\n}" })
				add("if-true-wrap", n, func(o string) string { return "if true {\n" + o + "\n}" })
				if _, isRet := n.(*ast.ReturnStmt); !isRet {
					add("defer-wrap", n, func(o string) string { return "func() {\n" + o + "\n}()" })
				}
			}
		case *ast.Ident:
			// handled through the parents above
		}
		return true
	})
	return out
}

func part3(tier, bridge string, acc *ev.Acc, start time.Time) {
	var files []string
	pkgs := []string{"internal/examples/unittest", "internal/examples/semantics", "internal/examples/append_log", "internal/examples/wal", "internal/examples/simpledb", "internal/examples/logging2", "internal/examples/async", "internal/examples/comments"}
	if tier == "quick" {
		pkgs = []string{"internal/examples/append_log", "internal/examples/async"}
	}
	for _, p := range pkgs {
		m, _ := filepath.Glob(filepath.Join("/repo", p, "*.go"))
		for _, f := range m {
			if !strings.HasSuffix(f, "_test.go") {
				files = append(files, f)
			}
		}
	}
	sort.Strings(files)
	type job struct {
		m   mutant
		pkg string
	}
	var jobs []job
	for _, f := range files {
		src, err := os.ReadFile(f)
		if err != nil {
			continue
		}
		rel, _ := filepath.Rel("/repo", filepath.Dir(f))
		for _, m := range mutantsOf(f, src) {
			jobs = append(jobs, job{m, "./" + rel})
		}
	}
	nw := 16
	ch := make(chan job)
	type res struct {
		j     job
		kind  string
		msg   string
		state string // discarded | rejected | accepted | panic
	}
	results := make(chan res, 64)
	var wg sync.WaitGroup
	for w := 0; w < nw; w++ {
		wg.Add(1)
		go func() {
			defer wg.Done()
			c := exec.Command(bridge, "-dir", "/repo", "-serve")
			stdin, _ := c.StdinPipe()
			stdout, _ := c.StdoutPipe()
			c.Stderr = os.Stderr
			if err := c.Start(); err != nil {
				return
			}
			rd := bufio.NewReaderSize(stdout, 1<<24)
			enc := json.NewEncoder(stdin)
			for j := range ch {
				enc.Encode(map[string]string{"file": j.m.File, "content": j.m.Content, "only": filepath.Base(j.m.File), "pattern": j.pkg})
				line, err := rd.ReadBytes('\n')
				if err != nil {
					results <- res{j: j, state: "panic", kind: "bridge-died", msg: "the translator process died on this input"}
					return
				}
				var pk []bpkg
				if json.Unmarshal(line, &pk) != nil || len(pk) == 0 || pk[0].LoadError != "" {
					results <- res{j: j, state: "discarded"}
					continue
				}
				r := res{j: j, state: "accepted"}
				for _, d := range pk[0].Decls {
					if d.Panic != "" {
						r.state, r.kind, r.msg = "panic", "crash:"+norm(d.Panic), fmt.Sprintf("the translator panics: %s @ %s (declaration %s)", d.Panic, d.PanicTop, d.GoName)
						break
					}
					if d.ErrCat != "" {
						r.state = "rejected"
						if !documented[d.ErrCat] {
							r.kind, r.msg = "undocumented-category", d.ErrCat
						} else if filepath.Base(d.ErrFile) != d.File || d.ErrLine < d.Line || d.ErrLine > d.EndLine {
							r.kind, r.msg = "position-outside-declaration", fmt.Sprintf("error (%s: %s) at %s:%d, declaration %s spans %d-%d", d.ErrCat, d.ErrMsg, d.ErrFile, d.ErrLine, d.GoName, d.Line, d.EndLine)
						}
					}
				}
				results <- r
			}
			stdin.Close()
			c.Wait()
		}()
	}
	go func() {
		for _, j := range jobs {
			if time.Since(start) > 25*time.Minute {
				acc.NotExhaustive("internal deadline (example mutations)")
				break
			}
			ch <- j
		}
		close(ch)
		wg.Wait()
		close(results)
	}()
	for r := range results {
		acc.Add("evaluations", 1)
		acc.Add("example_mutants", 1)
		acc.Add("example_mutants_"+r.state, 1)
		acc.Set("mutation_operators", r.j.m.Op)
		if r.state != "discarded" {
			acc.Set("nontrivial", fmt.Sprintf("%s@%d/%s", filepath.Base(r.j.m.File), r.j.m.Off, r.j.m.Op))
		}
		if r.kind != "" {
			rel, _ := filepath.Rel("/repo", r.j.m.File)
			acc.Violate(ev.Violation{Key: fmt.Sprintf("C07/example-mutation/%s/%s/%s", r.kind, r.j.m.Op, rel), Msg: fmt.Sprintf("%s: operator %s applied to `%s` (offset %d): %s", rel, r.j.m.Op, oneLine(r.j.m.Text), r.j.m.Off, r.msg), Replay: map[string]any{"part": 3, "file": r.j.m.File, "op": r.j.m.Op, "offset": r.j.m.Off}})
		}
	}
	if len(jobs) > 0 {
		m := jobs[len(jobs)/2].m
		acc.Sample(map[string]any{"part": "example mutation", "file": m.File, "operator": m.Op, "node": oneLine(m.Text)}, 4)
	}
}

func oneLine(s string) string {
	s = strings.Join(strings.Fields(s), " ")
	if len(s) > 80 {
		s = s[:80] + "…"
	}
	return s
}
