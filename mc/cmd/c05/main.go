// c05: the output is well-formed and source text cannot alter its structure.
// (a) every token string up to a length bound over a delimiter alphabet at
// every text position; (b) every operator / context nesting, judged by value
// (the text is read with Coq's precedences and interpreted); (c) every flag
// combination leaves definition bodies unchanged.
package main

import (
	"regexp"
	"encoding/json"
	"flag"
	"fmt"
	"os"
	"os/exec"
	"path/filepath"
	"strconv"
	"strings"
	"time"

	"verif/diffexec"
	"verif/ev"
	"verif/gl"
)

var tokens = []string{"(*", "*)", "(", "*", ")", "\"", "\n", " ", "x", "é"}

// further tokens, used alone and next to a few of the others: format verbs, tabs, backslashes
var extraTokens = []string{"%", "%d", "%s", "%!", "\t", "\\", "'", "\r"}
var extraPartners = []string{"\"", "(*", "x", " "}

// texts long enough for any line-length limit a printer might have (words separated by blanks, so that a fold lands inside)
var longTexts = []string{strings.Repeat("lorem ipsum ", 30), strings.Repeat("w ", 200), strings.Repeat("x", 400)}

type Text struct {
	Pos string `json:"pos"`
	T   string `json:"t"`
}

var positions = []string{"pkgdoc", "funcdoc", "structdoc", "constdoc", "consttrail", "strlit", "rawstrlit", "panicmsg", "logprintf", "lograw", "fmtprintln",
	"strconst", "strconcat", "panicconst", "panicconcat", "logconst",
	"strlit_in_branch", "strlit_in_call_arg", "log_last_in_if", "log_last_in_else", "log_last_in_range", "log_last_in_go", "log_only", "log_last_in_closure"}

func lineComment(t string) string {
	var sb strings.Builder
	for _, l := range strings.Split(t, "\n") {
		sb.WriteString("// " + l + "\n")
	}
	return sb.String()
}

// source renders the one-file package for a text at a position ("" = not applicable).
func source(p Text) string {
	t := p.T
	switch p.Pos {
	case "pkgdoc":
		return lineComment(t) + "package q\n\nfunc F() uint64 {\n\treturn 1\n}\n"
	case "funcdoc":
		return "package q\n\n" + lineComment(t) + "func F() uint64 {\n\treturn 1\n}\n\nfunc G() uint64 {\n\treturn 2\n}\n"
	case "structdoc":
		return "package q\n\n" + lineComment(t) + "type S struct {\n\tf uint64\n}\n\nfunc G() uint64 {\n\treturn 2\n}\n"
	case "constdoc":
		return "package q\n\n" + lineComment(t) + "const C uint64 = 1\n\nfunc G() uint64 {\n\treturn C\n}\n"
	case "consttrail":
		if strings.Contains(t, "\n") {
			return ""
		}
		return "package q\n\nconst C uint64 = 1 // " + t + "\n\nfunc G() uint64 {\n\treturn C\n}\n"
	case "strlit":
		return "package q\n\nfunc F() string {\n\treturn " + strconv.Quote(t) + "\n}\n\nfunc G() uint64 {\n\treturn 2\n}\n"
	case "rawstrlit":
		return "package q\n\nfunc F() string {\n\treturn `" + t + "`\n}\n\nfunc G() uint64 {\n\treturn 2\n}\n"
	case "panicmsg":
		return "package q\n\nfunc F(n uint64) uint64 {\n\tif n == 0 {\n\t\tpanic(" + strconv.Quote(t) + ")\n\t}\n\treturn 1\n}\n\nfunc G() uint64 {\n\treturn 2\n}\n"
	case "logprintf":
		return "package q\n\nimport \"log\"\n\nfunc F() uint64 {\n\tlog.Printf(" + strconv.Quote(t) + ")\n\treturn 1\n}\n\nfunc G() uint64 {\n\treturn 2\n}\n"
	case "lograw":
		return "package q\n\nimport \"log\"\n\nfunc F() uint64 {\n\tlog.Printf(`" + t + "`)\n\treturn 1\n}\n\nfunc G() uint64 {\n\treturn 2\n}\n"
	case "strlit_in_branch":
		return "package q\n\nfunc F(b bool) string {\n\tif b {\n\t\treturn " + strconv.Quote(t) + "\n\t}\n\treturn \"y\"\n}\n\nfunc G() uint64 {\n\treturn 2\n}\n"
	case "strlit_in_call_arg":
		return "package q\n\nfunc id(s string, n uint64) string {\n\treturn s\n}\n\nfunc F(b bool) string {\n\tr := id(" + strconv.Quote(t) + ", 1)\n\treturn r\n}\n\nfunc G() uint64 {\n\treturn 2\n}\n"
	case "log_last_in_if":
		return "package q\n\nimport \"log\"\n\nfunc F(b bool) uint64 {\n\tvar n uint64 = 0\n\tif b {\n\t\tn = 1\n\t\tlog.Printf(" + strconv.Quote(t) + ")\n\t}\n\treturn n\n}\n\nfunc G() uint64 {\n\treturn 2\n}\n"
	case "log_last_in_else":
		return "package q\n\nimport \"log\"\n\nfunc F(b bool) uint64 {\n\tvar n uint64 = 0\n\tif b {\n\t\tn = 1\n\t} else {\n\t\tlog.Printf(" + strconv.Quote(t) + ")\n\t}\n\tn = n + 1\n\treturn n\n}\n\nfunc G() uint64 {\n\treturn 2\n}\n"
	case "log_last_in_range":
		return "package q\n\nimport \"log\"\n\nfunc F(xs []uint64) uint64 {\n\tvar n uint64 = 0\n\tfor _, x := range xs {\n\t\tn = n + x\n\t\tlog.Printf(" + strconv.Quote(t) + ")\n\t}\n\treturn n\n}\n\nfunc G() uint64 {\n\treturn 2\n}\n"
	case "log_last_in_go":
		return "package q\n\nimport \"log\"\n\nfunc F() uint64 {\n\tgo func() {\n\t\tlog.Printf(" + strconv.Quote(t) + ")\n\t}()\n\treturn 1\n}\n\nfunc G() uint64 {\n\treturn 2\n}\n"
	case "log_only":
		return "package q\n\nimport \"log\"\n\nfunc F() {\n\tlog.Printf(" + strconv.Quote(t) + ")\n}\n\nfunc G() uint64 {\n\treturn 2\n}\n"
	case "log_last_in_closure":
		return "package q\n\nimport \"log\"\n\nfunc F() uint64 {\n\tf := func() {\n\t\tlog.Printf(" + strconv.Quote(t) + ")\n\t}\n\tf()\n\treturn 1\n}\n\nfunc G() uint64 {\n\treturn 2\n}\n"
	case "strconst":
		return "package q\n\nconst M = " + strconv.Quote(t) + "\n\nfunc F() string {\n\treturn M\n}\n\nfunc G() uint64 {\n\treturn 2\n}\n"
	case "strconcat":
		return "package q\n\nfunc F(s string) string {\n\treturn s + " + strconv.Quote(t) + "\n}\n\nfunc G() uint64 {\n\treturn 2\n}\n"
	case "panicconst":
		return "package q\n\nconst M = " + strconv.Quote(t) + "\n\nfunc F(n uint64) uint64 {\n\tif n == 0 {\n\t\tpanic(M)\n\t}\n\treturn 1\n}\n\nfunc G() uint64 {\n\treturn 2\n}\n"
	case "panicconcat":
		return "package q\n\nconst K = \"k\"\n\nfunc F(n uint64) uint64 {\n\tif n == 0 {\n\t\tpanic(\"a \" + K + " + strconv.Quote(t) + ")\n\t}\n\treturn 1\n}\n\nfunc G() uint64 {\n\treturn 2\n}\n"
	case "logconst":
		return "package q\n\nimport \"log\"\n\nconst M = " + strconv.Quote(t) + "\n\nfunc F() uint64 {\n\tlog.Printf(M)\n\treturn 1\n}\n\nfunc G() uint64 {\n\treturn 2\n}\n"
	case "fmtprintln":
		return "package q\n\nimport \"fmt\"\n\nfunc F() uint64 {\n\tfmt.Println(" + strconv.Quote(t) + ", 1)\n\treturn 1\n}\n\nfunc G() uint64 {\n\treturn 2\n}\n"
	}
	return ""
}

func strings_(maxLen int) []string {
	var out []string
	var rec func(cur string, n int)
	rec = func(cur string, n int) {
		if n > 0 {
			out = append(out, cur)
		}
		if n == maxLen {
			return
		}
		for _, t := range tokens {
			rec(cur+t, n+1)
		}
	}
	rec("", 0)
	out = append(out, longTexts...)
	for _, e := range extraTokens {
		out = append(out, e, e+e)
		for _, q := range extraPartners {
			out = append(out, e+q, q+e)
		}
	}
	return out
}

type shape struct {
	sents  []string          // kind:name list
	bodies map[string]string // definition -> sexp
}

func shapeOf(f *gl.File) shape {
	s := shape{bodies: map[string]string{}}
	for _, x := range f.Sentences {
		s.sents = append(s.sents, x.Kind+":"+x.Name)
		if x.Body != nil {
			s.bodies[x.Name] = gl.Sexp(x.Body)
		}
	}
	return s
}

func writeFile(root, rel, content string) {
	p := filepath.Join(root, rel)
	os.MkdirAll(filepath.Dir(p), 0755)
	if err := os.WriteFile(p, []byte(content), 0644); err != nil {
		panic(err)
	}
}

func runGoose(goose, dir string, args ...string) (int, string) {
	c := exec.Command(goose, args...)
	c.Dir = dir
	out, err := c.CombinedOutput()
	code := 0
	if ee, ok := err.(*exec.ExitError); ok {
		code = ee.ExitCode()
	}
	return code, string(out)
}

func partText(tier, goose, work string, acc *ev.Acc, only *Text) {
	maxLen := 2
	if tier == "thorough" {
		maxLen = 3
	}
	mod := filepath.Join(work, "modt")
	writeFile(mod, "go.mod", "module c05mod\n\ngo 1.22\n")
	type item struct {
		p    Text
		name string
	}
	var items []item
	neutral := map[string]string{}
	id := 0
	add := func(p Text) string {
		src := source(p)
		if src == "" {
			return ""
		}
		id++
		name := fmt.Sprintf("t%06d", id)
		writeFile(mod, name+"/a.go", src)
		items = append(items, item{p, name})
		return name
	}
	for _, pos := range positions {
		neutral[pos] = add(Text{pos, "x"})
	}
	if only != nil {
		add(*only)
	} else {
		for _, pos := range positions {
			for _, t := range strings_(maxLen) {
				if t == "x" {
					continue
				}
				if pos == "rawstrlit" || pos == "lograw" {
					if strings.Contains(t, "`") || strings.Contains(t, "\r") {
						continue // Go itself drops carriage returns from raw string literals
					}
				}
				add(Text{pos, t})
			}
		}
	}
	// the generated packages must be valid Go
	if out, err := func() ([]byte, error) {
		c := exec.Command("go", "vet", "./...")
		c.Dir = mod
		return c.CombinedOutput()
	}(); err != nil && strings.Contains(string(out), "syntax error") {
		fmt.Fprintln(os.Stderr, "harness error: generated text packages are not valid Go:", string(out)[:min(len(out), 800)])
		os.Exit(3)
	}
	outDir := filepath.Join(work, "outt")
	for i := 0; i < len(items); i += 400 {
		j := min(i+400, len(items))
		args := []string{"-out", outDir}
		for _, it := range items[i:j] {
			args = append(args, "./"+it.name)
		}
		code, out := runGoose(goose, mod, args...)
		if code != 0 && code != 1 {
			acc.Violate(ev.Violation{Key: "C05/text/goose-crash", Msg: "goose exited with status " + fmt.Sprint(code) + ": " + out[:min(len(out), 600)]})
		}
	}
	neutralShape := map[string]shape{}
	brokenPos := map[string]bool{}
	for pos, name := range neutral {
		b, err := os.ReadFile(filepath.Join(outDir, "c05mod", name+".v"))
		if err != nil {
			fmt.Fprintln(os.Stderr, "harness error: neutral package for position", pos, "was not translated")
			os.Exit(3)
		}
		f, perr := gl.ParseFile(string(b))
		if perr != nil || len(f.Bad) > 0 {
			// even the harmless text gives ill-formed output at this position
			bad := fmt.Sprint(perr)
			if perr == nil {
				bad = f.Bad[0].Err + "\n" + f.Bad[0].Raw
			}
			acc.Violate(ev.Violation{Key: fmt.Sprintf("C05/text/%s/parse/evenq/%q", pos, "x"), Msg: fmt.Sprintf("text %q at position %s: the emitted file does not parse: %s\n--- Go source ---\n%s", "x", pos, bad, source(Text{pos, "x"})), Replay: map[string]any{"part": "text", "text": Text{pos, "x"}}})
			brokenPos[pos] = true
			continue
		}
		neutralShape[pos] = shapeOf(f)
	}
	for _, it := range items {
		if brokenPos[it.p.Pos] {
			continue
		}
		acc.Add("evaluations", 1)
		acc.Add("text_packages", 1)
		acc.Set("nontrivial", it.p.Pos+"/"+it.p.T)
		parity := "evenq"
		if strings.Count(it.p.T, "\"")%2 == 1 {
			parity = "oddq"
		}
		viol := func(kind, msg string) {
			acc.Violate(ev.Violation{Key: fmt.Sprintf("C05/text/%s/%s/%s/%q", it.p.Pos, kind, parity, it.p.T), Msg: fmt.Sprintf("text %q at position %s: %s\n--- Go source ---\n%s", it.p.T, it.p.Pos, msg, source(it.p)), Replay: map[string]any{"part": "text", "text": it.p}})
		}
		b, err := os.ReadFile(filepath.Join(outDir, "c05mod", it.name+".v"))
		if err != nil {
			acc.Add("text_packages_rejected", 1)
			continue // rejected: acceptable
		}
		f, perr := gl.ParseFile(string(b))
		if perr != nil {
			kind := "parse"
			if le, ok := perr.(*gl.LexError); ok {
				kind = "lex:" + le.Kind
			}
			viol(kind, "the emitted file is not lexically well-formed: "+perr.Error()+"\n"+string(b))
			continue
		}
		if len(f.Bad) > 0 {
			viol("parse", "a sentence of the emitted file does not parse: "+f.Bad[0].Err+"\n"+f.Bad[0].Raw)
			continue
		}
		got, want := shapeOf(f), neutralShape[it.p.Pos]
		if strings.Join(got.sents, "|") != strings.Join(want.sents, "|") {
			viol("sentences-differ", fmt.Sprintf("Coq sees the sentences %v; with neutral text it sees %v", got.sents, want.sents))
			continue
		}
		for name, wb := range want.bodies {
			gb := got.bodies[name]
			switch it.p.Pos {
			case "strlit", "rawstrlit", "strconst", "strconcat", "panicconst", "panicconcat", "logconst", "strlit_in_branch", "strlit_in_call_arg":
				wb = strings.ReplaceAll(wb, `#(str"x")`, fmt.Sprintf("#(str%q)", it.p.T))
			case "panicmsg":
				wb = strings.ReplaceAll(wb, `"x"`, fmt.Sprintf("%q", it.p.T))
			}
			if gb != wb {
				viol("body-differs", fmt.Sprintf("the body of %s is %s, expected %s", name, gb, wb))
				break
			}
		}
	}
	acc.Sample(map[string]any{"part": "text", "positions": positions, "alphabet": tokens, "max_tokens": maxLen, "example": items[len(items)/2].p}, 2)
}

// ---------------------------------------------------------------- identifiers

// Go identifiers that are reserved words or notation keywords on the Coq side, at every place an identifier is declared.
var coqWords = []string{"in", "then", "fun", "match", "end", "with", "let", "fix", "forall", "exists", "as", "at", "using", "where", "mod", "Type", "Prop", "Set",
	"rec", "val", "expr", "ty", "λ", "Definition", "Section", "Fork", "Skip", "Panic", "ref", "slice", "lock", "not", "neutral"}

func identSource(pos, n string) string {
	switch pos {
	case "funcname":
		return "package q\n\nfunc " + n + "(x uint64) uint64 {\n\treturn x + 1\n}\n\nfunc G() uint64 {\n\treturn " + n + "(2)\n}\n"
	case "typename":
		return "package q\n\ntype " + n + " struct {\n\tv uint64\n}\n\nfunc G() uint64 {\n\tt := " + n + "{v: 1}\n\treturn t.v\n}\n"
	case "constname":
		return "package q\n\nconst " + n + " uint64 = 3\n\nfunc G() uint64 {\n\treturn " + n + " + 1\n}\n"
	case "globalname":
		return "package q\n\nvar " + n + " uint64 = 3\n\nfunc G() uint64 {\n\treturn " + n + " + 1\n}\n"
	case "methodname":
		return "package q\n\ntype T struct {\n\tv uint64\n}\n\nfunc (t T) " + n + "(k uint64) uint64 {\n\treturn t.v + k\n}\n\nfunc G() uint64 {\n\tt := T{v: 1}\n\treturn t." + n + "(2)\n}\n"
	case "fieldname":
		return "package q\n\ntype T struct {\n\t" + n + " uint64\n}\n\nfunc G() uint64 {\n\tt := T{" + n + ": 1}\n\treturn t." + n + "\n}\n"
	case "param":
		return "package q\n\nfunc F(" + n + " uint64) uint64 {\n\treturn " + n + " + 1\n}\n\nfunc G() uint64 {\n\treturn F(2)\n}\n"
	case "typeparam":
		return "package q\n\nfunc F[" + n + " any](x " + n + ", y " + n + ") " + n + " {\n\treturn x\n}\n\nfunc G() uint64 {\n\treturn F[uint64](2, 3)\n}\n"
	case "pkgname":
		// the package itself is written by partIdents (<pkg>/lib/l.go, package n)
		return "package q\n\nimport \"c05ids/PKGDIR/lib\"\n\nfunc G() uint64 {\n\treturn " + n + ".Add(2)\n}\n"
	case "local":
		return "package q\n\nfunc G(x uint64) uint64 {\n\t" + n + " := x + 1\n\treturn " + n + " * 2\n}\n"
	case "localvar":
		return "package q\n\nfunc G(x uint64) uint64 {\n\tvar " + n + " uint64 = x\n\t" + n + " = " + n + " + 1\n\treturn " + n + "\n}\n"
	}
	return ""
}

var typeParamHeader = regexp.MustCompile(`Definition F \((\S+):ty\)[^\n]*: (\S+) :=`)

func partIdents(goose, work string, acc *ev.Acc) {
	mod := filepath.Join(work, "modi")
	writeFile(mod, "go.mod", "module c05ids\n\ngo 1.22\n")
	positions := []string{"funcname", "typename", "constname", "globalname", "methodname", "fieldname", "param", "local", "localvar", "typeparam", "pkgname"}
	type item struct{ pos, name, pkg string }
	var items []item
	id := 0
	for _, pos := range positions {
		for _, n := range coqWords {
			id++
			pkg := fmt.Sprintf("i%04d", id)
			writeFile(mod, pkg+"/a.go", strings.ReplaceAll(identSource(pos, n), "PKGDIR", pkg))
			if pos == "pkgname" {
				writeFile(mod, pkg+"/lib/l.go", "package "+n+"\n\nfunc Add(x uint64) uint64 {\n\treturn x + 1\n}\n")
			}
			items = append(items, item{pos, n, pkg})
		}
	}
	if out, err := func() ([]byte, error) {
		c := exec.Command("go", "vet", "./...")
		c.Dir = mod
		return c.CombinedOutput()
	}(); err != nil && strings.Contains(string(out), "syntax error") {
		fmt.Fprintln(os.Stderr, "harness error: generated identifier packages are not valid Go:", string(out)[:min(len(out), 800)])
		os.Exit(3)
	}
	outDir := filepath.Join(work, "outi")
	args := []string{"-out", outDir}
	for _, it := range items {
		args = append(args, "./"+it.pkg)
	}
	if code, out := runGoose(goose, mod, args...); code != 0 && code != 1 {
		acc.Violate(ev.Violation{Key: "C05/ident/goose-crash", Msg: "goose exited with status " + fmt.Sprint(code) + ": " + out[:min(len(out), 600)]})
	}
	neutralOrder := map[string]string{}
	for pass := 0; pass < 2; pass++ {
		for _, it := range items {
			if (it.name == "neutral") != (pass == 0) {
				continue
			}
			b, err := os.ReadFile(filepath.Join(outDir, "c05ids", it.pkg+".v"))
			if pass == 0 {
				if err != nil {
					fmt.Fprintln(os.Stderr, "harness error: neutral identifier package not translated:", it.pos)
					os.Exit(3)
				}
				f, _ := gl.ParseFile(string(b))
				neutralOrder[it.pos] = strings.Join(f.Order, " ")
				continue
			}
			acc.Add("evaluations", 1)
			acc.Add("identifier_packages", 1)
			acc.Set("nontrivial", "ident:"+it.pos+"/"+it.name)
			if err != nil {
				acc.Add("identifier_packages_rejected", 1)
				continue // rejected: acceptable
			}
			viol := func(kind, msg string) {
				acc.Violate(ev.Violation{Key: fmt.Sprintf("C05/ident/%s/%s/%s", it.pos, kind, it.name), Msg: fmt.Sprintf("Go identifier %q as a %s: %s\n--- Go source ---\n%s--- emitted ---\n%s", it.name, it.pos, msg, identSource(it.pos, it.name), string(b)), Replay: map[string]any{"part": "ident"}})
			}
			f, perr := gl.ParseFile(string(b))
			if perr != nil {
				viol("parse", "the emitted file is not well-formed: "+perr.Error())
				continue
			}
			if len(f.Bad) > 0 {
				viol("parse", "a sentence of the emitted file does not parse: "+f.Bad[0].Err)
				continue
			}
			// a type parameter is a Gallina binder of the definition: it must not capture a word of the rest of the header
			if m := typeParamHeader.FindStringSubmatch(string(b)); m != nil && it.pos == "typeparam" && m[1] == m[2] {
				viol("capture", fmt.Sprintf("the binder (%s:ty) captures the annotation \": %s\" of the same definition", m[1], m[2]))
				continue
			}
			want := strings.ReplaceAll(neutralOrder[it.pos], "neutral", it.name)
			if got := strings.Join(f.Order, " "); got != want {
				viol("definitions", fmt.Sprintf("definitions %q, with a harmless name %q", got, want))
			}
		}
	}
}

// ---------------------------------------------------------------- flags

const flagFixture = `package q

type I interface {
	m() uint64
}

// St is a struct
type St struct {
	v uint64
}

func (s St) m() uint64 {
	return s.v
}

func use(i I) uint64 {
	return i.m()
}

// f1 converts a struct to an interface
func f1(x uint64) uint64 {
	return use(St{v: x}) + 1
}

// f2 needs the same conversion at another call site
func f2(x uint64) uint64 {
	s := St{v: x + 1}
	return use(s) + use(St{v: 2})
}

// apply2 takes a function over a pointer (its Go signature contains "(*St")
func apply2(g func(*St) uint64, s *St) uint64 {
	return g(s)
}

func (s *St) bump(k uint64) {
	s.v = s.v + k
}

func viaPtr() uint64 {
	s := &St{v: 1}
	s.bump(2)
	return apply2(func(p *St) uint64 {
		return p.v
	}, s)
}

func maps(m map[uint64][]uint64, k uint64) (uint64, bool) {
	v, ok := m[k]
	return uint64(len(v)), ok
}

const K uint64 = 5 // trailing

func arith(x uint64, y uint64) uint64 {
	if x - (y - 1) > K {
		return (x + y) * 2
	}
	return x / (y | 1)
}

func loop(n uint64) uint64 {
	var acc uint64 = 0
	for i := uint64(0); i < n; i++ {
		acc += i
	}
	return acc
}
`

func partFlags(goose, work string, acc *ev.Acc) {
	mod := filepath.Join(work, "modf")
	writeFile(mod, "go.mod", "module c05flags\n\ngo 1.22\n")
	writeFile(mod, "q/a.go", flagFixture)
	flags := []string{"-typecheck", "-source-comments", "-skip-interfaces"}
	var base shape
	var baseOrder []string
	for mask := 0; mask < 8; mask++ {
		var fl []string
		for i, f := range flags {
			if mask&(1<<i) != 0 {
				fl = append(fl, f)
			}
		}
		out := filepath.Join(work, fmt.Sprintf("outf%d", mask))
		code, stderr := runGoose(goose, mod, append(append([]string{"-out", out}, fl...), "./q")...)
		acc.Add("evaluations", 1)
		acc.Add("flag_combinations", 1)
		acc.Set("nontrivial", "flags:"+strings.Join(fl, ","))
		viol := func(kind, msg string) {
			acc.Violate(ev.Violation{Key: "C05/flags/" + kind + "/" + strings.Join(fl, ","), Msg: fmt.Sprintf("flags %v: %s", fl, msg), Replay: map[string]any{"part": "flags"}})
		}
		b, err := os.ReadFile(filepath.Join(out, "c05flags", "q.v"))
		if err != nil {
			viol("no-output", fmt.Sprintf("no file (exit %d): %s", code, stderr))
			continue
		}
		f, perr := gl.ParseFile(string(b))
		if perr != nil {
			viol("malformed", "the file is not lexically well-formed under these flags: "+perr.Error())
			continue
		}
		if len(f.Bad) > 0 {
			viol("malformed", fmt.Sprint(f.Bad[0].Err, " ", f.Bad[0].Raw))
			continue
		}
		s := shapeOf(f)
		order := func(o []string) string {
			var keep []string
			for _, n := range o {
				if strings.Contains(n, "__to__") && mask&4 != 0 {
					continue
				}
				keep = append(keep, n)
			}
			return strings.Join(keep, " ")
		}
		if mask == 0 {
			base = s
			baseOrder = f.Order
			continue
		}
		if order(f.Order) != order(baseOrder) {
			viol("definition-list-changed", fmt.Sprintf("the list of definitions changes under these flags:\n  without: %s\n  with:    %s", order(baseOrder), order(f.Order)))
		}
		for name, wb := range base.bodies {
			gb, ok := s.bodies[name]
			if !ok {
				if strings.Contains(name, "__to__") && mask&4 != 0 {
					continue // conversion definitions are what -skip-interfaces skips
				}
				viol("definition-missing", "definition "+name+" disappears under these flags")
				break
			}
			if gb != wb {
				viol("body-changed", fmt.Sprintf("the body of %s changes under these flags:\n  without: %s\n  with:    %s", name, wb, gb))
				break
			}
		}
	}
}

func main() {
	tier := flag.String("tier", "quick", "")
	replay := flag.String("replay", "", "")
	goose := flag.String("bin", "", "goose binary")
	bridge := flag.String("bridge", "", "gooseb binary")
	flag.Parse()
	start := time.Now()
	work, _ := os.MkdirTemp("", "verif-c05-")
	defer os.RemoveAll(work)
	acc := ev.NewAcc()
	if *replay != "" {
		var rf struct {
			Replay struct {
				Part       string `json:"part"`
				Text       Text   `json:"text"`
				Descriptor string `json:"descriptor"`
			} `json:"replay"`
		}
		b, _ := os.ReadFile(*replay)
		json.Unmarshal(b, &rf)
		switch {
		case rf.Replay.Part == "text":
			partText("quick", *goose, work, acc, &rf.Replay.Text)
		case rf.Replay.Part == "flags":
			partFlags(*goose, work, acc)
		case rf.Replay.Part == "ident":
			partIdents(*goose, work, acc)
		default:
			diffexec.Run(diffexec.Cfg{Prop: "C05", Tier: "thorough", Goose: *goose, Work: work, Only: rf.Replay.Descriptor, Verbose: true, Bridge: *bridge, Exclude: map[string]string{}}, acc)
		}
		os.RemoveAll(work)
		if len(acc.Violations) > 0 {
			fmt.Println(acc.Violations[0].Msg)
			fmt.Printf("VIOLATION property=C05 replay=%s\n", *replay)
			os.Exit(1)
		}
		fmt.Println("replay: property holds on this case")
		return
	}
	partText(*tier, *goose, work, acc, nil)
	partFlags(*goose, work, acc)
	partIdents(*goose, work, acc)
	diffexec.Run(diffexec.Cfg{Prop: "C05", Tier: *tier, Goose: *goose, Work: filepath.Join(work, "nest"), Bridge: *bridge, Exclude: map[string]string{}}, acc)
	os.RemoveAll(work)
	os.Exit(acc.Done(ev.Finish{
		Prop: "C05", Tier: *tier, Level: "exploration", Start: start,
		Rule:        "(a) every string of <=2 (thorough <=3) tokens over {(*, *), (, *, ), \", newline, space, x, é} plus %, %d, %s, %!, tab, backslash, ', CR alone, doubled and next to \", (*, x, space at 24 text positions (a string literal in a one-line if-branch and as a call argument, a log call as the last statement of an if-branch / else-branch / range body / goroutine / closure / whole function, package / function / struct / constant doc comments, trailing constant comment, interpreted and raw string literals, string constants, a concatenation operand, panic message as a literal / a named constant / a constant concatenation, log.Printf with interpreted, raw and constant strings, fmt.Println), one package each, translated by the real goose; the file must lex under Coq's rules (nested comments, strings inside comments), Coq must see the same sentence list as with neutral text, and every body must equal the neutral body up to the literal itself (a rejected package is acceptable). (b) every parent/child/side nesting of the 10 arithmetic, 6 comparison and 2 boolean operators plus unary, call-argument, index, deref, field, conversion, store, condition, struct-literal, slice-bound, tuple and append contexts (thorough: + depth 3 over 5 non-associative operators), at two statement positions, read with Coq's precedences and interpreted: the value must equal Go's on 28 input vectors. (d) 32 Go identifiers that are Gallina reserved words or GooseLang notation / prelude names (in, then, fun, match, end, let, fix, forall, Type, rec, val, expr, Definition, Fork ...) at eleven positions (function, type, constant, global, method, field, parameter, := local, var local, type parameter, name of an imported package): rejected, or the file parses and defines what it defines with a harmless name. (c) a fixture with an interface conversion, comments and constants needed at three call sites, comments and constants under all 8 flag combinations: the same list of definitions (names, order, multiplicity) with identical bodies",
		Assumptions: []string{"Coq's lexer and the levels of the GooseLang notations are modelled by mc/gl (standard levels for * + = < && || ~, level 35 for the backquoted infixes and shifts)", "nesting is judged by value on boundary inputs, not by tree isomorphism with the translator's internal tree"},
		Extra:       map[string]any{"distinct_nontrivial": len(acc.Sets["nontrivial"])},
	}))
}
