// c04: every declaration emitted once, uniquely named, defined before use.
// Packages of 2-4 declaration units linked by every reference kind, in every
// declaration order and over several file layouts, translated by the real
// goose binary in one invocation; the emitted files are parsed and checked.
package main

import (
	"encoding/json"
	"flag"
	"fmt"
	"os"
	"os/exec"
	"path/filepath"
	"sort"
	"strings"
	"time"

	"verif/ev"
	"verif/gl"
)

// Tmpl is a declaration (one or more units) of kind Self that mentions a target of kind Target.
type Tmpl struct {
	ID     string
	Self   string // func struct named alias const global
	Target string // "" for base declarations
	Units  []string
	Names  []string // Coq names it must define ($S substituted)
}

var bases = []Tmpl{
	{ID: "base_func", Self: "func", Units: []string{"func $S() uint64 {\n\treturn 3\n}"}, Names: []string{"$S"}},
	{ID: "base_struct", Self: "struct", Units: []string{"type $S struct {\n\tv uint64\n}"}, Names: []string{"$S"}},
	{ID: "base_structm", Self: "structm", Units: []string{"type $S struct {\n\tv uint64\n}", "func (t $S) get() uint64 {\n\treturn t.v\n}", "func (t *$S) set(x uint64) {\n\tt.v = x\n}"}, Names: []string{"$S", "$S__get", "$S__set"}},
	{ID: "base_named", Self: "named", Units: []string{"type $S uint64"}, Names: []string{"$S"}},
	{ID: "base_const", Self: "const", Units: []string{"const $S uint64 = 5"}, Names: []string{"$S"}},
	{ID: "base_alias", Self: "alias", Units: []string{"type $S = uint64"}, Names: []string{"$S"}},
	{ID: "base_alias_slice", Self: "aliasslice", Units: []string{"type $S = []byte"}, Names: []string{"$S"}},
	{ID: "base_global", Self: "global", Units: []string{"var $S uint64 = 7"}, Names: []string{"$S"}},
}

var tmpls = []Tmpl{
	{ID: "func_calls_func", Self: "func", Target: "func", Units: []string{"func $S() uint64 {\n\treturn $T() + 1\n}"}, Names: []string{"$S"}},
	{ID: "func_calls_func_in_if", Self: "func", Target: "func", Units: []string{"func $S() uint64 {\n\tif $T() > 1 {\n\t\treturn 1\n\t}\n\treturn 2\n}"}, Names: []string{"$S"}},
	{ID: "func_passes_func", Self: "func", Target: "func", Units: []string{"func $S() uint64 {\n\tf := $T\n\treturn f()\n}"}, Names: []string{"$S"}},
	{ID: "func_struct_lit", Self: "func", Target: "struct", Units: []string{"func $S() uint64 {\n\tx := $T{v: 1}\n\treturn x.v\n}"}, Names: []string{"$S"}},
	{ID: "func_struct_ptr_lit", Self: "func", Target: "struct", Units: []string{"func $S() uint64 {\n\tx := &$T{v: 2}\n\treturn x.v\n}"}, Names: []string{"$S"}},
	{ID: "func_struct_ptr_lit_only", Self: "funcp", Target: "struct", Units: []string{"func $S() *$T {\n\treturn &$T{v: 2}\n}"}, Names: []string{"$S"}},
	{ID: "func_struct_lit_only", Self: "funcp", Target: "struct", Units: []string{"func $S() {\n\t_ = $T{v: 1}\n}"}, Names: []string{"$S"}},
	{ID: "func_struct_new_only", Self: "funcp", Target: "struct", Units: []string{"func $S() *$T {\n\treturn new($T)\n}"}, Names: []string{"$S"}},
	{ID: "func_struct_make_only", Self: "func", Target: "struct", Units: []string{"func $S() uint64 {\n\treturn uint64(len(make([]$T, 1)))\n}"}, Names: []string{"$S"}},
	{ID: "func_struct_deref_only", Self: "funcp", Target: "struct", Units: []string{"func $S(t *$T) {\n\t_ = *t\n}"}, Names: []string{"$S"}},
	{ID: "func_struct_store_only", Self: "funcp", Target: "struct", Units: []string{"func $S(t *$T, u *$T) {\n\t*t = *u\n}"}, Names: []string{"$S"}},
	{ID: "func_struct_nested_lit_only", Self: "funcp", Target: "struct", Units: []string{"type Wrap$S struct {\n\tp *$T\n}", "func $S() Wrap$S {\n\treturn Wrap$S{p: &$T{v: 1}}\n}"}, Names: []string{"Wrap$S", "$S"}},
	{ID: "func_struct_param", Self: "funcp", Target: "struct", Units: []string{"func $S(t $T) uint64 {\n\treturn t.v\n}"}, Names: []string{"$S"}},
	{ID: "func_struct_ptr_param", Self: "funcp", Target: "struct", Units: []string{"func $S(t *$T) uint64 {\n\treturn t.v\n}"}, Names: []string{"$S"}},
	{ID: "func_struct_ptr_store", Self: "funcp", Target: "struct", Units: []string{"func $S(t *$T) {\n\tt.v = 4\n}"}, Names: []string{"$S"}},
	{ID: "func_struct_var_zero", Self: "func", Target: "struct", Units: []string{"func $S() uint64 {\n\tvar t $T\n\treturn t.v\n}"}, Names: []string{"$S"}},
	{ID: "func_struct_new", Self: "func", Target: "struct", Units: []string{"func $S() uint64 {\n\tt := new($T)\n\treturn t.v\n}"}, Names: []string{"$S"}},
	{ID: "func_struct_make_slice", Self: "func", Target: "struct", Units: []string{"func $S() uint64 {\n\tts := make([]$T, 1)\n\treturn ts[0].v\n}"}, Names: []string{"$S"}},
	{ID: "func_struct_slice_param", Self: "funcp", Target: "struct", Units: []string{"func $S(ts []$T) uint64 {\n\treturn uint64(len(ts))\n}"}, Names: []string{"$S"}},
	{ID: "func_struct_slice_var", Self: "func", Target: "struct", Units: []string{"func $S() uint64 {\n\tvar ts []$T\n\treturn uint64(len(ts))\n}"}, Names: []string{"$S"}},
	{ID: "func_struct_inferred", Self: "multi", Target: "struct", Units: []string{"func mk$S() $T {\n\treturn $T{v: 3}\n}", "func $S() uint64 {\n\tvar t = mk$S()\n\treturn t.v\n}"}, Names: []string{"mk$S", "$S"}},
	{ID: "func_struct_map_value", Self: "func", Target: "struct", Units: []string{"func $S() uint64 {\n\tm := make(map[uint64]$T)\n\treturn uint64(len(m))\n}"}, Names: []string{"$S"}},
	{ID: "func_struct_deref", Self: "funcp", Target: "struct", Units: []string{"func $S(t *$T) uint64 {\n\tc := *t\n\treturn c.v\n}"}, Names: []string{"$S"}},
	{ID: "func_struct_field_ref", Self: "funcp", Target: "struct", Units: []string{"func $S(t *$T) *uint64 {\n\treturn &t.v\n}"}, Names: []string{"$S"}},
	{ID: "func_method_val", Self: "func", Target: "structm", Units: []string{"func $S() uint64 {\n\tt := $T{v: 1}\n\treturn t.get()\n}"}, Names: []string{"$S"}},
	{ID: "func_method_ptr", Self: "funcp", Target: "structm", Units: []string{"func $S(t *$T) {\n\tt.set(3)\n}"}, Names: []string{"$S"}},
	{ID: "func_method_value", Self: "funcp", Target: "structm", Units: []string{"func $S(t *$T) {\n\tf := t.set\n\tf(3)\n}"}, Names: []string{"$S"}},
	{ID: "func_reads_const", Self: "func", Target: "const", Units: []string{"func $S() uint64 {\n\treturn $T + 1\n}"}, Names: []string{"$S"}},
	{ID: "func_reads_global", Self: "func", Target: "global", Units: []string{"func $S() uint64 {\n\treturn $T\n}"}, Names: []string{"$S"}},
	{ID: "func_named_sig", Self: "funcp", Target: "named", Units: []string{"func $S(n $T) $T {\n\treturn n\n}"}, Names: []string{"$S"}},
	{ID: "func_named_var", Self: "func", Target: "named", Units: []string{"func $S() uint64 {\n\tvar n $T\n\treturn uint64(n)\n}"}, Names: []string{"$S"}},
	{ID: "func_named_slice", Self: "func", Target: "named", Units: []string{"func $S() uint64 {\n\tns := make([]$T, 2)\n\treturn uint64(len(ns))\n}"}, Names: []string{"$S"}},
	{ID: "struct_field_struct", Self: "struct", Target: "struct", Units: []string{"type $S struct {\n\tv     uint64\n\tinner $T\n}"}, Names: []string{"$S"}},
	{ID: "struct_field_slice", Self: "struct", Target: "struct", Units: []string{"type $S struct {\n\tv     uint64\n\titems []$T\n}"}, Names: []string{"$S"}},
	{ID: "struct_field_map", Self: "struct", Target: "struct", Units: []string{"type $S struct {\n\tv uint64\n\tm map[uint64]$T\n}"}, Names: []string{"$S"}},
	{ID: "struct_field_named", Self: "struct", Target: "named", Units: []string{"type $S struct {\n\tv uint64\n\tn $T\n}"}, Names: []string{"$S"}},
	{ID: "named_of_named", Self: "named", Target: "named", Units: []string{"type $S $T"}, Names: []string{"$S"}},
	{ID: "named_slice_of_struct", Self: "named2", Target: "struct", Units: []string{"type $S []$T"}, Names: []string{"$S"}},
	{ID: "alias_of_struct", Self: "named2", Target: "struct", Units: []string{"type $S = $T"}, Names: []string{"$S"}},
	{ID: "alias_of_named", Self: "named", Target: "named", Units: []string{"type $S = $T"}, Names: []string{"$S"}},
	{ID: "const_of_const", Self: "const", Target: "const", Units: []string{"const $S uint64 = $T + 1"}, Names: []string{"$S"}},
	{ID: "global_of_const", Self: "global", Target: "const", Units: []string{"var $S uint64 = $T"}, Names: []string{"$S"}},
	{ID: "global_of_func", Self: "global", Target: "func", Units: []string{"var $S uint64 = $T()"}, Names: []string{"$S"}}, // rejected since 27e05a7 (non-constant initialiser): may-reject
	{ID: "global_of_const", Self: "global", Target: "const", Units: []string{"var $S uint64 = $T + 1"}, Names: []string{"$S"}},
	{ID: "global_struct_lit", Self: "global", Target: "struct", Units: []string{"var $S = $T{v: 1}"}, Names: []string{"$S"}},
	{ID: "method_calls_func", Self: "multi", Target: "func", Units: []string{"type Own$S struct {\n\tv uint64\n}", "func (o Own$S) $S() uint64 {\n\treturn $T() + o.v\n}"}, Names: []string{"Own$S", "Own$S__$S"}},
	{ID: "method_uses_struct", Self: "multi", Target: "struct", Units: []string{"type Own$S struct {\n\tv uint64\n}", "func (o *Own$S) $S() uint64 {\n\tt := $T{v: o.v}\n\treturn t.v\n}"}, Names: []string{"Own$S", "Own$S__$S"}},
	{ID: "func_recursive_and_calls", Self: "funcp", Target: "func", Units: []string{"func $S(n uint64) uint64 {\n\tif n == 0 {\n\t\treturn $T()\n\t}\n\treturn $S(n-1) + 1\n}"}, Names: []string{"$S"}},
	{ID: "func_alias_param", Self: "funcp", Target: "alias", Units: []string{"func $S(n $T) $T {\n\treturn n + 1\n}"}, Names: []string{"$S"}},
	{ID: "func_alias_var", Self: "func", Target: "alias", Units: []string{"func $S() uint64 {\n\tvar n $T\n\treturn n\n}"}, Names: []string{"$S"}},
	{ID: "func_alias_make", Self: "func", Target: "alias", Units: []string{"func $S() uint64 {\n\tns := make([]$T, 2)\n\treturn uint64(len(ns))\n}"}, Names: []string{"$S"}},
	{ID: "struct_field_alias", Self: "struct", Target: "alias", Units: []string{"type $S struct {\n\tv uint64\n\tn $T\n}"}, Names: []string{"$S"}},
	{ID: "named_of_alias", Self: "named", Target: "alias", Units: []string{"type $S $T"}, Names: []string{"$S"}},
	{ID: "func_aliasslice_param", Self: "funcp", Target: "aliasslice", Units: []string{"func $S(p $T) uint64 {\n\treturn uint64(len(p))\n}"}, Names: []string{"$S"}},
	{ID: "struct_field_aliasslice", Self: "struct", Target: "aliasslice", Units: []string{"type $S struct {\n\tv uint64\n\tp $T\n}"}, Names: []string{"$S"}},
	{ID: "func_param_named_as_type", Self: "funcp", Target: "struct", Units: []string{"func $S($T $T) uint64 {\n\treturn $T.v\n}"}, Names: []string{"$S"}},
	{ID: "func_ptr_param_named_as_type", Self: "funcp", Target: "struct", Units: []string{"func $S($T *$T) uint64 {\n\treturn $T.v\n}"}, Names: []string{"$S"}},
	{ID: "func_local_named_as_func", Self: "func", Target: "func", Units: []string{"func $S() uint64 {\n\tr := $T()\n\t$T := r + 1\n\treturn $T\n}"}, Names: []string{"$S"}},
	{ID: "func_recursive_then_calls", Self: "funcp", Target: "func", Units: []string{"func $S(n uint64) uint64 {\n\tif n == 0 {\n\t\treturn 0\n\t}\n\treturn $S(n-1) + $T()\n}"}, Names: []string{"$S"}},
	{ID: "func_recursive_then_const", Self: "funcp", Target: "const", Units: []string{"func $S(n uint64) uint64 {\n\tif n == 0 {\n\t\treturn 0\n\t}\n\treturn $S(n-1) + $T\n}"}, Names: []string{"$S"}},
	{ID: "func_recursive_then_struct", Self: "funcp", Target: "struct", Units: []string{"func $S(n uint64) uint64 {\n\tif n == 0 {\n\t\treturn 0\n\t}\n\tr := $S(n - 1)\n\tt := $T{v: r}\n\treturn t.v\n}"}, Names: []string{"$S"}},
	{ID: "func_recursive_in_closure", Self: "funcp", Target: "func", Units: []string{"func $S(n uint64) uint64 {\n\tif n == 0 {\n\t\treturn $T()\n\t}\n\tf := func() uint64 {\n\t\treturn $S(n - 1)\n\t}\n\treturn f() + 1\n}"}, Names: []string{"$S"}},
	{ID: "func_recursive_in_closure_arg", Self: "multi", Target: "func", Units: []string{"func app$S(f func(uint64) uint64, v uint64) uint64 {\n\treturn f(v)\n}", "func $S(n uint64) uint64 {\n\tif n == 0 {\n\t\treturn $T()\n\t}\n\treturn app$S(func(m uint64) uint64 {\n\t\treturn $S(m)\n\t}, n-1)\n}"}, Names: []string{"app$S", "$S"}},
	{ID: "func_recursive_in_go", Self: "funcp", Target: "func", Units: []string{"func $S(n uint64) {\n\tif n == 0 {\n\t\t$T()\n\t\treturn\n\t}\n\tgo func() {\n\t\t$S(n - 1)\n\t}()\n}"}, Names: []string{"$S"}},
	{ID: "method_recursive_in_closure", Self: "multi", Target: "func", Units: []string{"type Own$S struct {\n\tv uint64\n}", "func (o *Own$S) $S(n uint64) uint64 {\n\tif n == 0 {\n\t\treturn $T()\n\t}\n\tf := func() uint64 {\n\t\treturn o.$S(n - 1)\n\t}\n\treturn f() + 1\n}"}, Names: []string{"Own$S", "Own$S__$S"}},
	{ID: "method_recursive_then_calls", Self: "multi", Target: "const", Units: []string{"type Own$S struct {\n\tv uint64\n}", "func (o *Own$S) $S(n uint64) uint64 {\n\tif n == 0 {\n\t\treturn o.v\n\t}\n\treturn o.$S(n-1) + $T\n}"}, Names: []string{"Own$S", "Own$S__$S"}},
	{ID: "method_value_self", Self: "multi", Target: "func", Units: []string{"type Own$S struct {\n\tv uint64\n}", "func (o *Own$S) $S(n uint64) uint64 {\n\tif n == 0 {\n\t\treturn $T()\n\t}\n\tg := o.$S\n\treturn g(n-1) + 1\n}"}, Names: []string{"Own$S", "Own$S__$S"}},
	{ID: "alias_receiver_method", Self: "multi", Target: "struct", Units: []string{"type Al$S = $T", "func (a Al$S) $S(k uint64) uint64 {\n\treturn a.v + k\n}", "func use$S(t $T) uint64 {\n\treturn t.$S(1)\n}"}, Names: []string{"Al$S", "$T__$S", "use$S"}},
	{ID: "method_recursive", Self: "multi", Target: "struct", Units: []string{"type Own$S struct {\n\tv uint64\n}", "func (o *Own$S) $S(n uint64) uint64 {\n\tif n == 0 {\n\t\tt := $T{v: 1}\n\t\treturn t.v\n\t}\n\treturn o.$S(n-1) + 1\n}"}, Names: []string{"Own$S", "Own$S__$S"}},
}

type Pkg struct {
	Name      string            `json:"name"`
	Desc      string            `json:"desc"`
	Files     map[string]string `json:"files"`
	Names     []string          `json:"names"`                // Coq names that must be defined exactly once
	NGo       int               `json:"ngo"`                  // number of Go declaration units
	MayReject bool              `json:"may_reject,omitempty"` // a conversion error is an acceptable answer for this package (edge of the subset)
}

func subst(s, self, target string) string {
	return strings.ReplaceAll(strings.ReplaceAll(s, "$S", self), "$T", target)
}

type unit struct{ code string }

func perms(n int) [][]int {
	if n == 1 {
		return [][]int{{0}}
	}
	var out [][]int
	for _, p := range perms(n - 1) {
		for i := 0; i <= len(p); i++ {
			q := append(append(append([]int{}, p[:i]...), n-1), p[i:]...)
			out = append(out, q)
		}
	}
	return out
}

// layouts: how units (in their chosen order) are spread over files
type layout struct {
	id    string
	files []string // file names in the order units are cut
	cuts  func(n int) []int
}

var layouts = []layout{
	{"one", []string{"a.go"}, func(n int) []int { return []int{n} }},
	{"two_ab", []string{"a.go", "b.go"}, func(n int) []int { return []int{(n + 1) / 2, n} }},
	{"two_ba", []string{"z.go", "b.go"}, func(n int) []int { return []int{(n + 1) / 2, n} }},
	{"two_first_alone", []string{"m.go", "c.go"}, func(n int) []int { return []int{1, n} }},
	{"three", []string{"c.go", "a.go", "b.go"}, func(n int) []int { return []int{1, 2, n} }},
}

func mkPkgs(tier string) []Pkg {
	var out []Pkg
	id := 0
	baseOf := map[string]Tmpl{}
	for _, b := range bases {
		baseOf[b.Self] = b
	}
	head := "" // declarations pinned in a file that sorts first
	mayReject := false
	emit := func(desc string, units []string, names []string) {
		n := len(units)
		ps := perms(n)
		for pi, p := range ps {
			for _, lay := range layouts {
				if lay.id == "three" && n < 3 {
					continue
				}
				if tier == "quick" && n > 3 && lay.id != "one" && lay.id != "two_ba" {
					continue
				}
				files := map[string]string{}
				cuts := lay.cuts(n)
				start := 0
				for fi, fn := range lay.files {
					if fi >= len(cuts) {
						break
					}
					end := cuts[fi]
					if end > n {
						end = n
					}
					if start >= end {
						continue
					}
					var sb strings.Builder
					sb.WriteString("package q\n\n")
					for _, ui := range p[start:end] {
						if strings.Contains(units[ui], "wire.") {
							sb.WriteString("import \"c04mod/wire\"\n\n")
							break
						}
					}
					for _, ui := range p[start:end] {
						sb.WriteString(units[ui] + "\n\n")
					}
					files[fn] = sb.String()
					start = end
				}
				if head != "" {
					files["0head.go"] = "package q\n\n" + head + "\n"
				}
				id++
				out = append(out, Pkg{Name: fmt.Sprintf("q%05d", id), Desc: fmt.Sprintf("%s perm=%d layout=%s", desc, pi, lay.id), Files: files, Names: names, NGo: n, MayReject: mayReject || strings.Contains(desc, "global_of_func")})
			}
		}
	}
	for _, t := range tmpls {
		b := baseOf[t.Target]
		var units, names []string
		for _, u := range t.Units {
			units = append(units, subst(u, "Aa", "Bb"))
		}
		for _, u := range b.Units {
			units = append(units, subst(u, "Bb", ""))
		}
		for _, n := range t.Names {
			names = append(names, subst(n, "Aa", "Bb"))
		}
		for _, n := range b.Names {
			names = append(names, subst(n, "Bb", ""))
		}
		if len(units) > 4 && tier == "quick" {
			continue
		}
		emit(t.ID, units, names)
	}
	// special shapes: name mangling collisions, repeated init / blank functions, an interface conversion shared by two functions
	emit("special_mangling_collision", []string{"type A struct {\n\tv uint64\n}", "func (a A) b__c() uint64 {\n\treturn a.v\n}", "type A__b struct {\n\tv uint64\n}", "func (a A__b) c() uint64 {\n\treturn a.v + 1\n}"}, []string{"A", "A__b", "A__b__c", "A__b__c"})
	emit("special_two_inits", []string{"var G uint64 = 1", "func init() {\n\tG1()\n}", "func init() {\n\tG1()\n\tG1()\n}", "func G1() uint64 {\n\treturn G\n}"}, []string{"G", "init", "init", "G1"})
	emit("special_blank_func", []string{"func _() uint64 {\n\treturn 1\n}", "func Real() uint64 {\n\treturn 2\n}", "var _ uint64 = 3", "const _ uint64 = 4"}, []string{"Real"})
	if tier == "thorough" {
		emit("special_shared_interface_conversion", []string{"type I interface {\n\tm() uint64\n}", "type St struct {\n\tv uint64\n}", "func (s St) m() uint64 {\n\treturn s.v\n}", "func use(i I) uint64 {\n\treturn i.m()\n}", "func f1() uint64 {\n\treturn use(St{v: 1})\n}", "func f2() uint64 {\n\treturn use(St{v: 2})\n}"}, []string{"I", "St", "St__m", "use", "f1", "f2", "St__to__I"})
	} else {
		emit("special_shared_interface_conversion", []string{"type I interface {\n\tm() uint64\n}", "type St struct {\n\tv uint64\n}", "func (s St) m() uint64 {\n\treturn s.v\n}", "func use(i I) uint64 {\n\treturn i.m()\n}\n\nfunc f1() uint64 {\n\treturn use(St{v: 1})\n}\n\nfunc f2() uint64 {\n\treturn use(St{v: 2})\n}"}, []string{"I", "St", "St__m", "use", "f1", "f2", "St__to__I"})
	}
	// two users of one target plus a caller of the second user: whatever is remembered while the first
	// user is translated (a cache, a "seen" set) must not make the second user lose its dependency;
	// the caller pulls the second user forward, ahead of the target
	for _, t1 := range tmpls {
		if len(t1.Units) != 1 || t1.Self != "func" {
			continue
		}
		b := baseOf[t1.Target]
		if len(b.Units) != 1 {
			continue
		}
		for _, t2 := range tmpls {
			if len(t2.Units) != 1 || t2.Self != "func" || t2.Target != t1.Target {
				continue
			}
			if tier == "quick" && t2.ID != t1.ID {
				continue
			}
			units := []string{"func Cc() uint64 {\n\treturn Ab() + 1\n}", subst(t1.Units[0], "Aa", "Bb"), subst(t2.Units[0], "Ab", "Bb"), subst(b.Units[0], "Bb", "")}
			emit("twousers:"+t1.ID+"+"+t2.ID, units, []string{"Cc", "Aa", "Ab", "Bb"})
		}
	}
	// declaration groups: const ( ... ), var ( ... ), type ( ... ) define several names in one
	// declaration; a user of the first, a middle and the last name, before and after the group
	groups := []struct {
		id, decl, use string
		names         []string
	}{
		{"const", "const (\n\tCf uint64 = 1\n\tCm uint64 = 60 * Cf\n\tCl uint64 = 60 * Cm\n)", "func U$N() uint64 {\n\treturn $N + 1\n}", []string{"Cf", "Cm", "Cl"}},
		// the specs of one group in reverse dependency order (legal Go: package-level order is free)
		{"const_rev", "const (\n\tRl uint64 = 60 * Rm\n\tRm uint64 = 60 * Rf\n\tRf uint64 = 1\n)", "func U$N() uint64 {\n\treturn $N + 1\n}", []string{"Rl", "Rm", "Rf"}},
		{"var_rev", "var (\n\tVl uint64 = 60 * Vm\n\tVm uint64 = 60 * Vf\n\tVf uint64 = 1\n)", "func U$N() uint64 {\n\treturn $N + 1\n}", []string{"Vl", "Vm", "Vf"}},
	}
	for _, g := range groups {
		for _, n := range g.names {
			emit("special_group_"+g.id+"_user_of_"+n, []string{strings.ReplaceAll(g.use, "$N", n), g.decl}, append([]string{"U" + n}, g.names...))
		}
		emit("special_group_"+g.id+"_all_users", []string{strings.ReplaceAll(g.use, "$N", g.names[0]), strings.ReplaceAll(g.use, "$N", g.names[2]), g.decl}, append([]string{"U" + g.names[0], "U" + g.names[2]}, g.names...))
	}
	// several names in one spec (const A, B = 1, 2): every name defined once, or the package rejected
	mayReject = true
	for _, kw := range []string{"const", "var"} {
		for _, n := range []string{"Mf", "Ml"} {
			emit("special_multi_name_"+kw+"_spec_user_of_"+n, []string{"func U" + n + "() uint64 {\n\treturn " + n + " + 1\n}", kw + " Mf, Ml uint64 = 1, 2"}, []string{"U" + n, "Mf", "Ml"})
		}
		emit("special_multi_name_"+kw+"_spec_in_group", []string{"func UMl() uint64 {\n\treturn Ml + Mz\n}", kw + " (\n\tMf, Ml uint64 = 1, 2\n\tMz     uint64 = 3\n)"}, []string{"UMl", "Mf", "Ml", "Mz"})
	}
	mayReject = false
	// a receiver named like its type; a type of an imported local package with the name of a local declaration
	emit("special_receiver_named_as_type", []string{"func (Bb *Bb) room() uint64 {\n\treturn Bb.v\n}", "func (Bb Bb) get() uint64 {\n\treturn Bb.v + 1\n}", "type Bb struct {\n\tv uint64\n}"}, []string{"Bb__room", "Bb__get", "Bb"})
	emit("special_foreign_same_name", []string{"type Aa struct {\n\tw wire.Bb\n\tv uint64\n}", "type Bb struct {\n\ta Aa\n}", "func Use(h wire.Bb) uint64 {\n\treturn wire.Size(h)\n}"}, []string{"Aa", "Bb", "Use"})
	// an interface conversion needed by two functions one of which is called from a function declared earlier
	// (types, method and the interface user are pinned first so that the known St__to__I / St__m ordering finding plays no part)
	head = "type I interface {\n\tm() uint64\n}\n\ntype St struct {\n\tv uint64\n}\n\nfunc (s St) m() uint64 {\n\treturn s.v\n}\n\nfunc use(i I) uint64 {\n\treturn i.m()\n}\n"
	emit("special_conversion_call_chain", []string{"func report() uint64 {\n\treturn total() + 1\n}", "func unitArea() uint64 {\n\treturn use(St{v: 1})\n}", "func total() uint64 {\n\ts := St{v: 2}\n\treturn use(s)\n}"}, []string{"I", "St", "St__m", "use", "report", "unitArea", "total", "St__to__I"})
	for _, cs := range []struct{ id, fn string }{
		{"in_if", "func inIf(x uint64) uint64 {\n\tif x > 1 {\n\t\treturn use(St{v: 2})\n\t}\n\treturn 0\n}"},
		{"in_loop", "func inLoop(x uint64) uint64 {\n\tvar acc uint64 = 0\n\tfor i := uint64(0); i < x; i++ {\n\t\tacc = acc + use(St{v: i})\n\t}\n\treturn acc\n}"},
		{"pointer_arg", "func viaPtr() uint64 {\n\ts := &St{v: 1}\n\treturn use(s)\n}"},
		{"in_define", "func inDefine() uint64 {\n\tr := use(St{v: 1})\n\treturn r + 1\n}"},
		{"in_binop", "func inBinop() uint64 {\n\treturn 1 + use(St{v: 1})\n}"},
		{"in_arg", "func twice(a uint64) uint64 {\n\treturn a + a\n}\n\nfunc inArg() uint64 {\n\treturn twice(use(St{v: 1}))\n}"},
		{"in_closure", "func inClosure() uint64 {\n\tf := func() uint64 {\n\t\treturn use(St{v: 1})\n\t}\n\treturn f()\n}"},
		{"in_else", "func inElse(x uint64) uint64 {\n\tif x > 1 {\n\t\treturn 0\n\t} else {\n\t\treturn use(St{v: 2})\n\t}\n}"},
	} {
		names := []string{"I", "St", "St__m", "use", "St__to__I"}
		for _, l := range strings.Split(cs.fn, "\n") {
			if strings.HasPrefix(l, "func ") {
				names = append(names, l[5:strings.Index(l, "(")])
			}
		}
		emit("special_conversion_"+cs.id, []string{cs.fn}, names)
	}
	head = ""
	// parenthesised type groups (rejected by the pinned translator: may-reject); when accepted every spec is a declaration
	mayReject = true
	emit("special_type_group_rev", []string{"type (\n\tTp struct {\n\t\titem Ti\n\t\tn    uint64\n\t}\n\tTi struct {\n\t\tv uint64\n\t}\n)", "func UTp(p Tp) uint64 {\n\treturn p.item.v + p.n\n}"}, []string{"Tp", "Ti", "UTp"})
	emit("special_type_group_outside_between", []string{"type (\n\tTm struct {\n\t\tw To\n\t}\n\tTl struct {\n\t\tv uint64\n\t}\n)", "type To struct {\n\tleaf Tl\n}", "func UTm(m Tm) uint64 {\n\treturn m.w.leaf.v\n}"}, []string{"Tm", "Tl", "To", "UTm"})
	emit("special_type_group_tail_unused", []string{"type (\n\tTa struct {\n\t\tv uint64\n\t}\n\tTb struct {\n\t\tw uint64\n\t}\n)", "func (b *Tb) Grow() {\n\tb.w = b.w + 1\n}", "func Unused() uint64 {\n\treturn 1\n}"}, []string{"Ta", "Tb", "Tb__Grow", "Unused"})
	mayReject = false
	// a const group followed by declarations nothing refers to (they must still be emitted)
	emit("special_group_then_unreferenced", []string{"const (\n\tGa uint64 = 1\n\tGb uint64 = 2\n\tGc uint64 = 3\n)", "type Box struct {\n\tv uint64\n}", "func (b *Box) Grow() {\n\tb.v = b.v + Ga\n}", "func Unused() uint64 {\n\treturn 1\n}"}, []string{"Ga", "Gb", "Gc", "Box", "Box__Grow", "Unused"})
	// mutual recursion: no order of the two definitions works (GooseLang has no top-level mutual recursion)
	mayReject = true
	emit("special_mutual_recursion", []string{"func IsEven(n uint64) bool {\n\tif n == 0 {\n\t\treturn true\n\t}\n\treturn IsOdd(n - 1)\n}", "func IsOdd(n uint64) bool {\n\tif n == 0 {\n\t\treturn false\n\t}\n\treturn IsEven(n - 1)\n}"}, []string{"IsEven", "IsOdd"})
	mayReject = false
	// a type parameter (or a local variable, a parameter, a field) spelled like a package-level function that uses the declaration
	emit("special_typeparam_named_as_func", []string{"func Bq[Aq any](x Aq) Aq {\n\treturn x\n}", "func Aq() uint64 {\n\treturn Bq[uint64](1)\n}"}, []string{"Bq", "Aq"})
	emit("special_param_named_as_func", []string{"func Bp(Ap uint64) uint64 {\n\treturn Ap + 1\n}", "func Ap() uint64 {\n\treturn Bp(1)\n}"}, []string{"Bp", "Ap"})
	emit("special_local_named_as_func", []string{"func Bl() uint64 {\n\tAl := uint64(2)\n\treturn Al + 1\n}", "func Al() uint64 {\n\treturn Bl()\n}"}, []string{"Bl", "Al"})
	emit("special_field_named_as_func", []string{"type Bf struct {\n\tAf uint64\n}", "func Af() uint64 {\n\tb := Bf{Af: 1}\n\treturn b.Af\n}"}, []string{"Bf", "Af"})
	if tier == "thorough" {
		// chains A -> B -> C
		for _, t1 := range tmpls {
			for _, t2 := range tmpls {
				if t2.Self != t1.Target || len(t1.Units) > 1 || len(t2.Units) > 1 {
					continue
				}
				b := baseOf[t2.Target]
				if len(b.Units) > 1 {
					continue
				}
				units := []string{subst(t1.Units[0], "Aa", "Bb"), subst(t2.Units[0], "Bb", "Cc"), subst(b.Units[0], "Cc", "")}
				names := []string{"Aa", "Bb", "Cc"}
				emit(t1.ID+">"+t2.ID, units, names)
			}
		}
	}
	return out
}

// globalsOf collects bare identifiers of an expression, and self-reference info.
func globalsOf(e gl.Expr, out map[string]bool) {
	switch e := e.(type) {
	case *gl.Global:
		out[e.Name] = true
	case *gl.App:
		globalsOf(e.Fn, out)
		for _, a := range e.Args {
			globalsOf(a, out)
		}
	case *gl.BinOp:
		globalsOf(e.L, out)
		globalsOf(e.R, out)
	case *gl.Not:
		globalsOf(e.X, out)
	case *gl.Let:
		globalsOf(e.E, out)
		globalsOf(e.Body, out)
	case *gl.Seq:
		globalsOf(e.A, out)
		globalsOf(e.B, out)
	case *gl.If:
		globalsOf(e.C, out)
		globalsOf(e.T, out)
		globalsOf(e.E, out)
	case *gl.Lam:
		globalsOf(e.Body, out)
	case *gl.Rec:
		globalsOf(e.Body, out)
	case *gl.For:
		globalsOf(e.Cond, out)
		globalsOf(e.Post, out)
		globalsOf(e.Body, out)
	case *gl.Load:
		globalsOf(e.Ty, out)
		globalsOf(e.E, out)
	case *gl.Store:
		globalsOf(e.Ty, out)
		globalsOf(e.Dst, out)
		globalsOf(e.E, out)
	case *gl.Tuple:
		for _, x := range e.Es {
			globalsOf(x, out)
		}
	case *gl.StructLit:
		globalsOf(e.Desc, out)
		for _, f := range e.Fields {
			globalsOf(f.E, out)
		}
	case *gl.Decl:
		for _, f := range e.Fields {
			globalsOf(f.Ty, out)
		}
	case *gl.Arrow:
		for _, t := range e.Ts {
			globalsOf(t, out)
		}
	}
}

type finding struct{ kind, msg string }

// checkPkg returns every way in which the emitted file breaks the property
// (each with its own key: one defect does not hide another in the same package).
func checkPkg(p Pkg, src string, present bool, stderr string) (out []finding) {
	if !present && p.MayReject {
		return nil
	}
	if !present {
		return []finding{{"not-translated", "goose wrote no file for this package: " + firstLines(stderr, 6)}}
	}
	f, err := gl.ParseFile(src)
	if err != nil {
		return []finding{{"malformed", err.Error()}}
	}
	if len(f.Bad) > 0 {
		return []finding{{"malformed", f.Bad[0].Err}}
	}
	count := map[string]int{}
	pos := map[string]int{}
	var defs []gl.Sentence
	for _, s := range f.Sentences {
		if s.Kind == "definition" || s.Kind == "notation" {
			count[s.Name]++
			if _, ok := pos[s.Name]; !ok {
				pos[s.Name] = len(defs)
			}
			defs = append(defs, s)
		}
	}
	reported := map[string]bool{}
	for _, n := range p.Names {
		if count[n] == 0 {
			out = append(out, finding{"missing-definition(" + kindOfName(n) + ")", fmt.Sprintf("no definition named %s in the emitted file (have %v)", n, f.Order)})
		}
		if count[n] > 1 && !reported[n] {
			reported[n] = true
			out = append(out, finding{"duplicate-definition(" + kindOfName(n) + ")", fmt.Sprintf("%s is defined %d times", n, count[n])})
		}
	}
	if len(defs) != len(p.Names) && len(out) == 0 {
		var extra []string
		want := map[string]bool{}
		for _, n := range p.Names {
			want[n] = true
		}
		for _, d := range defs {
			if !want[d.Name] {
				extra = append(extra, d.Name)
			}
		}
		out = append(out, finding{"extra-definition", fmt.Sprintf("%d definitions for %d declarations; unexpected: %v", len(defs), len(p.Names), extra)})
	}
	for i, d := range defs {
		gs := map[string]bool{}
		if d.Body != nil {
			globalsOf(d.Body, gs)
		}
		var names []string
		for g := range gs {
			names = append(names, g)
		}
		sort.Strings(names)
		for _, g := range names {
			j, isDef := pos[g]
			if !isDef {
				continue
			}
			if g == d.Name {
				out = append(out, finding{"self-reference-through-global", fmt.Sprintf("%s mentions itself as a global identifier instead of its rec binder", d.Name)})
				continue
			}
			if j > i {
				out = append(out, finding{"use-before-definition(" + kindOfName(g) + ")", fmt.Sprintf("%s (definition #%d) mentions %s, which is only defined later (definition #%d); order in the file: %v", d.Name, i+1, g, j+1, f.Order)})
			}
		}
	}
	// one finding per kind
	seenKind := map[string]bool{}
	var uniq []finding
	for _, fd := range out {
		if !seenKind[fd.kind] {
			seenKind[fd.kind] = true
			uniq = append(uniq, fd)
		}
	}
	return uniq
}

func kindOfName(n string) string {
	switch {
	case strings.Contains(n, "__to__"):
		return "conversion"
	case strings.Contains(n, "__"):
		return "method"
	case strings.HasPrefix(n, "mk"):
		return "func"
	}
	return n
}

func firstLines(s string, n int) string {
	l := strings.Split(s, "\n")
	if len(l) > n {
		l = l[:n]
	}
	return strings.Join(l, " | ")
}

func main() {
	tier := flag.String("tier", "quick", "")
	replay := flag.String("replay", "", "")
	goose := flag.String("bin", "", "goose binary")
	flag.Parse()
	start := time.Now()
	work, _ := os.MkdirTemp("", "verif-c04-")
	defer os.RemoveAll(work)
	pkgs := mkPkgs(*tier)
	if *replay != "" {
		var rf struct {
			Replay Pkg `json:"replay"`
		}
		b, _ := os.ReadFile(*replay)
		if json.Unmarshal(b, &rf) != nil {
			os.Exit(3)
		}
		pkgs = []Pkg{rf.Replay}
	}
	mod := filepath.Join(work, "mod")
	os.MkdirAll(mod, 0755)
	os.WriteFile(filepath.Join(mod, "go.mod"), []byte("module c04mod\n\ngo 1.22\n"), 0644)
	os.MkdirAll(filepath.Join(mod, "wire"), 0755)
	os.WriteFile(filepath.Join(mod, "wire", "w.go"), []byte("package wire\n\ntype Bb struct {\n\tLen uint64\n}\n\ntype Aa struct {\n\tK uint64\n}\n\nfunc Size(b Bb) uint64 {\n\treturn b.Len\n}\n"), 0644)
	for _, p := range pkgs {
		d := filepath.Join(mod, p.Name)
		os.MkdirAll(d, 0755)
		for fn, c := range p.Files {
			os.WriteFile(filepath.Join(d, fn), []byte(c), 0644)
		}
	}
	// ill-typed combinations (a template whose shape does not fit its target) are discarded, and counted
	discarded := 0
	vet := exec.Command("go", "build", "./...")
	vet.Dir = mod
	if out, err := vet.CombinedOutput(); err != nil {
		bad := map[string]bool{}
		for _, l := range strings.Split(string(out), "\n") {
			if strings.HasPrefix(l, "# c04mod/") {
				bad[strings.TrimSpace(strings.TrimPrefix(l, "# c04mod/"))] = true
			}
		}
		if len(bad) == 0 || *tier == "quick" {
			fmt.Fprintln(os.Stderr, "harness error: generated packages do not compile:", firstLines(string(out), 12))
			os.Exit(3)
		}
		var keep []Pkg
		for _, p := range pkgs {
			if bad[p.Name] {
				discarded++
				os.RemoveAll(filepath.Join(mod, p.Name))
			} else {
				keep = append(keep, p)
			}
		}
		pkgs = keep
	}
	outDir := filepath.Join(work, "out")
	acc := ev.NewAcc()
	// translate in chunks (one goose invocation per chunk of packages)
	chunk := 400
	for i := 0; i < len(pkgs); i += chunk {
		j := i + chunk
		if j > len(pkgs) {
			j = len(pkgs)
		}
		args := []string{"-out", outDir}
		for _, p := range pkgs[i:j] {
			args = append(args, "./"+p.Name)
		}
		c := exec.Command(*goose, args...)
		c.Dir = mod
		out, err := c.CombinedOutput()
		code := 0
		if ee, ok := err.(*exec.ExitError); ok {
			code = ee.ExitCode()
		}
		if code != 0 && code != 1 {
			acc.Violate(ev.Violation{Key: "C04/goose-crash", Msg: "goose exited with status " + fmt.Sprint(code) + ": " + firstLines(string(out), 10)})
		}
		errText := string(out)
		for _, p := range pkgs[i:j] {
			b, rerr := os.ReadFile(filepath.Join(outDir, "c04mod", p.Name+".v"))
			acc.Add("evaluations", 1)
			acc.Set("nontrivial", p.Name)
			acc.Set("shapes", strings.SplitN(p.Desc, " ", 2)[0])
			for _, fd := range checkPkg(p, string(b), rerr == nil, errText) {
				shape := strings.SplitN(p.Desc, " ", 2)[0]
				acc.Violate(ev.Violation{Key: fmt.Sprintf("C04/%s/%s/%s", shape, fd.kind, strings.SplitN(p.Desc, " ", 2)[1]), Msg: fmt.Sprintf("package %s: %s\n%s", p.Desc, fd.msg, renderPkg(p)), Replay: p})
			}
			if *replay != "" {
				fmt.Println(renderPkg(p))
				fmt.Println(string(b))
			}
		}
	}
	acc.Add("ill_typed_combinations_discarded", int64(discarded))
	if len(pkgs) > 0 {
		acc.Sample(map[string]any{"package": pkgs[len(pkgs)/2].Desc, "files": pkgs[len(pkgs)/2].Files}, 1)
		acc.Sample(map[string]any{"package": pkgs[0].Desc}, 2)
	}
	os.RemoveAll(work)
	if *replay != "" {
		if len(acc.Violations) > 0 {
			fmt.Println(acc.Violations[0].Msg)
			fmt.Printf("VIOLATION property=C04 replay=%s\n", *replay)
			os.Exit(1)
		}
		fmt.Println("replay: property holds on this package")
		return
	}
	os.Exit(acc.Done(ev.Finish{
		Prop: "C04", Tier: *tier, Level: "exploration", Start: start,
		Rule:        "packages = every reference template (40: calls, function values, struct literals / pointers / parameters / zero values / new / make / slices / maps / derefs / field refs / inferred types, method calls and method values, constants, globals, named types, aliases, struct fields of struct / slice / map / named type, initialisers, methods with own receiver types, self-recursive functions and methods) instantiated over a base declaration (thorough: also every chain of two templates), in every permutation of the declaration units and 3-5 file layouts with file names in different lexical orders; translated by the real goose binary; oracle on the parsed output: exactly one Definition/Notation per Go declaration under the documented name (f, T, T__m), names distinct, every same-package identifier mentioned by a body is defined earlier in the file, a self-call goes through the rec binder; evaluations = packages; every package is non-trivial (has at least one dependency edge)",
		Assumptions: []string{"dependencies are read off the emitted text (bare identifiers that name another definition of the file)", "packages of up to 4 declaration units"},
		Extra:       map[string]any{"distinct_nontrivial": len(acc.Sets["nontrivial"])},
	}))
}

func renderPkg(p Pkg) string {
	var names []string
	for n := range p.Files {
		names = append(names, n)
	}
	sort.Strings(names)
	var sb strings.Builder
	for _, n := range names {
		sb.WriteString("--- " + n + "\n" + p.Files[n])
	}
	return sb.String()
}
