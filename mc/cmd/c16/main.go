// c16: remaining machine primitives.  Bounded input enumeration for
// UInt64ToString / MapClear / Assume / Assert, and model checking of
// WaitTimeout (caller, helper goroutine, timer event, signaller) under the
// controlled scheduler on a logical clock.
package main

import (
	"encoding/json"
	"flag"
	"fmt"
	"math"
	"os"
	"strconv"
	"strings"
	"time"

	"github.com/goose-lang/goose/machine"

	"verif/csched"
	sync "verif/csched/syncshim"
	"verif/csched/timeshim"
	"verif/ev"
	"verif/libh"
	"verif/mcx"
)

// ---------------------------------------------------------------- pure primitives

func pure(acc *ev.Acc) {
	seen := map[string]uint64{}
	checkN := func(n uint64) {
		acc.Add("tostring_inputs", 1)
		s := machine.UInt64ToString(n)
		bad := ""
		if s == "" {
			bad = "empty string"
		}
		for _, r := range s {
			if r < '0' || r > '9' {
				bad = "non-digit"
			}
		}
		if len(s) > 1 && s[0] == '0' {
			bad = "leading zero"
		}
		if back, err := strconv.ParseUint(s, 10, 64); bad == "" && (err != nil || back != n) {
			bad = fmt.Sprintf("parses back to %d (%v)", back, err)
		}
		if o, dup := seen[s]; bad == "" && dup && o != n {
			bad = fmt.Sprintf("same rendering as %d (not injective)", o)
		}
		seen[s] = n
		if bad != "" {
			acc.Violate(ev.Violation{Key: fmt.Sprintf("C16/tostring/%d", n), Msg: fmt.Sprintf("UInt64ToString(%d) = %q: %s", n, s, bad), Replay: map[string]any{"mode": "tostring", "n": n}})
		}
	}
	for n := uint64(0); n < 100000; n++ {
		checkN(n)
	}
	p := uint64(1)
	for k := 0; k < 20; k++ {
		checkN(p - 1)
		checkN(p)
		checkN(p + 1)
		if k < 19 {
			p *= 10
		}
	}
	for k := 0; k < 64; k++ {
		checkN(uint64(1)<<k - 1)
		checkN(uint64(1) << k)
		checkN(uint64(1)<<k + 1)
	}
	checkN(^uint64(0))

	// MapClear: all maps with <= 4 keys from a 4-key universe, three key types, two value types
	type sk struct{ a, b uint64 }
	for mask := 0; mask < 16; mask++ {
		m1 := map[uint64]uint64{}
		m2 := map[string][]byte{}
		m3 := map[sk]bool{}
		other := map[uint64]uint64{7: 7}
		for i := 0; i < 4; i++ {
			if mask&(1<<i) != 0 {
				m1[uint64(i)*1000] = uint64(i)
				m2[fmt.Sprint("k", i)] = []byte{byte(i)}
				m3[sk{uint64(i), 1}] = true
			}
		}
		acc.Add("mapclear_inputs", 3)
		machine.MapClear(m1)
		machine.MapClear(m2)
		machine.MapClear(m3)
		m1[5] = 6
		m2["z"] = nil
		m3[sk{9, 9}] = false
		bad := ""
		if len(m1) != 1 || m1[5] != 6 || len(m2) != 1 || len(m3) != 1 {
			bad = fmt.Sprintf("after MapClear + one insert: len %d,%d,%d (want 1,1,1)", len(m1), len(m2), len(m3))
		}
		if len(other) != 1 || other[7] != 7 {
			bad = "another map was affected"
		}
		if bad != "" {
			acc.Violate(ev.Violation{Key: fmt.Sprintf("C16/mapclear/%d", mask), Msg: "MapClear: " + bad, Replay: map[string]any{"mode": "mapclear", "mask": mask}})
		}
	}
	// keys that are not equal to themselves (NaN, alone and inside a struct / an interface): delete never matches them
	{
		nan := math.NaN()
		type fk struct {
			a float64
			b uint64
		}
		for nn := 0; nn <= 2; nn++ {
			for others := 0; others <= 2; others++ {
				f1, f2, f3 := map[float64]uint64{}, map[fk]uint64{}, map[interface{}]uint64{}
				for i := 0; i < nn; i++ {
					f1[nan], f2[fk{nan, uint64(i)}], f3[nan] = 1, 1, 1
				}
				for i := 0; i < others; i++ {
					f1[float64(i)], f2[fk{1, uint64(i)}], f3[uint64(i)] = 2, 2, 2
				}
				machine.MapClear(f1)
				machine.MapClear(f2)
				machine.MapClear(f3)
				acc.Add("mapclear_inputs", 3)
				if len(f1) != 0 || len(f2) != 0 || len(f3) != 0 {
					acc.Violate(ev.Violation{Key: fmt.Sprintf("C16/mapclear/nan-%d-%d", nn, others), Msg: fmt.Sprintf("MapClear on maps with %d NaN-containing keys and %d ordinary keys (float64, struct, interface keys) leaves %d / %d / %d entries", nn, others, len(f1), len(f2), len(f3)), Replay: map[string]any{"mode": "mapclear", "size": nn}})
				}
			}
		}
	}
	// MapClear on maps of every size 0..300 and around every power of two up to 2^17 (growth and strategy thresholds)
	sizes := map[int]bool{}
	for n := 0; n <= 300; n++ {
		sizes[n] = true
	}
	for k := 8; k <= 17; k++ {
		sizes[1<<k-1], sizes[1<<k], sizes[1<<k+1] = true, true, true
	}
	type named map[uint64]string
	for n := range sizes {
		m1 := map[uint64]uint64{}
		m2 := named{}
		for i := 0; i < n; i++ {
			m1[uint64(i)*3] = uint64(i)
			m2[uint64(i)] = "v"
		}
		alias := m1
		machine.MapClear(m1)
		machine.MapClear(m2)
		acc.Add("mapclear_inputs", 2)
		if len(m1) != 0 || len(m2) != 0 || len(alias) != 0 {
			acc.Violate(ev.Violation{Key: fmt.Sprintf("C16/mapclear/size-%d", n), Msg: fmt.Sprintf("MapClear on maps of %d entries leaves %d / %d entries (alias of the first: %d)", n, len(m1), len(m2), len(alias)), Replay: map[string]any{"mode": "mapclear", "size": n}})
			continue
		}
		m1[1] = 2
		if len(alias) != 1 || alias[1] != 2 {
			acc.Violate(ev.Violation{Key: fmt.Sprintf("C16/mapclear/size-%d/unusable", n), Msg: fmt.Sprintf("after MapClear on a map of %d entries an insert is not visible through another reference to the same map", n), Replay: map[string]any{"mode": "mapclear", "size": n}})
		}
	}
	var nilmap map[uint64]uint64
	if p := libh.Try(func() { machine.MapClear(nilmap) }); p != "" {
		acc.Violate(ev.Violation{Key: "C16/mapclear/nil", Msg: "MapClear(nil map) panicked: " + p})
	}
	// Assume / Assert
	for _, b := range []bool{true, false} {
		for name, f := range map[string]func(bool){"Assume": machine.Assume, "Assert": machine.Assert} {
			acc.Add("assume_assert_inputs", 1)
			p := libh.Try(func() { f(b) })
			if (p != "") != !b {
				acc.Violate(ev.Violation{Key: fmt.Sprintf("C16/%s/%v", name, b), Msg: fmt.Sprintf("%s(%v): panicked=%q, want panic iff argument is false", name, b, p), Replay: map[string]any{"mode": name, "arg": b}})
			}
		}
	}
}

// ---------------------------------------------------------------- WaitTimeout

type WT struct {
	Calls     int    `json:"calls"`            // consecutive WaitTimeout calls by the waiter (1 or 2)
	Timeout   uint64 `json:"timeout"`          // ms
	Timers    string `json:"timers"`           // "all", "none", "first" (only the first call's timer may fire)
	Signaller string `json:"signaller"`        // "", "signal", "broadcast", "signal-unlocked"
	Other     bool   `json:"other,omitempty"`  // another goroutine is already parked in a plain Wait loop on the same condition variable
	Other2    bool   `json:"other2,omitempty"` // another goroutine waits with WaitTimeout on the same condition variable (its own timer)
}

func (w WT) ID() string {
	id := fmt.Sprintf("wt:calls=%d,timeout=%d,timers=%s,sig=%s", w.Calls, w.Timeout, w.Timers, w.Signaller)
	if w.Other {
		id += ",other-waiter"
	}
	if w.Other2 {
		id += ",other-timed-waiter"
	}
	return id
}

func wtCase(w WT, bound int, deadline time.Time) mcx.Case {
	mk := func() (func(), func(*csched.Sched) (string, string, string)) {
		var returned int
		var problems []string
		var waiterDone, sigDone bool
		other2Done := !w.Other2
		var heldOnReturn []bool
		body := func() {
			timeshim.Reset()
			timeshim.MayFire = func(i int, d timeshim.Duration) bool {
				switch w.Timers {
				case "all":
					return true
				case "first":
					return i == 0
				}
				return false
			}
			mu := new(sync.Mutex)
			cond := sync.NewCond(mu)
			owner := ""
			flag := false
			otherFlag := false
			var wg sync.WaitGroup
			if w.Other {
				// parked before the timed waiter starts (default order); its own condition never becomes true
				csched.GoDaemon(func() {
					mu.Lock()
					for !otherFlag {
						cond.Wait()
					}
					mu.Unlock()
				})
			}
			if w.Other2 {
				// a second timed waiter: it must come back too (by the signal, the broadcast or its own timer)
				wg.Add(1)
				csched.Go(func() {
					defer wg.Done()
					mu.Lock()
					for c := 0; c < 1 && !flag; c++ {
						machine.WaitTimeout(cond, w.Timeout+1)
						if !mu.Held() {
							problems = append(problems, "the second timed waiter's WaitTimeout returned without the lock held")
						}
					}
					mu.Unlock()
					other2Done = true
				})
			}
			wg.Add(1)
			csched.Go(func() {
				defer wg.Done()
				mu.Lock()
				// the standard usage: wait in a loop for a condition set under the lock
				for c := 0; c < w.Calls && !flag; c++ {
					owner = ""
					machine.WaitTimeout(cond, w.Timeout)
					returned++
					heldOnReturn = append(heldOnReturn, mu.Held())
					if owner != "" {
						problems = append(problems, "another thread is inside the critical section when WaitTimeout returns: "+owner)
					}
					owner = "waiter"
					csched.Yield("waiter-in-cs")
					if owner != "waiter" {
						problems = append(problems, "critical section entered by "+owner+" while the waiter holds the lock after WaitTimeout")
					}
				}
				owner = ""
				if p := libh.Try(func() { mu.Unlock() }); p != "" {
					problems = append(problems, "waiter's Unlock after WaitTimeout: "+p)
				}
				waiterDone = true
			})
			if w.Signaller != "" {
				wg.Add(1)
				csched.Go(func() {
					defer wg.Done()
					mu.Lock()
					if owner != "" {
						problems = append(problems, "signaller acquired the lock while "+owner+" is in the critical section")
					}
					owner = "signaller"
					flag = true
					switch w.Signaller {
					case "signal":
						cond.Signal()
					case "broadcast":
						cond.Broadcast()
					}
					owner = ""
					mu.Unlock()
					if w.Signaller == "signal-unlocked" {
						cond.Signal()
					}
					sigDone = true
				})
			}
			wg.Wait()
		}
		verdict := func(s *csched.Sched) (string, string, string) {
			outcome := fmt.Sprintf("returned=%d fired=%d waiterDone=%v", returned, timeshim.Fired, waiterDone)
			if len(problems) > 0 {
				return "lock", strings.Join(problems, "; "), outcome
			}
			for i, h := range heldOnReturn {
				if !h {
					return "lock", fmt.Sprintf("WaitTimeout call %d returned without the lock held", i+1), outcome
				}
			}
			if p := mcx.ThreadPanics(s); p != "" {
				return "panic", p, outcome
			}
			if waiterDone && !other2Done {
				return "stuck", fmt.Sprintf("the second timed waiter's WaitTimeout never returned (timers fired: %d; signaller done: %v); blocked: %v", timeshim.Fired, sigDone, s.BlockedDesc), outcome
			}
			if !waiterDone {
				// the waiter never returned: is that allowed?  Only if no event that must wake it happened.
				why := fmt.Sprint(s.BlockedDesc)
				return "stuck", fmt.Sprintf("WaitTimeout never returned (completed calls: %d of %d; timers fired: %d; signaller done: %v); blocked: %s", returned, w.Calls, timeshim.Fired, sigDone, why), outcome
			}
			return "", "", outcome
		}
		return body, verdict
	}
	return mcx.Case{Prop: "C16", ID: w.ID(), Bound: bound, Deadline: deadline, Mk: mk, Replay: w, MaxSteps: 5000}
}

// scenarios in which the waiter must return in every execution
func wtCases(tier string) []WT {
	var out []WT
	tos := []uint64{0, 1 << 40}
	if tier == "thorough" {
		tos = []uint64{0, 1, 1 << 40}
	}
	for _, to := range tos {
		// timer path: no signaller, every timer may fire: each call must return
		out = append(out, WT{Calls: 1, Timeout: to, Timers: "all"})
		out = append(out, WT{Calls: 2, Timeout: to, Timers: "all"})
		for _, sg := range []string{"signal", "broadcast", "signal-unlocked"} {
			// signal path: no timer ever fires; the condition is set and signalled once
			out = append(out, WT{Calls: 1, Timeout: to, Timers: "none", Signaller: sg})
			// both
			out = append(out, WT{Calls: 1, Timeout: to, Timers: "all", Signaller: sg})
			out = append(out, WT{Calls: 2, Timeout: to, Timers: "all", Signaller: sg})
			// non-initial state: the first call may time out; the second can only be woken by the signal
			out = append(out, WT{Calls: 2, Timeout: to, Timers: "first", Signaller: sg})
		}
		// another goroutine waits on the same condition variable: the timed waiter must still
		// return on its timer, or on a broadcast
		out = append(out, WT{Calls: 1, Timeout: to, Timers: "all", Other: true})
		out = append(out, WT{Calls: 2, Timeout: to, Timers: "all", Other: true})
		out = append(out, WT{Calls: 1, Timeout: to, Timers: "none", Signaller: "broadcast", Other: true})
		out = append(out, WT{Calls: 1, Timeout: to, Timers: "all", Signaller: "broadcast", Other: true})
		if to == 0 {
			// two timed waiters on one condition variable: a signal for one of them, each has its own timer
			out = append(out, WT{Calls: 1, Timeout: to, Timers: "all", Signaller: "signal", Other2: true})
		}
	}
	return out
}

type replayFile struct {
	Replay struct {
		Mode     string `json:"mode"`
		Scenario WT     `json:"scenario"`
		Choices  []byte `json:"choices"`
	} `json:"replay"`
}

func main() {
	tier := flag.String("tier", "quick", "")
	replay := flag.String("replay", "", "")
	flag.Parse()
	start := time.Now()
	bound := 2
	if *tier == "thorough" {
		bound = 3
	}
	if *replay != "" {
		var rf replayFile
		b, err := os.ReadFile(*replay)
		if err == nil {
			err = json.Unmarshal(b, &rf)
		}
		if err != nil {
			fmt.Fprintln(os.Stderr, err)
			os.Exit(3)
		}
		bad := false
		if rf.Replay.Mode != "" {
			acc := ev.NewAcc()
			pure(acc)
			bad = len(acc.Violations) > 0
		} else {
			bad = mcx.ReplayOne(wtCase(rf.Replay.Scenario, 99, time.Time{}), rf.Replay.Choices)
		}
		if bad {
			fmt.Printf("VIOLATION property=C16 replay=%s\n", *replay)
			os.Exit(1)
		}
		fmt.Println("replay: property holds on this case")
		return
	}
	cases := wtCases(*tier)
	if ev.IsChild() {
		i, n := ev.Shard()
		acc := ev.NewAcc()
		if i == 0 {
			pure(acc)
		}
		for k, c := range cases {
			if k%n == i {
				b := bound
				if c.Other2 && b > 1 {
					b-- // two timed waiters (four threads + two timers): one deviation less
				}
				if b > 2 && (c.Other || c.Other2 || c.Calls > 1) {
					b = 2 // the deepest bound only for the three-thread scenarios (the frontier of the next level is kept in memory)
				}
				mcx.Explore(wtCase(c, b, start.Add(20*time.Minute)), acc)
			}
		}
		acc.EmitChild()
		return
	}
	acc, err := ev.RunSharded(0)
	if err != nil {
		fmt.Fprintln(os.Stderr, "harness error:", err)
		os.Exit(3)
	}
	os.Exit(acc.Done(ev.Finish{
		Prop: "C16", Tier: *tier, Level: "model_checking", Start: start,
		Rule:        fmt.Sprintf("WaitTimeout (machine/prims.go and the primitive module it delegates to, with sync/time/channel operations routed to the controlled scheduler): caller holding the lock, its helper goroutine, a timer event that may fire at any point after time.After (or never, per scenario), a signaller doing Signal/Broadcast under the lock; optionally another goroutine already parked in a Wait loop on the same condition variable; 1 or 2 consecutive calls; timeouts 0, 1, 2^40 ms; every schedule with <= %d deviations; oracle: lock held and exclusive on return, no unlock of an unlocked mutex, the call returns in every execution of the timer-only and signal-only scenarios. Pure primitives: UInt64ToString on all n < 10^5 and all decimal/binary boundaries (digits only, no leading zero, parses back, injective), MapClear on all maps over a 4-key universe for 3 key types and on maps of every size 0..300 and 2^k-1,2^k,2^k+1 up to 2^17 (named and unnamed map types, checked through an alias), Assume/Assert on both booleans", bound),
		Assumptions: []string{"wall-clock bounds are decided only in their logical form: once the timer fired no further event is needed; after a signal no timer is needed", "the primitive module (v0.1.0 in the module cache) is instrumented by overlay exactly as it is"},
		Extra:       mcx.Extra(acc, map[string]any{"deviation_bound": bound}),
	}))
}
