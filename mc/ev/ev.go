// Package ev: accumulation of coverage over shards, known-findings matching,
// evidence / replay files and the VIOLATION / KNOWN-FINDING protocol.
package ev

import (
	"bufio"
	"encoding/json"
	"fmt"
	"os"
	"os/exec"
	"path/filepath"
	"regexp"
	"runtime"
	"sort"
	"strconv"
	"strings"
	"sync"
	"time"
)

const Root = "/verif"

type Violation struct {
	Key    string `json:"key"`    // canonical id: descriptor + failure kind (what known findings match on)
	Msg    string `json:"msg"`    // human-readable
	Replay any    `json:"replay"` // everything needed to replay the single case
}

// Acc is mergeable coverage.
type Acc struct {
	Counters   map[string]int64           `json:"counters"`
	Max        map[string]int64           `json:"max"`
	Sets       map[string]map[string]bool `json:"sets"`
	Samples    []any                      `json:"samples"`
	Violations []Violation                `json:"violations"`
	Notes      []string                   `json:"notes"`
	Incomplete []string                   `json:"incomplete"` // reasons exhaustive=false
	mu         sync.Mutex
	seen       map[string]bool
}

func NewAcc() *Acc {
	return &Acc{Counters: map[string]int64{}, Max: map[string]int64{}, Sets: map[string]map[string]bool{}}
}

func (a *Acc) Add(k string, n int64) { a.mu.Lock(); a.Counters[k] += n; a.mu.Unlock() }
func (a *Acc) SetMax(k string, n int64) {
	a.mu.Lock()
	if n > a.Max[k] {
		a.Max[k] = n
	}
	a.mu.Unlock()
}
func (a *Acc) Set(k, v string) {
	a.mu.Lock()
	if a.Sets[k] == nil {
		a.Sets[k] = map[string]bool{}
	}
	a.Sets[k][v] = true
	a.mu.Unlock()
}
func (a *Acc) Sample(v any, max int) {
	a.mu.Lock()
	if len(a.Samples) < max {
		a.Samples = append(a.Samples, v)
	}
	a.mu.Unlock()
}
func (a *Acc) Violate(v Violation) {
	a.mu.Lock()
	if a.seen == nil {
		a.seen = map[string]bool{}
		for _, o := range a.Violations {
			a.seen[o.Key] = true
		}
	}
	if a.seen[v.Key] {
		a.mu.Unlock()
		return
	}
	a.seen[v.Key] = true
	if len(a.Violations) < 50000 {
		a.Violations = append(a.Violations, v)
	}
	a.Counters["violating_cases"]++
	a.mu.Unlock()
}
func (a *Acc) Note(s string) { a.mu.Lock(); a.Notes = append(a.Notes, s); a.mu.Unlock() }
func (a *Acc) NotExhaustive(s string) {
	a.mu.Lock()
	for _, o := range a.Incomplete {
		if o == s {
			a.mu.Unlock()
			return
		}
	}
	a.Incomplete = append(a.Incomplete, s)
	a.mu.Unlock()
}

func (a *Acc) Merge(b *Acc) {
	for k, v := range b.Counters {
		a.Counters[k] += v
	}
	for k, v := range b.Max {
		if v > a.Max[k] {
			a.Max[k] = v
		}
	}
	for k, s := range b.Sets {
		if a.Sets[k] == nil {
			a.Sets[k] = map[string]bool{}
		}
		for v := range s {
			a.Sets[k][v] = true
		}
	}
	for _, s := range b.Samples {
		if len(a.Samples) < 12 {
			a.Samples = append(a.Samples, s)
		}
	}
	if a.seen == nil {
		a.seen = map[string]bool{}
		for _, o := range a.Violations {
			a.seen[o.Key] = true
		}
	}
	for _, v := range b.Violations {
		if !a.seen[v.Key] {
			a.seen[v.Key] = true
			a.Violations = append(a.Violations, v)
		}
	}
	a.Notes = append(a.Notes, b.Notes...)
	for _, s := range b.Incomplete {
		a.NotExhaustive(s)
	}
}

// ---------------------------------------------------------------- sharding

// Shard returns (index, count) of this process; (0,1) when unsharded.
func Shard() (int, int) {
	s := os.Getenv("VERIF_SHARD")
	if s == "" {
		return 0, 1
	}
	var i, n int
	fmt.Sscanf(s, "%d/%d", &i, &n)
	return i, n
}

func IsChild() bool { return os.Getenv("VERIF_SHARD") != "" }

// RunSharded re-executes the current binary n times with VERIF_SHARD=i/n and
// merges the Acc each child prints as the last line of stdout.
func RunSharded(n int, extraEnv ...string) (*Acc, error) {
	if n <= 0 {
		n = runtime.NumCPU()
	}
	total := NewAcc()
	var mu sync.Mutex
	var wg sync.WaitGroup
	var firstErr error
	for i := 0; i < n; i++ {
		wg.Add(1)
		go func(i int) {
			defer wg.Done()
			cmd := exec.Command(os.Args[0], os.Args[1:]...)
			cmd.Env = append(os.Environ(), fmt.Sprintf("VERIF_SHARD=%d/%d", i, n), "GOMAXPROCS=1")
			cmd.Env = append(cmd.Env, extraEnv...)
			cmd.Stderr = os.Stderr
			out, err := cmd.Output()
			mu.Lock()
			defer mu.Unlock()
			if err != nil {
				if firstErr == nil {
					firstErr = fmt.Errorf("shard %d: %v\n%s", i, err, tail(string(out), 2000))
				}
				return
			}
			lines := strings.Split(strings.TrimRight(string(out), "\n"), "\n")
			var acc Acc
			if e := json.Unmarshal([]byte(lines[len(lines)-1]), &acc); e != nil {
				if firstErr == nil {
					firstErr = fmt.Errorf("shard %d: bad output: %v\n%s", i, e, tail(string(out), 2000))
				}
				return
			}
			total.Merge(&acc)
		}(i)
	}
	wg.Wait()
	return total, firstErr
}

func tail(s string, n int) string {
	if len(s) > n {
		return s[len(s)-n:]
	}
	return s
}

// EmitChild prints the accumulator for the parent.
func (a *Acc) EmitChild() {
	b, _ := json.Marshal(a)
	fmt.Println(string(b))
}

// ---------------------------------------------------------------- known findings

type Known struct {
	Property string
	ID       string
	Match    *regexp.Regexp
	Text     string
}

// LoadKnown parses /verif/known_findings.txt:
//
//	known: property=C12 id=slug match=<regexp on violation key> :: what fails
//	fixed: property=C11 <commit> <what failed>
func LoadKnown(prop string) ([]Known, error) {
	f, err := os.Open(filepath.Join(Root, "known_findings.txt"))
	if err != nil {
		if os.IsNotExist(err) {
			return nil, nil
		}
		return nil, err
	}
	defer f.Close()
	var out []Known
	sc := bufio.NewScanner(f)
	sc.Buffer(make([]byte, 1<<20), 1<<20)
	for sc.Scan() {
		line := strings.TrimSpace(sc.Text())
		if !strings.HasPrefix(line, "known:") {
			continue
		}
		head, text, _ := strings.Cut(line[len("known:"):], "::")
		k := Known{Text: strings.TrimSpace(text)}
		head = strings.TrimSpace(head)
		// match= takes the rest of head
		if i := strings.Index(head, " match="); i >= 0 {
			re, err := regexp.Compile(strings.TrimSpace(head[i+len(" match="):]))
			if err != nil {
				return nil, fmt.Errorf("known_findings: %v in %q", err, line)
			}
			k.Match = re
			head = head[:i]
		}
		for _, f := range strings.Fields(head) {
			if v, ok := strings.CutPrefix(f, "property="); ok {
				k.Property = v
			}
			if v, ok := strings.CutPrefix(f, "id="); ok {
				k.ID = v
			}
		}
		if k.Property == prop && k.Match != nil {
			out = append(out, k)
		}
	}
	return out, sc.Err()
}

// ---------------------------------------------------------------- finish

type Evidence struct {
	PropertyID  string         `json:"property_id"`
	Tier        string         `json:"tier"`
	Seed        int            `json:"seed"`
	Level       string         `json:"level"`
	Coverage    map[string]any `json:"coverage"`
	Assumptions []string       `json:"assumptions"`
	WallS       float64        `json:"wall_s"`
	Violations  int            `json:"violations"`
}

type Finish struct {
	Prop        string
	Tier        string
	Level       string
	Start       time.Time
	Rule        string
	Assumptions []string
	Extra       map[string]any // extra coverage keys (override)
}

func Seed() int {
	n, _ := strconv.Atoi(os.Getenv("VERIF_SEED"))
	return n
}

// Done classifies violations against known findings, writes replay files and
// the evidence file, prints protocol lines and returns the exit status.
func (a *Acc) Done(f Finish) int {
	known, err := LoadKnown(f.Prop)
	if err != nil {
		fmt.Fprintln(os.Stderr, "harness error:", err)
		return 3
	}
	sort.Slice(a.Violations, func(i, j int) bool {
		if len(a.Violations[i].Key) != len(a.Violations[j].Key) {
			return len(a.Violations[i].Key) < len(a.Violations[j].Key) // shortest counterexample first
		}
		return a.Violations[i].Key < a.Violations[j].Key
	})
	hit := map[string]int{}
	var fresh []Violation
	for _, v := range a.Violations {
		matched := false
		for _, k := range known {
			if k.Match.MatchString(v.Key) {
				hit[k.ID]++
				matched = true
				break
			}
		}
		if !matched {
			fresh = append(fresh, v)
		}
	}
	var knownIDs []string
	for _, k := range known {
		if hit[k.ID] > 0 {
			fmt.Printf("KNOWN-FINDING: property=%s id=%s cases=%d %s\n", f.Prop, k.ID, hit[k.ID], k.Text)
			knownIDs = append(knownIDs, k.ID)
		}
	}
	rdir := filepath.Join(Root, "replays", f.Prop)
	for i, v := range fresh {
		os.MkdirAll(rdir, 0755)
		p := filepath.Join(rdir, slug(v.Key)+".json")
		b, _ := json.MarshalIndent(map[string]any{"property": f.Prop, "key": v.Key, "msg": v.Msg, "replay": v.Replay}, "", " ")
		os.WriteFile(p, b, 0644)
		if i < 8 {
			fmt.Printf("VIOLATION property=%s replay=%s\n", f.Prop, p)
			fmt.Printf("  %s\n", oneLine(v.Msg, 600))
		}
	}
	if len(fresh) > 8 {
		fmt.Printf("  ... and %d more violations (replay files written)\n", len(fresh)-8)
	}
	cov := map[string]any{}
	for k, v := range a.Counters {
		cov[k] = v
	}
	for k, v := range a.Max {
		cov[k] = v
	}
	for k, s := range a.Sets {
		cov["distinct_"+k] = len(s)
	}
	cov["rule"] = f.Rule
	if len(a.Samples) == 0 {
		a.Samples = append(a.Samples, "no case was explored")
	}
	cov["samples"] = a.Samples
	cov["exhaustive"] = len(a.Incomplete) == 0
	if len(a.Incomplete) > 0 {
		cov["not_exhaustive_because"] = a.Incomplete
	}
	cov["known_findings_matched"] = knownIDs
	if len(a.Notes) > 0 {
		sort.Strings(a.Notes)
		if len(a.Notes) > 30 {
			a.Notes = a.Notes[:30]
		}
		cov["notes"] = a.Notes
	}
	for k, v := range f.Extra {
		cov[k] = v
	}
	e := Evidence{PropertyID: f.Prop, Tier: f.Tier, Seed: Seed(), Level: f.Level, Coverage: cov,
		Assumptions: f.Assumptions, WallS: time.Since(f.Start).Seconds(), Violations: len(fresh)}
	os.MkdirAll(filepath.Join(Root, "evidence"), 0755)
	b, _ := json.MarshalIndent(e, "", " ")
	if err := os.WriteFile(filepath.Join(Root, "evidence", f.Prop+".json"), b, 0644); err != nil {
		fmt.Fprintln(os.Stderr, "harness error:", err)
		return 3
	}
	fmt.Printf("%s %s: violations=%d known=%d exhaustive=%v wall=%.1fs\n", f.Prop, f.Tier, len(fresh), len(knownIDs), len(a.Incomplete) == 0, e.WallS)
	if len(fresh) > 0 {
		return 1
	}
	return 0
}

func oneLine(s string, n int) string {
	s = strings.ReplaceAll(s, "\n", " | ")
	if len(s) > n {
		s = s[:n] + "…"
	}
	return s
}

var slugRe = regexp.MustCompile(`[^A-Za-z0-9_.-]+`)

func slug(s string) string {
	s = slugRe.ReplaceAllString(s, "_")
	if len(s) > 120 {
		h := uint32(2166136261)
		for i := 0; i < len(s); i++ {
			h = (h ^ uint32(s[i])) * 16777619
		}
		s = s[:100] + fmt.Sprintf("_%08x", h)
	}
	return s
}
