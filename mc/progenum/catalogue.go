package progenum

import "strings"

// CatalogueForms: constructs outside (or at the edge of) the supported subset,
// one entry per guard family of the translator plus constructs for which no
// guard exists. Oracle per declaration: rejected, or accepted-and-faithful.
func CatalogueForms() []Form {
	c := func(id, code string) Form { return Form{ID: id, Code: code, Family: "catalogue"} }
	cd := func(id, decls, code string) Form { return Form{ID: id, Code: code, Family: "catalogue", Decls: decls} }
	out := []Form{
		// assignment operators without a translation
		c("mul_assign", "a *= x"), c("quo_assign", "a /= (y | 1)"), c("rem_assign", "a %= (y | 1)"),
		c("shl_assign", "a <<= (y % 8)"), c("shr_assign", "a >>= (y % 8)"), c("andnot_assign", "a &^= y"),
		c("mul_assign_field", "sp.f *= 2"), c("shl_assign_elem", "xs[0] <<= 1"), c("andnot_assign_deref", "*p &^= 3"),
		// operators
		c("andnot_op", "r = x &^ y"), c("unary_minus", "r = -x"), c("unary_plus", "r = +x"),
		// inc/dec on non-variables
		c("inc_field", "sp.f++"), c("inc_elem", "xs[0]++"), c("inc_deref", "*p++"), c("inc_define_local", "z := x\nz++\nr = z"),
		// conversions
		c("conv_int", "r = uint64(int(x) + 1)"), c("conv_uint16", "r = uint64(uint16(x))"), c("conv_float", "r = uint64(float64(w))"),
		c("conv_rune_string", "rs = string(rune(c))"), c("conv_int32", "r = uint64(int32(w))"),
		cd("conv_named_u32", "type MyU32 uint32\n", "r = uint64(MyU32(x))"),
		cd("conv_named_u64", "type MyU64 uint64\n", "r = uint64(MyU64(x) + 1)"),
		cd("conv_named_u8_arith", "type MyU8 uint8\n", "r = uint64(MyU8(x) + MyU8(y))"),
		cd("conv_alias_u32", "type AliasU32 = uint32\n", "r = uint64(AliasU32(x))"),
		c("conv_paren_type", "r = uint64((uint32)(x))"),
		// slice forms
		c("slice_3index", "ys := xs[0:1:2]\nr = uint64(cap(ys))"), c("slice_full", "ys := xs[:]\nr = uint64(len(ys))"),
		c("slice_string", "rs = s[1:]"), c("index_string", "r8 = s[0]"),
		c("array_var", "var arr [3]uint64\narr[1] = x\nr = arr[1] + uint64(len(arr))"),
		c("array_slice", "var arr [3]uint64\nys := arr[1:]\nr = uint64(len(ys))"),
		// literals
		c("char_literal", "r8 = 'a'"), c("float_literal", "var fl float64 = 1.5\nr = uint64(fl)"),
		c("multi_elem_slice_lit", "ys := []uint64{x, y}\nr = ys[1]"), c("map_literal", "m2 := map[uint64]uint64{1: x}\nr = m2[1]"),
		c("array_literal", "arr := [2]uint64{x, y}\nr = arr[1]"), c("unkeyed_struct_lit", "q := S2{x, y}\nr = q.b"),
		c("string_with_quote", "rs = \"say \\\"hi\\\"\""), c("big_literal_u32", "r32 = w + 4294967295"),
		c("nested_slice_lit", "ys := [][]uint64{xs}\nr = ys[0][0]"),
		// statements
		c("switch_stmt", "switch x {\ncase 1:\n\tr = 2\ndefault:\n\tr = 3\n}"),
		c("switch_no_tag", "switch {\ncase x < y:\n\tr = 1\n}"),
		c("defer_stmt", "defer bump(p)\nr = *p"),
		c("goto_stmt", "goto done\ndone:\n\tr = x"),
		c("labelled_break", "outer:\n\tfor i := uint64(0); i < 3; i++ {\n\t\tfor j := uint64(0); j < 3; j++ {\n\t\t\tif j == 1 {\n\t\t\t\tbreak outer\n\t\t\t}\n\t\t\tr += 1\n\t\t}\n\t}"),
		c("labelled_continue", "outer:\n\tfor i := uint64(0); i < 3; i++ {\n\t\tfor j := uint64(0); j < 3; j++ {\n\t\t\tif j == 1 {\n\t\t\t\tcontinue outer\n\t\t\t}\n\t\t\tr += 1\n\t\t}\n\t}"),
		c("if_init", "if z := x + 1; z > 1 {\n\tr = z\n}"),
		c("if_init_shadows_outer", "if a := x + 100; a > 1 {\n\tr = a\n}"),
		c("if_init_else", "if a := x + 100; a > 1000 {\n\tr = 1\n} else {\n\tr = a\n}"),
		c("if_init_ok_lookup", "if v, ok := m[1]; ok {\n\tr = v + 1\n}"),
		c("switch_init", "switch a := x + 1; a {\ncase 1:\n\tr = 2\n}"),
		c("for_two_vars", "for i, j := uint64(0), uint64(5); i < j; i++ {\n\tr += 1\n}"),
		c("for_assign_init", "var i uint64\nfor i = 1; i < 3; i++ {\n\tr += i\n}"),
		c("for_post_opassign", "for i := uint64(0); i < 6; i += 2 {\n\tr += i\n}"),
		c("range_string", "for _, ch := range s {\n\tr += uint64(ch)\n}"),
		c("range_array", "arr := [2]uint64{x, y}\nfor _, v := range arr {\n\tr += v\n}"),
		c("range_int", "for i := range 3 {\n\tr += uint64(i)\n}"),
		c("range_assign_existing", "var v uint64\nfor _, v = range xs {\n\tr += v\n}\nr += v"),
		c("range_assign_index", "var i int\nfor i = range xs {\n\tr += uint64(i)\n}\nr += uint64(i)"),
		c("range_no_vars", "for range xs {\n\tr += 1\n}"),
		c("go_with_args", "var wgq uint64\ngo bump(&wgq)\nr = x"),
		{ID: "go_literal_with_args", Family: "catalogue", Sync: true, Code: "wg := new(sync.WaitGroup)\nwg.Add(1)\ngo func(z uint64) {\n\t*p = z\n\twg.Done()\n}(x + 1)\nwg.Wait()"},
		{ID: "go_literal_joined", Family: "catalogue", Sync: true, Code: "wg := new(sync.WaitGroup)\nwg.Add(1)\ngo func() {\n\t*p = x + 1\n\twg.Done()\n}()\nwg.Wait()"},
		{ID: "go_named_joined", Family: "catalogue", Sync: true, Decls: "func bumpDone(p *uint64, wg *sync.WaitGroup) {\n\t*p = *p + 1\n\twg.Done()\n}\n", Code: "wg := new(sync.WaitGroup)\nwg.Add(1)\ngo bumpDone(p, wg)\nwg.Wait()"},
		// h7 probes of the unchanged tree
		{ID: "waitgroup_value", Family: "catalogue", Sync: true, Code: "var wgv sync.WaitGroup\nwgv.Add(1)\nwgv.Done()\nwgv.Wait()\nr = x"},
		{ID: "mutex_literal", Family: "catalogue", Sync: true, Code: "mq := &sync.Mutex{}\nmq.Lock()\nr = x\nmq.Unlock()"},
		{ID: "rwmutex_new", Family: "catalogue", Sync: true, Code: "rw := new(sync.RWMutex)\nrw.Lock()\nr = x\nrw.Unlock()"},
		{ID: "cond_locker_field", Family: "catalogue", Sync: true, Code: "mq := new(sync.Mutex)\ncq := sync.NewCond(mq)\ncq.L.Lock()\nr = x\ncq.L.Unlock()"},
		c("redeclare_define_var", "var n uint64 = 3\nqa, n := twoU(4)\nr = qa + n"),
		c("redeclare_define_captured", "qa, qb := twoU(1)\nfq := func() uint64 { return qb }\nqc, qb := twoU(10)\nr = fq() + qa + qc"),
		c("redeclare_define_plain", "qa, qb := twoU(1)\nqc, qb := twoU(10)\nr = qa + qb + qc"),
		c("funclit_named_result", "fq := func() (n uint64) {\n\treturn\n}\nr = fq() + 1"),
		c("funclit_named_results_two", "fq := func(k uint64) (v uint64, ok bool) {\n\tif k == 0 {\n\t\treturn\n\t}\n\treturn k, true\n}\nqv, qok := fq(x)\nr = qv\nrb = qok"),
		cd("global_map_var", "var gtable = make(map[uint64]uint64)\n", "gtable[1] = 7\nr = gtable[1]"),
		cd("global_cell_var", "var gcell = new(uint64)\n", "*gcell = *gcell + 1\n*gcell = *gcell + 1\nr = *gcell"),
		cd("global_call_var", "var gcalled = twoUfirst(3)\n\nfunc twoUfirst(x uint64) uint64 {\n\treturn x + 1\n}\n", "r = gcalled"),
		cd("global_const_expr_var", "const gk uint64 = 4\n\nvar gfromconst uint64 = gk + 1\n", "r = gfromconst"),
		c("elided_ptr_literal", "ps := []*S2{{a: 4}}\npq := ps[0]\npq.a = pq.a + 1\nr = ps[0].a"),
		c("inferred_empty_interface", "var ifq interface{}\nifq = x\nifs := []interface{}{}\nift := append(ifs, ifq)\nr = uint64(len(ift))"),
		c("signed_difference_cmp", "rb = int(x)-int(y) < 0"),
		c("string_less", "rb = s < \"b\""), c("string_ge", "rb = s >= \"ab\""),
		c("signed_shift", "r = uint64((int(x) - int(y)) >> 1)"), c("signed_rem", "r = uint64((int(x) - int(y)) % 3)"),
		c("signed_len_cmp", "rb = len(xs) < 8"), c("signed_len_sub_cmp", "rb = len(xs)-8 < 0"),
		// (last probe of the repaired tree)
		cd("make_map_hint_effect_h9", "func hintOf(p *uint64) uint64 {\n\t*p = *p + 1\n\treturn 4\n}\n", "mq := make(map[uint64]uint64, hintOf(p))\nmq[1] = x\nr = mq[1] + *p"),
		c("append_string_spread_h9", "bq := make([]byte, 1)\nbq = append(bq, \"abc\"...)\nr = uint64(len(bq))"),
		c("conv_uint16_cmp_h9", "rb = uint16(x) == uint16(y+65536)"), c("conv_rune_cmp_h9", "rb = rune(x) == rune(x+4294967296)"),
		c("conv_int32_cmp_h9", "rb = int32(w) == int32(w)"), c("conv_uint16_lt_h9", "rb = uint16(x+65536) < uint16(y|1)"),
		cd("opassign_index_call_h9", "func nextIdx(p *uint64) uint64 {\n\t*p = *p + 1\n\treturn *p % 2\n}\n", "xs[nextIdx(p)] += 10\nr = xs[0] + xs[1]*100 + *p*10000"),
		cd("opassign_map_key_call_h9", "func nextKey(p *uint64) uint64 {\n\t*p = *p + 1\n\treturn *p\n}\n", "m[nextKey(p)] += 10\nr = uint64(len(m)) + *p*100"),
		c("tuple_assign_index_phase_h9", "var i uint64 = 0\ni, xs[i] = twoU(0)\nr = xs[0] + xs[1]*100 + i*10000"),
		c("nested_field_store_local_h9", "q := S{f: 1, g: 2, in: In{h: 3}}\nq.in.h = x\nr = q.in.h + q.f"),
		c("nested_field_opassign_local_h9", "q := S{f: 1, g: 2, in: In{h: 3}}\nq.in.h += x\nr = q.in.h"),
		// conversions to int of unsigned operands (not known to be non-negative as int: x >= 2^63)
		c("signed_conv_cmp", "rb = int(x) < int(y)"), c("signed_conv_len_cmp", "rb = len(xs) < int(x)"),
		c("signed_conv_quot", "r = uint64(int(x) / 2)"), c("signed_conv_u32_cmp", "rb = int(w) < int(w+1)"),
		// op-assignment on an element whose index is an expression, next to variables named like plausible temporaries
		c("opassign_elem_idx", "idx := uint64(4)\nxs[x%2+1] += idx\nr = xs[x%2+1] + idx"),
		c("opassign_elem_tmp", "tmp := uint64(4)\ni := x % 2\nxs[i+1] += tmp\nr = xs[i+1] + tmp + i"),
		c("opassign_elem_index", "index := uint64(4)\nxs[(x+1)%3] -= index\nr = xs[(x+1)%3] + index"),
		c("opassign_field_of_elem", "k := uint64(3)\nts[x%2].b += k\nr = ts[x%2].b + k"),
		// []byte(...) of things that are not strings
		cd("bytes_of_named_slice", "type NBlk []byte\n", "bq := make([]byte, 2)\nnb := NBlk(bq)\nraw := []byte(nb)\nraw[0] = 9\nr = uint64(nb[0]) + uint64(len(raw))"),
		c("bytes_of_nil", "raw := []byte(nil)\nr = uint64(len(raw))"),
		c("bytes_of_byte_slice", "bq := make([]byte, 2)\nraw := []byte(bq)\nraw[1] = 7\nr = uint64(bq[1])"),
		c("signed_quotient", "r = uint64((int(x) - int(y)) / 2)"),
		c("range_map_delete_rounds", "m[1] = 1\nm[2] = 2\nm[3] = 3\nvar cnt uint64\nfor range m {\n\tfor k := range m {\n\t\tdelete(m, k)\n\t}\n\tcnt = cnt + 1\n}\nr = cnt"),
		c("range_map_delete", "for k := range m {\n\tdelete(m, k)\n}\nr = uint64(len(m))"),
		{ID: "mutex_value", Family: "catalogue", Sync: true, Code: "var mu sync.Mutex\nmu.Lock()\nr = x\nmu.Unlock()"},
		{ID: "mutex_trylock", Family: "catalogue", Sync: true, Code: "mu := new(sync.Mutex)\nrb = mu.TryLock()"},
		c("multi_define_values", "u, v := x, y\nr = u + v"), c("swap_assign", "a, r = y, a"),
		c("var_two_names", "var u, v uint64\nr = u + v + x"), c("var_group", "var (\n\tu uint64 = x\n)\nr = u"),
		c("local_const", "const lc uint64 = 3\nr = x + lc"), c("local_const_untyped", "const lc = 3\nr = x + lc"),
		cd("package_const_untyped", "const PCU = 10\n", "r = x + PCU"),
		// untyped constants take their width from where they are used: 8- and 32-bit contexts must wrap
		cd("package_const_untyped_u8", "const PC8 = 200\n", "r8 = c + PC8\nr = uint64(r8)"),
		cd("package_const_untyped_u32", "const PC32 = 4000000000\n", "r32 = w + PC32\nr = uint64(r32)"),
		cd("package_const_untyped_u32_mul", "const PM32 = 100000\n", "r32 = (w + 60000) * PM32\nr = uint64(r32)"),
		cd("package_const_untyped_shift", "const PSH = 31\n", "r32 = (w | 3) << PSH\nr = uint64(r32)"),
		c("local_const_untyped_u8", "const lc8 = 250\nr8 = c + lc8\nr = uint64(r8)"),
		cd("package_const_untyped_expr", "const PE1 = 3\nconst PE2 = PE1 * 80\n", "r8 = c + PE2\nr = uint64(r8)"),
		cd("package_const_typed_u8", "const PT8 uint8 = 200\n", "r8 = c + PT8\nr = uint64(r8)"),
		cd("package_const_iota", "const (\n\tIotaA uint64 = iota\n\tIotaB\n)\n", "r = IotaB + x"),
		cd("package_const_iota_all", "const (\n\tIoA uint64 = iota\n\tIoB\n\tIoC\n)\n", "r = IoA*100 + IoB*10 + IoC + x"),
		cd("package_const_iota_expr", "const (\n\tIeA uint64 = 1 << iota\n\tIeB\n\tIeC\n)\n", "r = IeA*100 + IeB*10 + IeC + x"),
		cd("package_const_iota_skip", "const (\n\tIsA uint64 = iota + 5\n\t_\n\tIsC\n)\n", "r = IsA*100 + IsC + x"),
		cd("package_const_implicit_repeat", "const (\n\tIrA uint64 = 7\n\tIrB\n)\n", "r = IrA*10 + IrB + x"),
		c("local_type", "type LT struct {\n\tu uint64\n}\nq := LT{u: x}\nr = q.u"),
		c("empty_stmt", ";\nr = x"),
		// control-flow shapes
		c("return_in_loop", "for i := uint64(0); i < 3; i++ {\n\tif i == x {\n\t\treturn "+retVars+"\n\t}\n\tr += 1\n}"),
		c("return_two_ifs_deep", "if x < 3 {\n\tif t {\n\t\tr = 1\n\t\treturn "+retVars+"\n\t}\n\ta = a + 2\n}"),
		c("else_after_early_return", "if t {\n\tr = 1\n\treturn "+retVars+"\n} else {\n\ta = 4\n}\na = a + 1"),
		c("break_in_range", "for _, v := range xs {\n\tif v == x {\n\t\tbreak\n\t}\n\tr += 1\n}"),
		c("continue_in_range", "for _, v := range xs {\n\tif v == x {\n\t\tcontinue\n\t}\n\tr += 1\n}"),
		c("break_not_last", "for i := uint64(0); i < 3; i++ {\n\tif i == 1 {\n\t\tr += 10\n\t\tbreak\n\t}\n\tr += 1\n}"),
		c("if_else_one_side_returns", "if t {\n\tr = 1\n} else {\n\tr = 2\n\treturn "+retVars+"\n}\na = a + 1"),
		c("return_in_range", "for _, v := range xs {\n\tif v == 77 {\n\t\treturn "+retVars+"\n\t}\n\tr += v\n}"),
		c("code_after_return_block", "{\n\tr = 5\n\treturn "+retVars+"\n}"),
		// function values, methods, interfaces
		c("call_func_literal", "func() {\n\tr = x\n}()"), c("call_call_result", "r = mkAdder(1)(x)"),
		c("call_slice_elem", "fs := make([]func(uint64) uint64, 1)\nfs[0] = mkAdder(2)\nr = fs[0](x)"),
		c("call_map_elem", "fm := make(map[uint64]func(uint64) uint64)\nfm[1] = mkAdder(2)\nr = fm[1](x)"),
		c("call_deref_func", "fv := mkAdder(3)\npf := &fv\nr = (*pf)(x)"),
		c("func_typed_var", "var fv func(uint64) uint64 = mkAdder(1)\nr = fv(x)"),
		c("method_value", "mv := sp.addTo\nr = mv(x)"), c("method_expr", "me := (*S).addTo\nr = me(sp, x)"),
		// a method value binds its receiver when it is evaluated, not when it is called
		c("method_value_ptr_retarget", "var q *S = sp\nmv := q.addTo\nq = &S{g: 50}\nr = mv(x) + q.g"),
		c("method_value_val_snapshot", "mv := sv.sum\nsv.f = 77\nr = mv() + sv.f"),
		c("method_value_val_of_deref", "mv := sp.sum\nsp.f = 77\nr = mv()"),
		c("method_value_called_twice", "mv := sp.addTo\nr = mv(1)\nr = r*10 + mv(2)"),
		c("method_value_as_arg", "r = apply(sp.addTo, x)"),
		// an interface-typed parameter that is not the first one
		c("iface_second_param_struct", "q := NSquare{side: y % 1000}\nr = nmeasure2(x%7, q)"),
		c("iface_second_param_field", "cv := &NCanvas{sq: NSquare{side: x % 1000}, scale: 2}\nr = nmeasure2(x%7, cv.sq)"),
		c("iface_first_param_struct", "q := NSquare{side: y % 1000}\nr = nmeasure(q)"),
		// multiple results flowing straight into a call, two-value map lookups in the assignment form, nil on the left
		c("call_spread_multi_result", "r = addBoth(twoU(x))"),
		c("call_spread_multi_result_method", "q1, q2 := twoU(x)\nr = addBoth(q1, q2)"),
		c("return_multi_result_call", "fn := func() (uint64, uint64) {\n\treturn twoU(x)\n}\nq1, q2 := fn()\nr = q1 + q2*3"),
		c("map_lookup_ok_assign_form", "var mv uint64\nvar mok bool\nmv, mok = m[1]\nr = mv\nrb = mok"),
		c("map_lookup_ok_paren", "mv, mok := (m[1])\nr = mv\nrb = mok"),
		c("map_lookup_ok_missing", "mv, mok := m[77]\nr = mv + 5\nrb = mok"),
		c("map_lookup_nested_in_define", "mv, mok := m[m[1]+1]\nr = mv + 5\nrb = mok"),
		c("map_lookup_as_arg_in_define", "q1, q2 := two(m[1])\nr = q1\nrb = q2"),
		c("nil_on_the_left", "var zp *uint64\nrb = nil == zp"),
		c("nil_ne_on_the_left", "rb = nil != p"),
		c("field_store_on_define_struct", "q := S2{a: x, b: 1}\nq.a = y + 2\nr = q.a + q.b"),
		c("field_store_on_var_struct", "var q S2\nq.a = y + 2\nr = q.a + q.b"),
		c("return_nil_pointer", "fn := func() *uint64 {\n\treturn nil\n}\nrb = fn() == nil"),
		c("nil_field_init", "type NP struct {\n\tq *uint64\n}\nv := NP{q: nil}\nrb = v.q == nil"),
		// string(n) of an integer is a one-rune string, not the decimal text
		c("conv_string_of_u64", "rs = string(x%26 + 65)"),
		c("conv_string_of_u32", "rs = string(w%26 + 97)"),
		c("conv_string_of_u8", "rs = string(c%26 + 97)"),
		c("conv_string_of_const", "rs = string(65)"),
		// builtins with fewer or more arguments than the usual two
		c("append_no_elems", "ys := append(xs)\nr = uint64(len(ys))"),
		c("append_two_elems", "ys := append(xs, x, y)\nr = ys[3] + ys[4]*3 + uint64(len(ys))"),
		c("append_three_elems", "ys := append(xs, 1, 2, 3)\nr = ys[5] + uint64(len(ys))"),
		c("make_slice_with_cap", "ys := make([]uint64, 1, 4)\nys = append(ys, x)\nr = ys[1] + uint64(len(ys))"),
		c("make_map_with_hint", "m2 := make(map[uint64]uint64, 8)\nm2[1] = x\nr = m2[1] + uint64(len(m2))"),
		c("copy_result_unused", "ys := make([]uint64, 2)\ncopy(ys, xs)\nr = ys[1]"),
		c("delete_missing_key", "delete(m, 77)\nr = uint64(len(m))"),
		c("len_of_map", "r = uint64(len(m))"),
		c("len_of_string_const", "r = uint64(len(\"abc\"))"),
		c("cap_of_make", "ys := make([]uint64, 2)\nr = uint64(cap(ys))"),
		// fields of function type are fields, not methods
		c("func_field_value", "fs := FS{fn: mkAdder(1)}\ng := fs.fn\nr = g(x)"),
		c("func_field_call", "fs := FS{fn: mkAdder(1)}\nr = fs.fn(x)"),
		c("func_field_ptr_value", "fs := &FS{fn: mkAdder(2)}\ng := fs.fn\nr = g(x)"),
		c("func_field_store", "fs := &FS{}\nfs.fn = mkAdder(3)\ng := fs.fn\nr = g(x)"),
		// the copy idioms: the result must not alias its source
		c("append_to_empty_lit_spread", "us := append([]uint64{}, xs...)\nus[0] = 99\nr = xs[0] + us[0]"),
		c("append_to_nil_conv_spread", "us := append([]uint64(nil), xs...)\nus[0] = 99\nr = xs[0] + us[0]"),
		c("append_to_nil_var_spread", "var e []uint64\nus := append(e, xs...)\nus[0] = 99\nr = xs[0] + us[0]"),
		c("append_to_nil_spread", "var us []uint64\nus = append(us, xs...)\nus[1] = 98\nr = xs[1] + us[1]"),
		c("append_to_empty_make_spread", "us := append(make([]uint64, 0), xs...)\nus[0] = 99\nr = xs[0] + us[0]"),
		c("append_one_to_nil", "var us []uint64\nus = append(us, x)\nr = us[0] + uint64(len(us))"),
		c("type_assert", "var ifc interface{} = x\nr = ifc.(uint64)"),
		c("type_assert_commaok", "var ifc interface{} = x\nv, ok := ifc.(uint64)\nr = v\nrb = ok"),
		c("type_switch", "var ifc interface{} = x\nswitch v := ifc.(type) {\ncase uint64:\n\tr = v\n}"),
		c("anon_struct", "var an struct {\n\tu uint64\n}\nan.u = x\nr = an.u"),
		cd("embedded_field", "type Emb struct {\n\tS2\n\tc uint64\n}\n", "q := Emb{c: x}\nr = q.a + q.c"),
		cd("named_result", "func namedRes(x uint64) (res uint64) {\n\tres = x + 1\n\treturn\n}\n", "r = namedRes(x)"),
		cd("variadic", "func variadic(vs ...uint64) uint64 {\n\treturn uint64(len(vs))\n}\n", "r = variadic(x, y)"),
		cd("named_slice_type_append", "type NL []uint64\n", "var l NL\nl = append(l, x)\nr = l[0]"),
		cd("named_slice_type_index", "type NL2 []uint64\n", "l := NL2(xs)\nr = l[1]\nl[0] = 5"),
		cd("named_map_bool_value", "type NMB map[uint64]bool\n", "nm := make(NMB)\nnm[1] = true\nrb = nm[7]\nr = b2u(nm[1])"),
		cd("named_map_struct_value", "type NMS map[uint64]S2\n", "nm := make(NMS)\nnm[1] = S2{a: x, b: 2}\nq := nm[7]\nr = q.a + q.b + nm[1].b"),
		cd("named_map_string_key", "type NMK map[string]uint64\n", "nm := make(NMK)\nnm[s] = 3\nr = nm[s] + nm[\"zz\"]"),
		cd("named_map_made_used_plain_bool", "type NMB2 map[uint64]bool\n\nfunc newNMB2() map[uint64]bool {\n\treturn make(NMB2)\n}\n", "nm := newNMB2()\nnm[1] = true\nrb = nm[7]\nr = b2u(nm[1])"),
		cd("named_map_made_used_plain_struct", "type NMS2 map[uint64]S2\n\nfunc newNMS2() map[uint64]S2 {\n\treturn make(NMS2)\n}\n", "nm := newNMS2()\nnm[1] = S2{a: x, b: 2}\nq := nm[7]\nq1 := nm[1]\nr = q.a + q.b + q1.b"),
		cd("named_slice_made_used_plain", "type NSL2 []uint32\n\nfunc newNSL2() []uint32 {\n\treturn make(NSL2, 2)\n}\n", "ns := newNSL2()\nns[1] = w\nr32 = ns[0] + ns[1]"),
		cd("named_map_type", "type NM map[uint64]uint64\n", "nm := make(NM)\nnm[1] = x\ndelete(nm, 2)\nr = nm[1]"),
		cd("named_ptr_type", "type NP *uint64\n", "var np NP = p\nr = *np"),
		cd("generic_func", "func genId[T any](v T) T {\n\treturn v\n}\n", "r = genId[uint64](x)"),
		cd("multi_field_decl", "type MF struct {\n\tu, v uint64\n}\n", "q := MF{u: x}\nr = q.u + q.v"),
		c("nil_map", "var mm map[uint64]uint64\nrb = mm == nil"), c("nil_func", "var fn func()\nrb = fn == nil"),
		c("nil_slice_assign", "var zsl []uint64\nzsl = nil\nr = uint64(len(zsl))"),
		c("nil_ptr_return_arg", "setF(sp, x)\nvar zp *S\nzp = nil\nrb = zp == nil"),
		c("chan_make", "ch := make(chan uint64, 1)\nch <- x\nr = <-ch"),
		c("select_stmt", "ch := make(chan uint64, 1)\nch <- x\nselect {\ncase v := <-ch:\n\tr = v\n}"),
		c("map_struct_key", "mk := make(map[S2]uint64)\nmk[S2{a: x}] = y\nr = mk[S2{a: x}]"),
		c("map_bool_key", "mb := make(map[bool]uint64)\nmb[t] = x\nr = mb[t]"),
		c("addr_of_deref", "q := &*p\n*q = x\nr = *p"), c("addr_of_slice_lit", "q := &[]uint64{x}\nr = (*q)[0]"),
		c("paren_lhs", "(a) = x"),
		c("shift_const", "r = x << 3"),
		c("copy_from_string", "bs := make([]byte, 2)\nr = uint64(copy(bs, s))"),
		c("append_string_spread", "bs := make([]byte, 0)\nbs = append(bs, s...)\nr = uint64(len(bs))"),
		c("cap_after_append", "zs := make([]uint64, 1)\nzs = append(zs, x)\nr = uint64(cap(zs))"),
		c("compare_slice_nil", "var zsl []uint64\nrb = zsl == nil"),
		c("struct_compare_nested", "rb = sv.in == sp.in"),
		c("new_slice", "q := new([]uint64)\n*q = append(*q, x)\nr = (*q)[0]"),
		c("len_of_deref_slice", "q := &xs\nr = uint64(len(*q))"),
		c("closure_modifies_define_local", "z := x\nfn := func() uint64 {\n\treturn z + 1\n}\nr = fn()"),
		c("global_var_assign", "G1 = x\nr = G1"),
		c("method_on_field", "r = sp.in.hv()"),
		c("println_builtin", "println(x)\nr = x"),
		c("min_builtin", "r = min(x, y)"), c("clear_builtin", "clear(m)\nr = uint64(len(m))"),
		// builtins recognised by spelling, with operands that have effects (a translation that duplicates or reorders an operand shows)
		c("min_effect_operand", "r = min(bumpVal(p), y+5)"), c("max_effect_operand", "r = max(x, bumpVal(p))"),
		c("max_three", "r = max(x, y, 3)"), c("min_three_effect", "r = min(bumpVal(p), bumpVal(p)+1, 9)"),
		// writes to := bound (immutable) names inside a nested scope: a re-binding would not escape the scope
		c("inc_define_local_in_if", "z := x\nif t || x < 50 {\n\tz++\n}\nr = z"),
		c("inc_define_local_in_loop", "z := x\nfor ci := uint64(0); ci < 3; ci++ {\n\tz++\n}\nr = z"),
		c("dec_define_local_in_else", "z := x + 5\nif x > 1000 {\n\tr = 1\n} else {\n\tz--\n}\nr = z"),
		c("assign_define_local", "z := x\nz = y + 2\nr = z"),
		c("assign_define_local_in_if", "z := x\nif t || x < 50 {\n\tz = y + 2\n}\nr = z"),
		c("assign_define_local_in_loop", "z := x\nfor ci := uint64(0); ci < 3; ci++ {\n\tz = z + ci\n}\nr = z"),
		c("opassign_define_local_in_range", "z := x\nfor _, cv := range xs {\n\tz += cv + 1\n}\nr = z"),
		c("assign_param_in_if", "if t || x < 50 {\n\tx = x + 3\n}\nr = x"),
		c("inc_param_in_loop", "for ci := uint64(0); ci < 3; ci++ {\n\ty++\n}\nr = y"),
		c("assign_define_local_in_closure", "z := x\nfn := func() {\n\tz = z + 1\n}\nfn()\nr = z"),
		c("assign_multidefine_in_if", "z, ok := two(x)\nif ok || t {\n\tz = z + 4\n}\nr = z"),
		c("assign_rangevar_in_body", "for _, cv := range xs {\n\tcv = cv + 1\n\tr += cv\n}"),
	}
	return append(out, controlShapeForms()...)
}

// controlShapeForms: every jump (break, continue, return) x the branch of an
// if statement it sits in (then, else, else-if with and without a final else,
// nested if, both branches) x loop kind (three-clause, condition-only, range,
// condition-less with its exit nested in an if, none for return) x whether statements follow the if.  Whatever the
// translator accepts has to behave like Go.
func controlShapeForms() []Form {
	type loop struct{ id, tmpl, cv string }
	loops := []loop{
		{"for3", "for ci := uint64(0); ci < 4; ci++ {\n$\n}", "ci"},
		{"forcond", "var ci uint64 = 0\nfor ci < 4 {\n\tci = ci + 1\n$\n}", "ci"},
		{"range", "for _, cv := range ts {\n$\n}", "cv.b"},
		{"forever", "var ci uint64 = 0\nfor {\n\tci = ci + 1\n\tif ci > 3 {\n\t\tbreak\n\t}\n$\n}", "ci"},
		{"noloop", "$", "x"},
	}
	shapes := [][2]string{
		{"then", "if C == 1 {\n\tr += 10\n\tJ\n}"},
		{"else", "if C != 1 {\n\tr += 100\n} else {\n\tr += 10\n\tJ\n}"},
		{"elseif", "if C == 0 {\n\tr += 100\n} else if C == 1 {\n\tr += 10\n\tJ\n}"},
		{"elseif_else", "if C == 0 {\n\tr += 100\n} else if C == 1 {\n\tJ\n} else {\n\tr += 1000\n}"},
		{"nested", "if C > 0 {\n\tif C == 1 {\n\t\tJ\n\t}\n\tr += 100\n}"},
		{"both", "if C == 1 {\n\tJ\n} else {\n\tr += 7\n}"},
	}
	var out []Form
	for _, l := range loops {
		for _, j := range [][2]string{{"break", "break"}, {"continue", "continue"}, {"return", retStmt}} {
			if l.id == "noloop" && j[0] != "return" {
				continue
			}
			for _, sh := range shapes {
				for _, tail := range []bool{false, true} {
					body := strings.ReplaceAll(strings.ReplaceAll(sh[1], "C", l.cv), "J", j[1])
					id := "ctl_" + l.id + "_" + j[0] + "_" + sh[0]
					if !tail {
						body += "\nr += 1"
						id += "_then_more"
					}
					if l.id != "noloop" {
						body = indent(body, 1)
					}
					out = append(out, Form{ID: id, Code: strings.Replace(l.tmpl, "$", body, 1), Family: "catalogue"})
				}
			}
		}
	}
	return out
}

// CrashForms: type shapes and constructs that exercise unchecked type
// assertions and helper panics of the translator (C07).
func CrashForms() []Form {
	cd := func(id, decls, code string) Form { return Form{ID: id, Code: code, Family: "crash", Decls: decls} }
	c := func(id, code string) Form { return Form{ID: id, Code: code, Family: "crash"} }
	return []Form{
		cd("named_slice_lit_empty", "type CL []uint64\n", "l := CL{}\nr = uint64(len(l))"),
		cd("named_slice_lit_one", "type CL1 []uint64\n", "l := CL1{x}\nr = l[0]"),
		cd("named_slice_copy", "type CL2 []uint64\n", "l := make(CL2, 2)\nr = uint64(copy(l, xs))"),
		cd("named_slice_append", "type CL3 []uint64\n", "l := make(CL3, 0)\nl2 := append(l, x)\nr = l2[0]"),
		cd("named_slice_slice", "type CL4 []uint64\n", "l := CL4(xs)\nl2 := l[1:]\nr = l2[0]"),
		cd("named_slice_range", "type CL5 []uint64\n", "l := CL5(xs)\nfor _, v := range l {\n\tr += v\n}"),
		cd("named_map_range", "type CM map[uint64]uint64\n", "cm := CM(m)\nfor k := range cm {\n\tr += k\n}"),
		cd("named_ptr_deref_assign", "type CP *uint64\n", "var np CP = p\n*np = x"),
		cd("named_struct_ptr", "type CSP *S\n", "var np CSP = sp\nr = np.f"),
		cd("five_results", "func five(x uint64) (uint64, uint64, uint64, uint64, bool) {\n\treturn x, x, x, x, true\n}\n", "q1, q2, q3, q4, q5 := five(x)\nr = q1 + q2 + q3 + q4\nrb = q5"),
		cd("five_results_assign", "func five2(x uint64) (uint64, uint64, uint64, uint64, bool) {\n\treturn x, x, x, x, true\n}\n", "r, a, r, a, rb = five2(x)"),
		cd("generic_method_call", "type GI interface {\n\tgm() uint64\n}\n\nfunc callGm[T GI](v T) uint64 {\n\treturn v.gm()\n}\n\nfunc (s S2) gm() uint64 {\n\treturn s.a\n}\n", "r = callGm[S2](S2{a: x})"),
		cd("generic_struct", "type GBox[T any] struct {\n\tv T\n}\n", "gb := GBox[uint64]{v: x}\nr = gb.v"),
		cd("method_on_named_int", "type NI uint64\n\nfunc (n NI) dbl() uint64 {\n\treturn uint64(n) * 2\n}\n", "r = NI(x).dbl()"),
		cd("method_value_named_int", "type NI2 uint64\n\nfunc (n NI2) dbl() uint64 {\n\treturn uint64(n) * 2\n}\n", "ni := NI2(x)\nfv := ni.dbl\nr = fv()"),
		cd("interface_method_call", "type CI interface {\n\tcm() uint64\n}\n\nfunc (s S2) cm() uint64 {\n\treturn s.b\n}\n\nfunc useCI(i CI) uint64 {\n\treturn i.cm()\n}\n", "r = useCI(S2{b: x})"),
		cd("interface_ptr_impl", "type CI2 interface {\n\tcm2() uint64\n}\n\nfunc (s *S2) cm2() uint64 {\n\treturn s.b\n}\n\nfunc useCI2(i CI2) uint64 {\n\treturn i.cm2()\n}\n", "r = useCI2(&S2{b: x})"),
		cd("interface_basic_arg", "func useAny(i interface{}) uint64 {\n\treturn 1\n}\n", "r = useAny(x)"),
		cd("interface_embedded", "type CI3 interface {\n\tCI3a\n}\n\ntype CI3a interface {\n\tm3() uint64\n}\n", "var i3 CI3\nrb = i3 == nil"),
		c("string_index_assign_bytes", "bs := []byte(s)\nif len(bs) > 0 {\n\tbs[0] = s[0]\n}\nr = uint64(len(bs))"),
		c("len_of_string_slice", "r = uint64(len(s[0:]))"),
		c("array_of_struct", "var arr [2]S2\narr[0].a = x\nr = arr[0].a"),
		c("ptr_to_array", "arr := new([2]uint64)\narr[1] = x\nr = arr[1]"),
		c("slice_of_slice_index", "ys := make([][]uint64, 1)\nys[0] = xs\nr = ys[0][1]"),
		c("map_of_slices", "ms := make(map[uint64][]uint64)\nms[1] = xs\nr = ms[1][0]"),
		c("map_of_maps", "mm := make(map[uint64]map[uint64]uint64)\nmm[1] = m\nr = mm[1][1]"),
		c("struct_with_func_field_call", "fs := FS{fn: mkAdder(1)}\nr = fs.fn(x)"),
		c("closure_returning_closure", "mk := func() func() uint64 {\n\treturn func() uint64 {\n\t\treturn x\n\t}\n}\nr = mk()()"),
		c("complex_literal", "var cz complex128 = 1i\n_ = cz\nr = x"),
		c("rune_arith", "ru := rune(c)\nr = uint64(ru + 1)"),
		c("uintptr_conv", "r = uint64(uintptr(x))"),
		c("else_if_after_early_return", "if t {\n\tr = 1\n\treturn "+retVars+"\n} else if x == 0 {\n\ta = 4\n}\na = a + 1"),
		c("new_of_named", "ni := new(S2)\nni.a = x\nr = ni.a"),
		c("select_default", "ch := make(chan uint64)\nselect {\ncase v := <-ch:\n\tr = v\ndefault:\n\tr = x\n}"),
		c("defer_closure", "defer func() {\n\tr = 1\n}()\nr = x"),
		c("label_unused_loop", "lbl:\n\tfor i := uint64(0); i < 2; i++ {\n\t\tr += i\n\t\tcontinue lbl\n\t}"),
		// empty and degenerate declaration groups, user functions shadowing builtins, function-typed fields
		c("empty_var_group", "var ()\nr = x"),
		c("empty_const_group", "const ()\nr = x"),
		c("empty_type_group", "type ()\nr = x"),
		cd("toplevel_empty_type_group", "type ()\n", "r = x"),
		cd("toplevel_type_group_two", "type (\n\tTG1 struct {\n\t\tv uint64\n\t}\n\tTG2 struct {\n\t\tv uint64\n\t}\n)\n", "q := TG1{v: x}\nr = q.v"),
		cd("promoted_func_field_call", "type PF0 struct {\n\tf func() uint64\n}\n\ntype PF1 struct {\n\tPF0\n}\n", "o := PF1{}\nif o.f != nil {\n\tr = o.f()\n}"),
		c("anon_struct_func_field_call", "var an struct {\n\tf func() uint64\n}\nif an.f != nil {\n\tr = an.f()\n}"),
		cd("func_field_ptr_call", "type FF struct {\n\tf func(uint64) uint64\n}\n", "o := &FF{f: mkAdder(1)}\nr = o.f(x)"),
		cd("method_value_of_embedded", "type EB0 struct {\n\tv uint64\n}\n\nfunc (e EB0) get() uint64 {\n\treturn e.v\n}\n\ntype EB1 struct {\n\tEB0\n}\n", "o := EB1{}\nr = o.get()"),
		c("nested_func_literal_call_arg", "r = apply(func(z uint64) uint64 {\n\tfn := func() uint64 {\n\t\treturn z\n\t}\n\treturn fn()\n}, x)"),
	}
}
