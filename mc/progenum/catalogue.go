package progenum

// CatalogueForms: constructs outside (or at the edge of) the supported subset.
// Oracle per declaration: rejected, or accepted-and-faithful.
func CatalogueForms() []Form {
	c := func(id, code string) Form { return Form{ID: id, Code: code, Family: "catalogue"} }
	return []Form{
		c("mul_assign", "a *= x"), c("quo_assign", "a /= (y | 1)"), c("rem_assign", "a %= (y | 1)"),
		c("shl_assign", "a <<= (y % 8)"), c("shr_assign", "a >>= (y % 8)"), c("andnot_assign", "a &^= y"),
		c("andnot_op", "r = x &^ y"),
	}
}
