// Package progenum is the bounded-exhaustive program enumerator: programs are
// built from structured descriptors (position x form), deterministically and
// independently of /repo, so descriptor ids are stable across runs.
package progenum

import (
	"fmt"
	"sort"
	"strings"

	"verif/gl"
)

// GT describes a Go type for the canonical dump (both sides use the same description).
type GT struct {
	K      string // u64 u32 u8 bool string ptr slice map struct func
	Elem   *GT
	Key    *GT
	Name   string
	Fields []GF
}
type GF struct {
	Name string
	T    *GT
}

var (
	TU64  = &GT{K: "u64"}
	TU32  = &GT{K: "u32"}
	TU8   = &GT{K: "u8"}
	TBool = &GT{K: "bool"}
	TStr  = &GT{K: "string"}
	TIn   = &GT{K: "struct", Name: "In", Fields: []GF{{"h", TU64}, {"k", TBool}}}
	TS    = &GT{K: "struct", Name: "S", Fields: []GF{{"f", TU64}, {"g", TU64}, {"in", TIn}}}
	TS2   = &GT{K: "struct", Name: "S2", Fields: []GF{{"a", TU64}, {"b", TU64}}}
)

func Ptr(t *GT) *GT    { return &GT{K: "ptr", Elem: t} }
func Slice(t *GT) *GT  { return &GT{K: "slice", Elem: t} }
func Map(k, v *GT) *GT { return &GT{K: "map", Key: k, Elem: v} }

// glTy converts to the interpreter's type (for loads through pointers / slices).
func glSize(t *GT) int {
	switch t.K {
	case "slice":
		return 3
	case "struct":
		n := 0
		for _, f := range t.Fields {
			n += glSize(f.T)
		}
		return n
	}
	return 1
}

type dumper struct {
	in   *gl.Interp
	seen map[string]int
}

// DumpGL renders a GooseLang value at a Go type in the canonical format.
func DumpGL(in *gl.Interp, v gl.Val, t *GT) string {
	d := &dumper{in: in, seen: map[string]int{}}
	return d.dump(v, t)
}

// DumpGLTuple renders a left-nested tuple of results.
func DumpGLTuple(in *gl.Interp, v gl.Val, ts []*GT) string {
	d := &dumper{in: in, seen: map[string]int{}}
	vals := make([]gl.Val, len(ts))
	cur := v
	for i := len(ts) - 1; i >= 1; i-- {
		p, ok := cur.(gl.VPair)
		if !ok {
			return "!not-a-" + fmt.Sprint(len(ts)) + "-tuple(" + gl.Show(v) + ")"
		}
		vals[i] = p.B
		cur = p.A
	}
	vals[0] = cur
	var parts []string
	for i, t := range ts {
		parts = append(parts, d.dump(vals[i], t))
	}
	return strings.Join(parts, " ; ")
}

func (d *dumper) cells(l gl.VLoc, n int) ([]gl.Val, bool) {
	if l.B == nil || l.Off < 0 || l.Off+n > len(l.B.Cells) {
		return nil, false
	}
	return l.B.Cells[l.Off : l.Off+n], true
}

// rebuild a value of type t from flat cells
func (d *dumper) fromCells(c []gl.Val, t *GT) gl.Val {
	switch t.K {
	case "slice":
		return gl.VPair{A: gl.VPair{A: c[0], B: c[1]}, B: c[2]}
	case "struct":
		var build func(fs []GF, off int) gl.Val
		build = func(fs []GF, off int) gl.Val {
			if len(fs) == 0 {
				return gl.VUnit{}
			}
			n := glSize(fs[0].T)
			return gl.VPair{A: d.fromCells(c[off:off+n], fs[0].T), B: build(fs[1:], off+n)}
		}
		return build(t.Fields, 0)
	}
	return c[0]
}

func (d *dumper) dump(v gl.Val, t *GT) string {
	switch t.K {
	case "u64", "u32", "u8":
		w := map[string]int{"u64": 64, "u32": 32, "u8": 8}[t.K]
		i, ok := v.(gl.VInt)
		if !ok || i.W != w {
			return "!want-" + t.K + "(" + gl.Show(v) + ")"
		}
		return fmt.Sprint(i.N)
	case "bool":
		b, ok := v.(gl.VBool)
		if !ok {
			return "!want-bool(" + gl.Show(v) + ")"
		}
		return fmt.Sprint(bool(b))
	case "string":
		s, ok := v.(gl.VStr)
		if !ok {
			return "!want-string(" + gl.Show(v) + ")"
		}
		return fmt.Sprintf("%q", string(s))
	case "struct":
		var parts []string
		cur := v
		for _, f := range t.Fields {
			p, ok := cur.(gl.VPair)
			if !ok {
				return "!want-struct-" + t.Name + "(" + gl.Show(v) + ")"
			}
			parts = append(parts, f.Name+":"+d.dump(p.A, f.T))
			cur = p.B
		}
		if _, ok := cur.(gl.VUnit); !ok {
			return "!want-struct-" + t.Name + "(" + gl.Show(v) + ")"
		}
		return "{" + strings.Join(parts, " ") + "}"
	case "ptr":
		l, ok := v.(gl.VLoc)
		if !ok {
			return "!want-pointer(" + gl.Show(v) + ")"
		}
		if l.B == nil {
			return "nil"
		}
		key := fmt.Sprintf("%d+%d", l.B.ID, l.Off)
		if n, ok := d.seen[key]; ok {
			return fmt.Sprintf("@%d", n)
		}
		n := len(d.seen) + 1
		d.seen[key] = n
		c, ok := d.cells(l, glSize(t.Elem))
		if !ok {
			return fmt.Sprintf("&%d!dangling", n)
		}
		return fmt.Sprintf("&%d%s", n, d.wrap(d.dump(d.fromCells(c, t.Elem), t.Elem)))
	case "slice":
		p1, ok := v.(gl.VPair)
		if !ok {
			return "!want-slice(" + gl.Show(v) + ")"
		}
		p2, ok := p1.A.(gl.VPair)
		if !ok {
			return "!want-slice(" + gl.Show(v) + ")"
		}
		l, lok := p2.A.(gl.VLoc)
		n, nok := p2.B.(gl.VInt)
		if !lok || !nok {
			return "!want-slice(" + gl.Show(v) + ")"
		}
		sz := glSize(t.Elem)
		var parts []string
		for i := 0; i < int(n.N); i++ {
			c, ok := d.cells(gl.VLoc{B: l.B, Off: l.Off + i*sz}, sz)
			if !ok {
				parts = append(parts, "!out-of-block")
				break
			}
			parts = append(parts, d.dump(d.fromCells(c, t.Elem), t.Elem))
		}
		return "[" + strings.Join(parts, " ") + "]"
	case "map":
		l, ok := v.(gl.VLoc)
		if !ok {
			return "!want-map(" + gl.Show(v) + ")"
		}
		if l.B == nil {
			return "map[]"
		}
		c, ok := d.cells(l, 1)
		if !ok {
			return "!want-map(dangling)"
		}
		m, ok := c[0].(gl.VMap)
		if !ok {
			return "!want-map(" + gl.Show(c[0]) + ")"
		}
		var parts []string
		for i := range m.Keys {
			parts = append(parts, d.dump(m.Keys[i], t.Key)+":"+d.dump(m.Vals[i], t.Elem))
		}
		sort.Strings(parts)
		return "map[" + strings.Join(parts, " ") + "]"
	case "func":
		return "<func>"
	}
	return "!unknown-type"
}

func (d *dumper) wrap(s string) string { return "(" + s + ")" }
