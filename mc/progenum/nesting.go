package progenum

import "fmt"

// NestingForms: every parent/child/side combination of the binary operators
// (and the unary, call-argument, index, conversion, store and condition
// contexts) so that a printer that drops or misplaces parentheses changes the
// value on some input (C05: the nesting read with Coq's precedence is the Go nesting).
func NestingForms(tier string) []Form {
	var out []Form
	n := func(id, code string) { out = append(out, Form{ID: "nest_" + id, Code: code, Family: "nesting"}) }
	type op struct{ name, tok string }
	arith := []op{{"add", "+"}, {"sub", "-"}, {"mul", "*"}, {"quo", "/"}, {"rem", "%"}, {"and", "&"}, {"or", "|"}, {"xor", "^"}, {"shl", "<<"}, {"shr", ">>"}}
	cmps := []op{{"lt", "<"}, {"le", "<="}, {"gt", ">"}, {"ge", ">="}, {"eq", "=="}, {"ne", "!="}}
	bools := []op{{"land", "&&"}, {"lor", "||"}}
	// operand values: z is a third value; divisors are made non-zero, shift counts small
	safe := func(o op, rhs string) string {
		switch o.name {
		case "quo", "rem":
			return "(" + rhs + " | 1)"
		case "shl", "shr":
			return "(" + rhs + " % 7)"
		}
		return rhs
	}
	pre := "z := uint64(c) + 2\n_ = z\n"
	for _, p := range arith {
		for _, ch := range arith {
			// child on the left / on the right of the parent
			n(fmt.Sprintf("arith_%s_of_%s_left", p.name, ch.name), pre+fmt.Sprintf("r = (x %s %s) %s %s", ch.tok, safe(ch, "y"), p.tok, safe(p, "z")))
			n(fmt.Sprintf("arith_%s_of_%s_right", p.name, ch.name), pre+fmt.Sprintf("r = x %s %s", p.tok, safe(p, fmt.Sprintf("(y %s %s)", ch.tok, safe(ch, "z")))))
		}
	}
	for _, p := range cmps {
		for _, ch := range arith {
			n(fmt.Sprintf("cmp_%s_of_%s_left", p.name, ch.name), pre+fmt.Sprintf("rb = (x %s %s) %s z", ch.tok, safe(ch, "y"), p.tok))
			n(fmt.Sprintf("cmp_%s_of_%s_right", p.name, ch.name), pre+fmt.Sprintf("rb = x %s (y %s %s)", p.tok, ch.tok, safe(ch, "z")))
		}
	}
	for _, p := range bools {
		for _, c1 := range cmps {
			for _, c2 := range cmps[:3] {
				n(fmt.Sprintf("bool_%s_of_%s_%s", p.name, c1.name, c2.name), pre+fmt.Sprintf("rb = (x %s y) %s (y %s z)", c1.tok, p.tok, c2.tok))
			}
		}
		for _, q := range bools {
			n(fmt.Sprintf("bool_%s_of_%s_left", p.name, q.name), pre+fmt.Sprintf("rb = (t %s (x < y)) %s (z < x)", q.tok, p.tok))
			n(fmt.Sprintf("bool_%s_of_%s_right", p.name, q.name), pre+fmt.Sprintf("rb = t %s ((x < y) %s (z < x))", p.tok, q.tok))
		}
		n("boolcmp_eq_of_"+p.name, pre+fmt.Sprintf("rb = (t %s (x < y)) == (z < x)", p.tok))
		n("not_of_"+p.name, pre+fmt.Sprintf("rb = !(t %s (x < y))", p.tok))
		n(p.name+"_of_not", pre+fmt.Sprintf("rb = !t %s (x < y)", p.tok))
	}
	for _, ch := range arith {
		n("bitnot_of_"+ch.name, pre+fmt.Sprintf("r = ^(x %s %s)", ch.tok, safe(ch, "y")))
		n(ch.name+"_of_bitnot", pre+fmt.Sprintf("r = ^x %s %s", ch.tok, safe(ch, "y")))
		n("callarg_"+ch.name, pre+fmt.Sprintf("r = addBoth(x %s %s, y %s %s)", ch.tok, safe(ch, "y"), ch.tok, safe(ch, "z")))
		n("index_"+ch.name, pre+fmt.Sprintf("r = xs[(x %s %s) %% 3]", ch.tok, safe(ch, "z")))
		n("deref_"+ch.name, pre+fmt.Sprintf("r = *p %s %s", ch.tok, safe(ch, "z")))
		n("deref_right_"+ch.name, pre+fmt.Sprintf("r = z %s %s", ch.tok, safe(ch, "*p")))
		n("field_"+ch.name, pre+fmt.Sprintf("r = sp.f %s %s", ch.tok, safe(ch, "sv.in.h")))
		n("conv_inner_"+ch.name, pre+fmt.Sprintf("r = uint64(uint32(x) %s %s) + 1", ch.tok, safe(ch, "w")))
		n("conv_outer_"+ch.name, pre+fmt.Sprintf("r = uint64(uint32(x)) %s %s", ch.tok, safe(ch, "uint64(w)")))
		n("store_rhs_"+ch.name, pre+fmt.Sprintf("*p = x %s %s\nsp.f = y %s %s\nxs[0] = z %s %s", ch.tok, safe(ch, "y"), ch.tok, safe(ch, "z"), ch.tok, safe(ch, "x")))
		n("ifcond_"+ch.name, pre+fmt.Sprintf("if (x %s %s) < z {\n\tr = 1\n} else {\n\tr = 2\n}", ch.tok, safe(ch, "y")))
		n("structlit_"+ch.name, pre+fmt.Sprintf("q := S2{a: x %s %s, b: z}\nr = q.a - q.b", ch.tok, safe(ch, "y")))
		n("slice_bounds_"+ch.name, pre+fmt.Sprintf("ys := xs[(x %s %s) %% 2 : 2]\nr = uint64(len(ys))", ch.tok, safe(ch, "z")))
		n("len_arith_"+ch.name, pre+fmt.Sprintf("r = uint64(len(xs)) %s %s", ch.tok, safe(ch, "z")))
		n("map_index_"+ch.name, pre+fmt.Sprintf("r = m[(x %s %s) %% 2] + 1", ch.tok, safe(ch, "z")))
		n("tuple_"+ch.name, pre+fmt.Sprintf("q1, q2 := two(x %s %s)\nr = q1\nrb = q2", ch.tok, safe(ch, "z")))
		n("append_arg_"+ch.name, pre+fmt.Sprintf("xs = append(xs, x %s %s)", ch.tok, safe(ch, "z")))
	}
	n("str_concat_nested", "rs = (s + \"a\") + (s + \"b\")")
	n("str_eq_of_concat", "rb = s+\"a\" == \"a\"+s")
	n("if_in_seq", pre+"if x < y {\n\tr = 1\n}\nr = r + z")
	n("closure_call_in_arith", pre+"r = apply(func(q uint64) uint64 {\n\treturn q - z\n}, x) - y")
	if tier == "thorough" {
		sub := []op{arith[1], arith[3], arith[4], arith[8], arith[9]}
		for _, a := range sub {
			for _, b := range sub {
				for _, c := range sub {
					n(fmt.Sprintf("d3_%s_%s_%s_ll", a.name, b.name, c.name), pre+fmt.Sprintf("r = ((x %s %s) %s %s) %s %s", c.tok, safe(c, "y"), b.tok, safe(b, "z"), a.tok, safe(a, "y")))
					n(fmt.Sprintf("d3_%s_%s_%s_rr", a.name, b.name, c.name), pre+fmt.Sprintf("r = x %s %s", a.tok, safe(a, fmt.Sprintf("(y %s %s)", b.tok, safe(b, fmt.Sprintf("(z %s %s)", c.tok, safe(c, "x")))))))
					n(fmt.Sprintf("d3_%s_%s_%s_lr", a.name, b.name, c.name), pre+fmt.Sprintf("r = (x %s %s) %s %s", b.tok, safe(b, fmt.Sprintf("(y %s %s)", c.tok, safe(c, "z"))), a.tok, safe(a, "z")))
				}
			}
		}
	}
	return out
}
