package progenum

import (
	"fmt"
	"strings"
)

// NestingForms: every parent/child/side combination of the binary operators
// (and the unary, call-argument, index, conversion, store and condition
// contexts) so that a printer that drops or misplaces parentheses changes the
// value on some input (C05: the nesting read with Coq's precedence is the Go nesting).
func NestingForms(tier string) []Form {
	var out []Form
	n := func(id, code string) { out = append(out, Form{ID: "nest_" + id, Code: code, Family: "nesting"}) }
	type op struct{ name, tok string }
	arith := []op{{"add", "+"}, {"sub", "-"}, {"mul", "*"}, {"quo", "/"}, {"rem", "%"}, {"and", "&"}, {"or", "|"}, {"xor", "^"}, {"shl", "<<"}, {"shr", ">>"}}
	cmps := []op{{"lt", "<"}, {"le", "<="}, {"gt", ">"}, {"ge", ">="}, {"eq", "=="}, {"ne", "!="}}
	bools := []op{{"land", "&&"}, {"lor", "||"}}
	// operand values: z is a third value; divisors are made non-zero, shift counts small
	safe := func(o op, rhs string) string {
		switch o.name {
		case "quo", "rem":
			return "(" + rhs + " | 1)"
		case "shl", "shr":
			return "(" + rhs + " % 7)"
		}
		return rhs
	}
	pre := "z := uint64(c) + 2\n_ = z\n"
	for _, p := range arith {
		for _, ch := range arith {
			// child on the left / on the right of the parent
			n(fmt.Sprintf("arith_%s_of_%s_left", p.name, ch.name), pre+fmt.Sprintf("r = (x %s %s) %s %s", ch.tok, safe(ch, "y"), p.tok, safe(p, "z")))
			n(fmt.Sprintf("arith_%s_of_%s_right", p.name, ch.name), pre+fmt.Sprintf("r = x %s %s", p.tok, safe(p, fmt.Sprintf("(y %s %s)", ch.tok, safe(ch, "z")))))
		}
	}
	for _, p := range cmps {
		for _, ch := range arith {
			n(fmt.Sprintf("cmp_%s_of_%s_left", p.name, ch.name), pre+fmt.Sprintf("rb = (x %s %s) %s z", ch.tok, safe(ch, "y"), p.tok))
			n(fmt.Sprintf("cmp_%s_of_%s_right", p.name, ch.name), pre+fmt.Sprintf("rb = x %s (y %s %s)", p.tok, ch.tok, safe(ch, "z")))
		}
	}
	for _, p := range bools {
		for _, c1 := range cmps {
			for _, c2 := range cmps[:3] {
				n(fmt.Sprintf("bool_%s_of_%s_%s", p.name, c1.name, c2.name), pre+fmt.Sprintf("rb = (x %s y) %s (y %s z)", c1.tok, p.tok, c2.tok))
			}
		}
		for _, q := range bools {
			n(fmt.Sprintf("bool_%s_of_%s_left", p.name, q.name), pre+fmt.Sprintf("rb = (t %s (x < y)) %s (z < x)", q.tok, p.tok))
			n(fmt.Sprintf("bool_%s_of_%s_right", p.name, q.name), pre+fmt.Sprintf("rb = t %s ((x < y) %s (z < x))", p.tok, q.tok))
		}
		n("boolcmp_eq_of_"+p.name, pre+fmt.Sprintf("rb = (t %s (x < y)) == (z < x)", p.tok))
		n("not_of_"+p.name, pre+fmt.Sprintf("rb = !(t %s (x < y))", p.tok))
		n(p.name+"_of_not", pre+fmt.Sprintf("rb = !t %s (x < y)", p.tok))
	}
	for _, ch := range arith {
		n("bitnot_of_"+ch.name, pre+fmt.Sprintf("r = ^(x %s %s)", ch.tok, safe(ch, "y")))
		n(ch.name+"_of_bitnot", pre+fmt.Sprintf("r = ^x %s %s", ch.tok, safe(ch, "y")))
		n("callarg_"+ch.name, pre+fmt.Sprintf("r = addBoth(x %s %s, y %s %s)", ch.tok, safe(ch, "y"), ch.tok, safe(ch, "z")))
		n("index_"+ch.name, pre+fmt.Sprintf("r = xs[(x %s %s) %% 3]", ch.tok, safe(ch, "z")))
		n("deref_"+ch.name, pre+fmt.Sprintf("r = *p %s %s", ch.tok, safe(ch, "z")))
		n("deref_right_"+ch.name, pre+fmt.Sprintf("r = z %s %s", ch.tok, safe(ch, "*p")))
		n("field_"+ch.name, pre+fmt.Sprintf("r = sp.f %s %s", ch.tok, safe(ch, "sv.in.h")))
		n("conv_inner_"+ch.name, pre+fmt.Sprintf("r = uint64(uint32(x) %s %s) + 1", ch.tok, safe(ch, "w")))
		n("conv_outer_"+ch.name, pre+fmt.Sprintf("r = uint64(uint32(x)) %s %s", ch.tok, safe(ch, "uint64(w)")))
		n("store_rhs_"+ch.name, pre+fmt.Sprintf("*p = x %s %s\nsp.f = y %s %s\nxs[0] = z %s %s", ch.tok, safe(ch, "y"), ch.tok, safe(ch, "z"), ch.tok, safe(ch, "x")))
		n("ifcond_"+ch.name, pre+fmt.Sprintf("if (x %s %s) < z {\n\tr = 1\n} else {\n\tr = 2\n}", ch.tok, safe(ch, "y")))
		n("structlit_"+ch.name, pre+fmt.Sprintf("q := S2{a: x %s %s, b: z}\nr = q.a - q.b", ch.tok, safe(ch, "y")))
		n("slice_bounds_"+ch.name, pre+fmt.Sprintf("ys := xs[(x %s %s) %% 2 : 2]\nr = uint64(len(ys))", ch.tok, safe(ch, "z")))
		n("len_arith_"+ch.name, pre+fmt.Sprintf("r = uint64(len(xs)) %s %s", ch.tok, safe(ch, "z")))
		n("map_index_"+ch.name, pre+fmt.Sprintf("r = m[(x %s %s) %% 2] + 1", ch.tok, safe(ch, "z")))
		n("tuple_"+ch.name, pre+fmt.Sprintf("q1, q2 := two(x %s %s)\nr = q1\nrb = q2", ch.tok, safe(ch, "z")))
		n("append_arg_"+ch.name, pre+fmt.Sprintf("xs = append(xs, x %s %s)", ch.tok, safe(ch, "z")))
	}
	// every expression hole of every construct x every kind of non-atomic operand: a printer
	// that drops the parentheses around one operand kind in one context changes the parse
	holeMatrix(func(id, code string, prims bool) {
		out = append(out, Form{ID: "nest_hole_" + id, Code: code, Family: "nesting", Prims: prims})
	})
	n("str_concat_nested", "rs = (s + \"a\") + (s + \"b\")")
	n("str_eq_of_concat", "rb = s+\"a\" == \"a\"+s")
	n("if_in_seq", pre+"if x < y {\n\tr = 1\n}\nr = r + z")
	n("closure_call_in_arith", pre+"r = apply(func(q uint64) uint64 {\n\treturn q - z\n}, x) - y")
	if tier == "thorough" {
		sub := []op{arith[1], arith[3], arith[4], arith[8], arith[9]}
		for _, a := range sub {
			for _, b := range sub {
				for _, c := range sub {
					n(fmt.Sprintf("d3_%s_%s_%s_ll", a.name, b.name, c.name), pre+fmt.Sprintf("r = ((x %s %s) %s %s) %s %s", c.tok, safe(c, "y"), b.tok, safe(b, "z"), a.tok, safe(a, "y")))
					n(fmt.Sprintf("d3_%s_%s_%s_rr", a.name, b.name, c.name), pre+fmt.Sprintf("r = x %s %s", a.tok, safe(a, fmt.Sprintf("(y %s %s)", b.tok, safe(b, fmt.Sprintf("(z %s %s)", c.tok, safe(c, "x")))))))
					n(fmt.Sprintf("d3_%s_%s_%s_lr", a.name, b.name, c.name), pre+fmt.Sprintf("r = (x %s %s) %s %s", b.tok, safe(b, fmt.Sprintf("(y %s %s)", c.tok, safe(c, "z"))), a.tok, safe(a, "z")))
				}
			}
		}
	}
	return out
}

func holeMatrix(add func(id, code string, prims bool)) {
	type kv struct{ id, code string }
	fill := func(tmpl, e string) string {
		// "($)" keeps Go's own precedence right where the hole is an operand of % in the template
		return strings.ReplaceAll(tmpl, "$", e)
	}
	k64 := []kv{{"field", "sp.f"}, {"nestedfield", "sv.in.h"}, {"deref", "*p"}, {"call", "sumTo(2)"}, {"method", "sp.addTo(1)"}, {"index", "xs[1]"},
		{"mapget", "m[1]"}, {"len", "uint64(len(xs))"}, {"binop", "x + 1"}, {"conv", "uint64(w)"}, {"varload", "a"}, {"callcall", "apply(mkAdder(1), y)"}}
	h64 := []kv{{"binop_l", "r = $ - y"}, {"binop_r", "r = x - $"}, {"mul_l", "r = $ * y"}, {"bitnot", "r = ^$"}, {"conv", "r32 = uint32($)"},
		{"callarg1", "r = addBoth($, y)"}, {"callarg2", "r = addBoth(x, $)"}, {"methodarg", "r = sp.addTo($)"},
		{"index", "r = xs[($)%3]"}, {"mapkey", "r = m[$]"}, {"mapinsert_key", "m[$] = 5"}, {"mapinsert_val", "m[2] = $"}, {"delete_key", "delete(m, $)"},
		{"store_var", "a = $"}, {"store_deref", "*p = $"}, {"store_field", "sp.g = $"}, {"store_elem", "xs[2] = $"}, {"opassign", "a += $"},
		{"structlit", "q := S2{a: $, b: 1}\nr = q.a"}, {"make_len", "ys := make([]uint64, ($)%4)\nr = uint64(len(ys))"},
		{"append_elem", "xs = append(xs, $)"}, {"slice_lo", "ys := xs[($)%2:]\nr = uint64(len(ys))"}, {"slice_hi", "ys := xs[:($)%3]\nr = uint64(len(ys))"},
		{"cmp", "rb = $ < y"}, {"ifcond", "if $ < y {\n\tr = 1\n}"}, {"forcond", "for ni := uint64(0); ni < ($)%3; ni++ {\n\tr += 1\n}"},
		{"define", "q := $\nr = q"}, {"var_init", "var q uint64 = $\nr = q"}, {"closure_ret", "fn := func() uint64 {\n\treturn $\n}\nr = fn()"},
		{"tuple_call", "q1, q2 := two($)\nr = q1\nrb = q2"}, {"prim_put", "bs := make([]byte, 8)\nmachine.UInt64Put(bs, $)\nr8 = bs[0]"}}
	for _, h := range h64 {
		for _, k := range k64 {
			add(h.id+"_"+k.id, fill(h.code, k.code), h.id == "prim_put")
		}
	}
	preS := "sw := &SW{items: xs}\npxs := &xs\n_ = sw\n_ = pxs\n"
	ks := []kv{{"var", "xs"}, {"sub", "xs[1:]"}, {"append", "append(xs, 7)"}, {"field", "sw.items"}, {"call", "mkXs(2)"}, {"deref", "*pxs"}}
	hs := []kv{{"range", "for _, nv := range $ {\n\tr += nv + 1\n}"}, {"range_idx", "for ni := range $ {\n\tr += uint64(ni) + 1\n}"},
		{"len", "r = uint64(len($))"}, {"subslice_base", "ys := $[1:]\nr = uint64(len(ys))"},
		{"append_base", "ys := append($, 9)\nr = ys[uint64(len(ys))-1] + uint64(len(ys))"}, {"copy_src", "ys := make([]uint64, 2)\nn := copy(ys, $)\nr = uint64(n) + ys[0]"},
		{"callarg", "r = sumSlice($)"}, {"append_spread", "ys := append(xs, $...)\nr = uint64(len(ys))"}, {"store", "xs = $"},
		{"structlit", "q := &SW{items: $}\nr = uint64(len(q.items))"}, {"define", "ys := $\nr = uint64(len(ys))"}}
	for _, h := range hs {
		for _, k := range ks {
			e := k.code
			if h.id == "subslice_base" && k.id == "deref" {
				e = "(*pxs)" // Go's own precedence: *pxs[1:] would slice the pointer
			}
			add("s_"+h.id+"_"+k.id, preS+fill(h.code, e), false)
		}
	}
	// struct-to-interface conversions: the converted argument in every operand kind x the call in every context
	preI := "cv := &NCanvas{sq: NSquare{side: x % 1000}, scale: 2}\nq := NSquare{side: y % 1000}\npsq := &NSquare{side: y % 999}\nsqs := make([]NSquare, 1)\nsqs[0] = NSquare{side: 5}\n_ = cv\n_ = q\n_ = psq\n_ = sqs\n"
	ki := []kv{{"ident", "q"}, {"field", "cv.sq"}, {"literal", "NSquare{side: y % 1000}"}, {"call", "mkNSq(x)"}, {"index", "sqs[0]"}, {"deref", "*psq"}}
	hi := []kv{{"letbound", "a1 := nmeasure($)\nr = a1"}, {"assign", "r = nmeasure($)"}, {"operand", "r = nmeasure($) + 1"}, {"operand_r", "r = 1000000 - nmeasure($)"},
		{"callarg", "r = addBoth(nmeasure($), 2)"}, {"cond", "if nmeasure($) > 3 {\n\tr = 1\n}"}, {"closure_ret", "fn := func() uint64 {\n\treturn nmeasure($)\n}\nr = fn()"},
		{"stmt", "nmeasure($)\nr = 1"}, {"store_field", "sp.g = nmeasure($)"}}
	for _, h := range hi {
		for _, k := range ki {
			add("i_"+h.id+"_"+k.id, preI+fill(h.code, k.code), false)
		}
	}
	add("s_index_base_field", preS+"r = sw.items[1]", false)
	add("s_index_base_deref", preS+"r = (*pxs)[1]", false)
	preB := "var vb bool = t\n_ = vb\n"
	kb := []kv{{"not", "!t"}, {"cmp", "x < y"}, {"field", "sv.in.k"}, {"call", "bumpRet(p)"}, {"and", "t && x < y"}, {"varload", "vb"}}
	hb := []kv{{"ifcond", "if $ {\n\tr = 1\n} else {\n\tr = 2\n}"}, {"forcond", "var ni uint64 = 0\nfor $ && ni < 2 {\n\tni = ni + 1\n}\nr = ni"},
		{"not", "rb = !($)"}, {"and_l", "rb = ($) && t"}, {"or_r", "rb = t || ($)"}, {"store", "rb = $"}, {"callarg", "r = b2u($)"},
		{"eq", "rb = ($) == t"}, {"structlit", "q := In{h: 1, k: $}\nrb = q.k"}}
	for _, h := range hb {
		for _, k := range kb {
			add("b_"+h.id+"_"+k.id, preB+fill(h.code, k.code), false)
		}
	}
}
