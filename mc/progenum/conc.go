package progenum

import (
	"fmt"
	"strings"
)

// ConcProg is a closed concurrent program: func Name() (uint64, uint64).
type ConcProg struct {
	Name   string
	Desc   string
	Source string
	Decls  string
}

type cstep struct {
	id, code string // code operates under the lock on v (shared local) and st.a (field behind pointer)
}

var csteps = []cstep{
	{"add1", "v = v + 1"},
	{"add2", "v = v + 2"},
	{"dbl", "v = v * 2"},
	{"tofield", "st.a = v + 10"},
	{"condset", "if v == 0 {\n\tst.a = 7\n}"},
	{"fieldadd", "st.a = st.a + 3"},
	{"sliceadd", "xs[0] = xs[0] + 5"},
	{"structvar", "sv.a = sv.a + v + 1"},
	{"ptrslice_method", "as[0].add(v + 1)"},
	{"addr_structvar_call", "caddp(&sv, v+1)"},
	{"addr_structvar_local", "{\n\tq := &sv\n\tq.a = q.a + 2\n}"},
}

type lockStyle struct {
	id, decl, lock, unlock, expr string
}

var lockStyles = []lockStyle{
	{"local", "mu := new(sync.Mutex)", "mu.Lock()", "mu.Unlock()", "mu"},
	{"field", "sh := &CSh{mu: new(sync.Mutex)}", "sh.mu.Lock()", "sh.mu.Unlock()", "sh.mu"},
	{"varlocal", "var mu *sync.Mutex\n\tmu = new(sync.Mutex)", "mu.Lock()", "mu.Unlock()", "mu"},
	{"slice", "locks := make([]*sync.Mutex, 2)\n\tlocks[1] = new(sync.Mutex)", "locks[1].Lock()", "locks[1].Unlock()", "locks[1]"},
	{"nested_field", "sh2 := &CSh2{in: &CSh{mu: new(sync.Mutex)}}", "sh2.in.mu.Lock()", "sh2.in.mu.Unlock()", "sh2.in.mu"},
}

type joinStyle struct {
	id string
	// setup (k = number of goroutines), done (in goroutine, outside lock), wait (in main)
	setup func(k int) string
	done  string
	wait  func(k int) string
}

func joinStyles(ls lockStyle) []joinStyle {
	return []joinStyle{
		{"wg", func(k int) string { return fmt.Sprintf("wg := new(sync.WaitGroup)\n\twg.Add(%d)", k) }, "wg.Done()", func(k int) string { return "wg.Wait()" }},
		{"cond_signal", func(k int) string { return "cond := sync.NewCond(" + ls.expr + ")\n\tvar done uint64 = 0" },
			ls.lock + "\n\t\tdone = done + 1\n\t\tcond.Signal()\n\t\t" + ls.unlock,
			func(k int) string {
				return fmt.Sprintf("%s\n\tfor done < %d {\n\t\tcond.Wait()\n\t}\n\t%s", ls.lock, k, ls.unlock)
			}},
		{"cond_broadcast", func(k int) string { return "cond := sync.NewCond(" + ls.expr + ")\n\tvar done uint64 = 0" },
			ls.lock + "\n\t\tdone = done + 1\n\t\tcond.Broadcast()\n\t\t" + ls.unlock,
			func(k int) string {
				return fmt.Sprintf("%s\n\tfor done < %d {\n\t\tcond.Wait()\n\t}\n\t%s", ls.lock, k, ls.unlock)
			}},
		// the condition of the wait loop is a field behind a pointer that is never reassigned
		{"latch_field", func(k int) string {
			return fmt.Sprintf("lt := &CLatch{mu: %s, cond: sync.NewCond(%s), pending: %d}", ls.expr, ls.expr, k)
		},
			ls.lock + "\n\t\tlt.pending = lt.pending - 1\n\t\tlt.cond.Broadcast()\n\t\t" + ls.unlock,
			func(k int) string {
				return fmt.Sprintf("%s\n\tfor lt.pending > 0 {\n\t\tlt.cond.Wait()\n\t}\n\t%s", ls.lock, ls.unlock)
			}},
		{"flag_field", func(k int) string {
			return fmt.Sprintf("lt := &CLatch{mu: %s, cond: sync.NewCond(%s), pending: %d}", ls.expr, ls.expr, k)
		},
			ls.lock + "\n\t\tlt.pending = lt.pending - 1\n\t\tif lt.pending == 0 {\n\t\t\tlt.ready = true\n\t\t}\n\t\tlt.cond.Signal()\n\t\t" + ls.unlock,
			func(k int) string {
				return fmt.Sprintf("%s\n\tfor !lt.ready {\n\t\tlt.cond.Wait()\n\t}\n\t%s", ls.lock, ls.unlock)
			}},
		// "sleep until poked": one Wait under an if whose guard the wake-up does not change (a lost wake-up is possible in Go
		// too; what matters is that the run in which the poke arrives after the Wait began comes back)
		{"if_wait_once", func(k int) string {
			return "cond := sync.NewCond(" + ls.expr + ")\n\tvar sleepy bool = true\n\tvar done uint64 = 0"
		},
			ls.lock + "\n\t\tdone = done + 1\n\t\tcond.Broadcast()\n\t\t" + ls.unlock,
			func(k int) string {
				return fmt.Sprintf("%s\n\tif sleepy && done < %d {\n\t\tcond.Wait()\n\t}\n\t%s", ls.lock, k, ls.unlock)
			}},
		{"cond_timeout", func(k int) string { return "cond := sync.NewCond(" + ls.expr + ")\n\tvar done uint64 = 0" },
			ls.lock + "\n\t\tdone = done + 1\n\t\t" + ls.unlock,
			func(k int) string {
				return fmt.Sprintf("%s\n\tfor done < %d {\n\t\tmachine.WaitTimeout(cond, 10)\n\t}\n\t%s", ls.lock, k, ls.unlock)
			}},
	}
}

const ConcDecls = `
type CSt struct {
	a uint64
}

type CSh struct {
	mu *sync.Mutex
}

type CSh2 struct {
	in *CSh
}

type CLatch struct {
	mu      *sync.Mutex
	cond    *sync.Cond
	pending uint64
	ready   bool
}

func (s *CSt) add(d uint64) {
	s.a = s.a + d
}

func caddp(s *CSt, d uint64) {
	s.a = s.a + d
}

func crecord(out *uint64, v uint64, wg *sync.WaitGroup) {
	*out = v
	wg.Done()
}

func (s *CSt) addw(d uint64, wg *sync.WaitGroup) {
	s.a = s.a + d
	wg.Done()
}
`

func locked(ls lockStyle, st cstep, tabs int) string {
	pre := strings.Repeat("\t", tabs)
	body := strings.ReplaceAll(st.code, "\n", "\n"+pre)
	return pre + ls.lock + "\n" + pre + body + "\n" + pre + ls.unlock + "\n"
}

// ConcProgs enumerates the concurrent programs: lock style x join style x
// (steps of goroutine 1) x (steps of goroutine 2 or none) x (main step or none),
// plus goroutines spawned from a loop and under an if.
func ConcProgs(tier string) []ConcProg {
	var out []ConcProg
	seen := map[string]bool{}
	steps := csteps
	if tier == "quick" {
		steps = append(append([]cstep{}, csteps[:4]...), csteps[6], csteps[7], csteps[8], csteps[9], csteps[10])
	}
	add := func(ls lockStyle, js joinStyle, t1, t2 []cstep, main []cstep, shape string) {
		k := 1
		if t2 != nil || shape == "loop" || shape == "spawner" || shape == "rangeloop" {
			k = 2
		}
		ids := func(ss []cstep) string {
			var s []string
			for _, x := range ss {
				s = append(s, x.id)
			}
			return strings.Join(s, "_")
		}
		name := fmt.Sprintf("C_%s_%s_%s__%s__%s__%s", shape, ls.id, js.id, ids(t1), ids(t2), ids(main))
		if seen[name] {
			return
		}
		seen[name] = true
		var sb strings.Builder
		fmt.Fprintf(&sb, "func %s() (uint64, uint64) {\n\t%s\n\tvar v uint64 = 0\n\tst := &CSt{a: 0}\n\txs := make([]uint64, 1)\n\tvar sv CSt\n\tas := make([]*CSt, 1)\n\tas[0] = st\n\t%s\n", name, ls.decl, js.setup(k))
		thread := func(ss []cstep) {
			sb.WriteString("\tgo func() {\n")
			for _, s := range ss {
				sb.WriteString(locked(ls, s, 2))
			}
			sb.WriteString("\t\t" + js.done + "\n\t}()\n")
		}
		switch shape {
		case "plain":
			thread(t1)
			if t2 != nil {
				thread(t2)
			}
		case "loop":
			// two goroutines spawned from a loop, each adding its own (copied) index
			fmt.Fprintf(&sb, "\tfor i := uint64(0); i < 2; i++ {\n\t\tj := i\n\t\tgo func() {\n\t\t\t%s\n\t\t\tv = v*2 + j + 1\n\t\t\t%s\n\t\t\t%s\n\t\t}()\n\t}\n", ls.lock, ls.unlock, strings.ReplaceAll(js.done, "\n\t\t", "\n\t\t\t"))
		case "nested":
			// the critical sections sit in a helper closure inside the goroutine's closure (a literal in a literal)
			sb.WriteString("\tgo func() {\n\t\tstep := func() {\n")
			for _, s := range t1 {
				sb.WriteString(locked(ls, s, 3))
			}
			sb.WriteString("\t\t}\n\t\tstep()\n\t\t" + js.done + "\n\t}()\n")
		case "spawner":
			// a closure that spawns the goroutine; its parameter and the shared variables are read two levels down
			fmt.Fprintf(&sb, "\tvar limit uint64 = 5\n\tstart := func(d uint64) {\n\t\tgo func() {\n\t\t\t%s\n\t\t\tif d < limit {\n\t\t\t\tv = v + d\n\t\t\t}\n\t\t\t%s\n\t\t\t%s\n\t\t}()\n\t}\n\tstart(1)\n\tstart(2)\n", ls.lock, ls.unlock, strings.ReplaceAll(js.done, "\n\t\t", "\n\t\t\t"))
		case "rangeloop":
			fmt.Fprintf(&sb, "\tws := make([]uint64, 2)\n\tws[0] = 1\n\tws[1] = 2\n\tfor _, w := range ws {\n\t\tgo func() {\n\t\t\t%s\n\t\t\tv = v*4 + w\n\t\t\t%s\n\t\t\t%s\n\t\t}()\n\t}\n", ls.lock, ls.unlock, strings.ReplaceAll(js.done, "\n\t\t", "\n\t\t\t"))
		case "underif":
			sb.WriteString("\tif v == 0 {\n")
			sb.WriteString("\t\tgo func() {\n")
			for _, s := range t1 {
				sb.WriteString(locked(ls, s, 3))
			}
			sb.WriteString("\t\t\t" + strings.ReplaceAll(js.done, "\n\t\t", "\n\t\t\t") + "\n\t\t}()\n\t}\n")
		}
		for _, s := range main {
			sb.WriteString(locked(ls, s, 1))
		}
		fmt.Fprintf(&sb, "\t%s\n\t%s\n\tr1 := v\n\tr2 := st.a + xs[0]*1000 + sv.a*100000\n\t%s\n\treturn r1, r2\n}\n", js.wait(k), ls.lock, ls.unlock)
		out = append(out, ConcProg{Name: name, Desc: name, Source: sb.String()})
	}
	for li, ls := range lockStyles {
		for ji, js := range joinStyles(ls) {
			full := li == 0 && ji == 0 // the full step matrix only for the basic lock/join style
			for _, a := range steps {
				// one goroutine, optional main step
				add(ls, js, []cstep{a}, nil, nil, "plain")
				if !full && tier == "quick" {
					continue
				}
				for _, m := range steps[:3] {
					add(ls, js, []cstep{a}, nil, []cstep{m}, "plain")
				}
				if !full {
					continue
				}
				for _, b := range steps {
					add(ls, js, []cstep{a}, []cstep{b}, nil, "plain")
					add(ls, js, []cstep{a, b}, nil, nil, "plain")
					if tier == "thorough" {
						add(ls, js, []cstep{a, b}, []cstep{steps[2]}, nil, "plain")
						add(ls, js, []cstep{a}, []cstep{b}, []cstep{steps[0]}, "plain")
					}
				}
			}
			add(ls, js, nil, nil, nil, "loop")
			add(ls, js, []cstep{steps[0], steps[1]}, nil, nil, "nested")
			add(ls, js, nil, nil, nil, "spawner")
			add(ls, js, nil, nil, nil, "rangeloop")
			add(ls, js, []cstep{steps[0]}, nil, nil, "underif")
			// two goroutines for every lock/join style
			add(ls, js, []cstep{steps[0]}, []cstep{steps[2]}, nil, "plain")
		}
	}
	// edge of the subset (names E_...): go statements that are not `go func() {...}()`. The pinned translator rejects
	// them, which is an acceptable answer; a translator that accepts them must evaluate the function value and the
	// arguments in the spawning thread, and must not let the literal's parameters leak into the spawner's scope
	out = append(out,
		ConcProg{Name: "E_go_named_args", Desc: "go f(args): arguments are evaluated by the spawner", Source: "func E_go_named_args() (uint64, uint64) {\n\twg := new(sync.WaitGroup)\n\twg.Add(1)\n\tout := new(uint64)\n\tvar x uint64 = 1\n\tgo crecord(out, x, wg)\n\tx = 2\n\twg.Wait()\n\treturn *out, x\n}\n"},
		ConcProg{Name: "E_go_method_args", Desc: "go o.m(args): receiver and arguments are evaluated by the spawner", Source: "func E_go_method_args() (uint64, uint64) {\n\twg := new(sync.WaitGroup)\n\twg.Add(1)\n\tst := &CSt{a: 0}\n\tvar x uint64 = 1\n\tgo st.addw(x, wg)\n\tx = 5\n\twg.Wait()\n\treturn st.a, x\n}\n"},
		ConcProg{Name: "E_go_literal_param_shadow", Desc: "go func(v T){...}(x): the parameter does not shadow the spawner's v afterwards", Source: "func E_go_literal_param_shadow() (uint64, uint64) {\n\twg := new(sync.WaitGroup)\n\twg.Add(1)\n\tout := new(uint64)\n\tv := uint64(20)\n\tx := uint64(1)\n\tgo func(v uint64) {\n\t\t*out = v\n\t\twg.Done()\n\t}(x)\n\twg.Wait()\n\treturn *out, v + 1\n}\n"},
		ConcProg{Name: "E_go_literal_param_late", Desc: "go func(v T){...}(x): x is read at the go statement", Source: "func E_go_literal_param_late() (uint64, uint64) {\n\twg := new(sync.WaitGroup)\n\twg.Add(1)\n\tout := new(uint64)\n\tvar x uint64 = 1\n\tgo func(k uint64) {\n\t\t*out = k\n\t\twg.Done()\n\t}(x)\n\tx = 7\n\twg.Wait()\n\treturn *out, x\n}\n"},
		ConcProg{Name: "E_go_named_in_loop", Desc: "go f(i) in a loop: every child gets the value of i at its go statement", Source: "func E_go_named_in_loop() (uint64, uint64) {\n\twg := new(sync.WaitGroup)\n\twg.Add(2)\n\ta := new(uint64)\n\tb := new(uint64)\n\tfor i := uint64(1); i < 3; i++ {\n\t\tif i == 1 {\n\t\t\tgo crecord(a, i, wg)\n\t\t} else {\n\t\t\tgo crecord(b, i, wg)\n\t\t}\n\t}\n\twg.Wait()\n\treturn *a, *b\n}\n"},
	)
	return out
}
