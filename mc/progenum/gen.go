package progenum

import (
	"fmt"
	"sort"
	"strings"
)

// Position is a statement context. {F} is replaced by the form's statements,
// {RET} by the observation of the whole environment.
type Position struct {
	ID        string
	Tmpl      string
	InMapLoop bool   // the form executes inside `range m`
	Method    string // "", "ptr", "val": the body is a method of S called through a wrapper
}

const retVars = "a, b, sv, sp, p, xs, ts, m, r, r32, r8, rb, rs"
const retStmt = "return " + retVars
const retTypes = "(uint64, uint64, S, *S, *uint64, []uint64, []S2, map[uint64]uint64, uint64, uint32, byte, bool, string)"
const params = "x uint64, y uint64, w uint32, c byte, t bool, s string"
const args = "x, y, w, c, t, s"

// RetTypes is the dump description of the common result tuple.
var RetTypes = []*GT{TU64, TU64, TS, Ptr(TS), Ptr(TU64), Slice(TU64), Slice(TS2), Map(TU64, TU64), TU64, TU32, TU8, TBool, TStr}

const envPrelude = `	var a uint64 = x
	b := y + 1
	var sv S
	sv.f = x
	sv.in.h = 3
	sp := &S{f: y, g: 7}
	p := new(uint64)
	*p = x + 2
	var xs []uint64 = make([]uint64, 3)
	xs[0] = x
	xs[1] = y
	ts := make([]S2, 2)
	ts[1] = S2{a: 4, b: y}
	m := make(map[uint64]uint64)
	m[1] = x
	var r uint64
	var r32 uint32
	var r8 byte
	var rb bool
	var rs string
`

func Positions() []Position {
	return []Position{
		{ID: "P01_tail", Tmpl: "{F}\n{RET}"},
		{ID: "P02_nontail", Tmpl: "{F}\nr = r + 1\npb2 := b + r\na = a + pb2\n{RET}"},
		{ID: "P03_if_then_nontail", Tmpl: "if t {\n{F1}\n}\na = a + 1\n{RET}"},
		{ID: "P04_if_early_return", Tmpl: "if t {\n{F1}\n\t{RET}\n}\na = a + 5\n{RET}"},
		{ID: "P05_else_nontail", Tmpl: "if t {\n\ta = 9\n} else {\n{F1}\n}\nr = r + b\n{RET}"},
		{ID: "P06_if_else_returns", Tmpl: "if t {\n{F1}\n\t{RET}\n} else {\n\ta = 3\n\t{RET}\n}"},
		{ID: "P07_else_if_chain", Tmpl: "if x == 0 {\n\ta = 1\n} else if t {\n{F1}\n} else {\n\ta = 2\n}\n{RET}"},
		{ID: "P08_for3_body", Tmpl: "for pi := uint64(0); pi < 2; pi++ {\n{F1}\n}\n{RET}"},
		{ID: "P09_loop_before_control", Tmpl: "for pi := uint64(0); pi < 3; pi++ {\n{F1}\n\tif pi == 1 {\n\t\tbreak\n\t}\n\tcontinue\n}\n{RET}"},
		{ID: "P10_for_cond_body", Tmpl: "var pn uint64 = 0\nfor pn < 2 {\n{F1}\n\tpn = pn + 1\n}\n{RET}"},
		{ID: "P11_range_slice_body", Tmpl: "ys0 := make([]uint64, 2)\nfor pi, pv := range ys0 {\n{F1}\n\tpb2 := uint64(pi) + pv\n\ta = a + pb2\n}\n{RET}"},
		{ID: "P12_range_map_body", Tmpl: "for pk, pv := range m {\n{F1}\n\ta = a + pk + pv\n}\n{RET}", InMapLoop: true},
		{ID: "P13_block_nontail", Tmpl: "{\n{F1}\n}\na = a + 1\n{RET}"},
		{ID: "P14_block_tail", Tmpl: "{\n{F1}\n\t{RET}\n}"},
		{ID: "P15_closure_body", Tmpl: "fn0 := func() {\n{F1}\n}\nfn0()\n{RET}"},
		{ID: "P16_nested_loops", Tmpl: "for pi := uint64(0); pi < 2; pi++ {\n\tfor pj := uint64(0); pj < 2; pj++ {\n{F2}\n\t}\n}\n{RET}"},
		{ID: "P17_if_in_loop", Tmpl: "for pi := uint64(0); pi < 2; pi++ {\n\tif pi == x {\n{F2}\n\t}\n}\n{RET}"},
		{ID: "P18_two_ifs_deep", Tmpl: "if x < 3 {\n\tif t {\n{F2}\n\t\t{RET}\n\t}\n\ta = a + 2\n\t{RET}\n}\na = a + 7\n{RET}"},
		{ID: "P19_method_ptr", Tmpl: "{F}\nrcv.f = rcv.f + r\n{RET}", Method: "ptr"},
		{ID: "P20_method_val", Tmpl: "{F}\nr = r + rcv.g\n{RET}", Method: "val"},
	}
}

// Prog is one generated function (a descriptor: position x form).
type Prog struct {
	Name   string // Go function name = descriptor id
	Pos    string
	Form   Form
	Source string
	Ret    []*GT
}

func sanitize(s string) string {
	return strings.NewReplacer("-", "_", ".", "_").Replace(s)
}

// Build renders the function for (position, form).
func Build(pos Position, fm Form) Prog {
	body := pos.Tmpl
	body = strings.ReplaceAll(body, "{F4}", indent(fm.Code, 4))
	body = strings.ReplaceAll(body, "{F3}", indent(fm.Code, 3))
	body = strings.ReplaceAll(body, "{F2}", indent(fm.Code, 2))
	body = strings.ReplaceAll(body, "{F1}", indent(fm.Code, 1))
	body = strings.ReplaceAll(body, "{F}", fm.Code)
	body = strings.ReplaceAll(body, "{RET}", retStmt)
	name := "F_" + pos.ID + "__" + sanitize(fm.ID)
	var sb strings.Builder
	switch pos.Method {
	case "":
		fmt.Fprintf(&sb, "func %s(%s) %s {\n%s%s\n}\n", name, params, retTypes, envPrelude, indent(body, 1))
	case "ptr":
		fmt.Fprintf(&sb, "func (rcv *S) M%s(%s) %s {\n%s%s\n}\n\n", name, params, retTypes, envPrelude, indent(body, 1))
		fmt.Fprintf(&sb, "func %s(%s) %s {\n\trcv := &S{f: x, g: 2}\n\treturn rcv.M%s(%s)\n}\n", name, params, retTypes, name, args)
	case "val":
		fmt.Fprintf(&sb, "func (rcv S) M%s(%s) %s {\n%s%s\n}\n\n", name, params, retTypes, envPrelude, indent(body, 1))
		fmt.Fprintf(&sb, "func %s(%s) %s {\n\trcv := S{f: x, g: y}\n\treturn rcv.M%s(%s)\n}\n", name, params, retTypes, name, args)
	}
	return Prog{Name: name, Pos: pos.ID, Form: fm, Source: sb.String(), Ret: RetTypes}
}

const declsPrelude = `
type In struct {
	h uint64
	k bool
}

type S struct {
	f  uint64
	g  uint64
	in In
}

type S2 struct {
	a uint64
	b uint64
}

type FS struct {
	fn func(uint64) uint64
}

type SW struct {
	items []uint64
}

type NShape interface {
	Area(k uint64) uint64
}

type NSquare struct {
	side uint64
}

func (s NSquare) Area(k uint64) uint64 {
	return s.side*s.side + k
}

type NCanvas struct {
	sq    NSquare
	scale uint64
}

func nmeasure(s NShape) uint64 {
	return s.Area(1)
}

func nmeasure2(k uint64, s NShape) uint64 {
	return s.Area(k) + k
}

func mkNSq(n uint64) NSquare {
	return NSquare{side: n % 1000}
}

func mkXs(n uint64) []uint64 {
	return make([]uint64, n)
}

func sumSlice(ys []uint64) uint64 {
	var acc uint64 = 0
	for _, v := range ys {
		acc = acc + v
	}
	return acc
}

const K1 uint64 = 10

const K32 uint32 = 7

var G1 uint64 = 42

func two(x uint64) (uint64, bool) {
	return x + 1, x > 2
}

func twoU(x uint64) (uint64, uint64) {
	return x + 1, x * 2
}

func three(x uint64) (uint64, uint64, bool) {
	return x, x + 1, x == 0
}

func four(x uint64) (uint64, uint64, uint64, bool) {
	return x, x + 1, x + 2, x < 5
}

func bump(p *uint64) {
	*p = *p + 1
}

func bumpRet(p *uint64) bool {
	*p = *p + 1
	return true
}

func bumpVal(p *uint64) uint64 {
	*p = *p + 1
	return *p
}

func addBoth(u uint64, v uint64) uint64 {
	return u*3 + v
}

func setF(sp *S, v uint64) {
	sp.f = v
}

func getG(s S) uint64 {
	return s.g
}

func (s *S) inc() {
	s.f = s.f + 1
}

func (s *S) addTo(v uint64) uint64 {
	s.g = s.g + v
	return s.g
}

func (s S) sum() uint64 {
	return s.f + s.g
}

func sumTo(n uint64) uint64 {
	if n == 0 {
		return 0
	}
	return n + sumTo(n-1)
}

func (s *S) countDown(n uint64) uint64 {
	if n == 0 {
		return s.f
	}
	return s.countDown(n-1) + 1
}

func b2u(b bool) uint64 {
	if b {
		return 1
	}
	return 0
}

func apply(f func(uint64) uint64, v uint64) uint64 {
	return f(v)
}

func (i In) hv() uint64 {
	return i.h + 1
}

func mkAdder(k uint64) func(uint64) uint64 {
	return func(z uint64) uint64 {
		return z + k
	}
}
`

// Vector is one argument vector for the standard parameter list.
type Vector struct {
	X, Y uint64
	W    uint32
	C    byte
	T    bool
	S    string
}

func Vectors() []Vector {
	xs := []uint64{0, 1, 2, 3, 255, 256, 1<<32 - 1, 1 << 32, 1 << 63, 1<<64 - 2, 1<<64 - 1}
	ws := []uint32{0, 1, 7, 1 << 31, 1<<32 - 1}
	cs := []byte{0, 1, 127, 128, 255}
	ss := []string{"", "a", "ab", "héllo"}
	var out []Vector
	for i := 0; i < 22; i++ {
		out = append(out, Vector{X: xs[i%11], Y: xs[(i*3+1)%11], W: ws[i%5], C: cs[(i*2)%5], T: i%2 == 0, S: ss[i%4]})
	}
	// small-value vectors with both booleans so that index expressions stay in range
	for i := 0; i < 6; i++ {
		out = append(out, Vector{X: uint64(i % 3), Y: uint64((i + 1) % 4), W: uint32(i), C: byte(i * 50), T: i%2 == 1, S: ss[(i+1)%4]})
	}
	return out
}

// Package is a set of programs rendered as Go files.
type Package struct {
	Progs []Prog
	Files map[string]string // relative path -> content (package p)
}

// Render lays the programs out as a Go package "p" (plus the !goose runtime files).
func Render(progs []Prog, rt string) Package {
	pk := Package{Progs: progs, Files: map[string]string{}}
	var plain, prims, syncf strings.Builder
	syncf.WriteString("package p\n\nimport \"sync\"\n\n")
	nsync := 0
	plain.WriteString("package p\n" + declsPrelude + "\n")
	prims.WriteString("package p\n\nimport \"github.com/goose-lang/goose/machine\"\n\n")
	nprims := 0
	seenDecls := map[string]bool{}
	for _, p := range progs {
		if p.Form.Decls != "" && !seenDecls[p.Form.ID] {
			seenDecls[p.Form.ID] = true
			dst := &plain
			if p.Form.Sync {
				dst = &syncf
			}
			dst.WriteString("// DECLS " + p.Form.ID + "\n" + p.Form.Decls + "// ENDDECLS\n\n")
		}
	}
	for _, p := range progs {
		if p.Form.Sync {
			syncf.WriteString(p.Source + "\n")
			nsync++
		} else if p.Form.Prims {
			prims.WriteString(p.Source + "\n")
			nprims++
		} else {
			plain.WriteString(p.Source + "\n")
		}
	}
	pk.Files["p/a_progs.go"] = plain.String()
	if nprims > 0 {
		pk.Files["p/b_prims.go"] = prims.String()
	}
	if nsync > 0 {
		pk.Files["p/b_sync.go"] = syncf.String()
	}
	// function table and vectors (excluded from goose by the build tag)
	var tb strings.Builder
	tb.WriteString("//go:build !goose\n\npackage p\n\nvar Funcs = map[string]any{\n")
	names := make([]string, 0, len(progs))
	for _, p := range progs {
		names = append(names, p.Name)
	}
	sort.Strings(names)
	for _, n := range names {
		fmt.Fprintf(&tb, "\t%q: %s,\n", n, n)
	}
	tb.WriteString("}\n\nvar Vectors = [][]any{\n")
	for _, v := range Vectors() {
		fmt.Fprintf(&tb, "\t{uint64(%d), uint64(%d), uint32(%d), byte(%d), %v, %q},\n", v.X, v.Y, v.W, v.C, v.T, v.S)
	}
	tb.WriteString("}\n")
	pk.Files["p/z_table.go"] = tb.String()
	pk.Files["p/z_rt.go"] = rt
	pk.Files["cmd/run/main.go"] = "package main\n\nimport \"genmod/p\"\n\nfunc main() { p.Run() }\n"
	pk.Files["go.mod"] = "module genmod\n\ngo 1.22\n\nrequire github.com/goose-lang/goose v0.0.0\n\nreplace github.com/goose-lang/goose => /repo\n"
	return pk
}

// Compose nests the inner position inside the outer one (depth-3 programs).
// Only positions without their own returns can be inner; the inner position's
// variables are renamed so that they do not shadow the outer position's.
func Compose(outer, inner Position) (Position, bool) {
	if inner.Method != "" || outer.Method != "" {
		return Position{}, false
	}
	body := inner.Tmpl
	if !strings.HasSuffix(body, "\n{RET}") {
		return Position{}, false
	}
	body = strings.TrimSuffix(body, "\n{RET}")
	if strings.Contains(body, "{RET}") {
		return Position{}, false
	}
	for _, v := range []string{"pi", "pj", "pn", "pv", "pk", "pb2", "ys0", "fn0"} {
		body = replaceIdent(body, v, "q"+v[1:])
	}
	// the inner template becomes the outer's form; its own {F}/{F1}/{F2} stay as placeholders
	inner1 := indentKeep(body, 1)
	inner2 := indentKeep(body, 2)
	t := outer.Tmpl
	t = strings.ReplaceAll(t, "{F2}", "\x00"+inner2)
	t = strings.ReplaceAll(t, "{F1}", "\x00"+inner1)
	t = strings.ReplaceAll(t, "{F}", "\x00"+body)
	t = strings.ReplaceAll(t, "\x00", "")
	return Position{ID: outer.ID + "_x_" + inner.ID, Tmpl: t, InMapLoop: outer.InMapLoop || inner.InMapLoop}, true
}

func indentKeep(code string, tabs int) string {
	pre := strings.Repeat("\t", tabs)
	lines := strings.Split(code, "\n")
	for i, l := range lines {
		// placeholders carry their own indentation depth
		switch strings.TrimSpace(l) {
		case "{F}":
			if tabs == 1 {
				lines[i] = "{F1}"
			} else {
				lines[i] = "{F2}"
			}
			continue
		case "{F1}":
			if tabs == 1 {
				lines[i] = "{F2}"
			} else {
				lines[i] = "{F3}"
			}
			continue
		case "{F2}":
			lines[i] = "{F3}"
			if tabs == 2 {
				lines[i] = "{F4}"
			}
			continue
		}
		lines[i] = pre + l
	}
	return strings.Join(lines, "\n")
}

func replaceIdent(s, from, to string) string {
	var sb strings.Builder
	i := 0
	isId := func(c byte) bool {
		return c == '_' || c >= '0' && c <= '9' || c >= 'a' && c <= 'z' || c >= 'A' && c <= 'Z'
	}
	for i < len(s) {
		if strings.HasPrefix(s[i:], from) && (i == 0 || !isId(s[i-1])) && (i+len(from) >= len(s) || !isId(s[i+len(from)])) {
			sb.WriteString(to)
			i += len(from)
			continue
		}
		sb.WriteByte(s[i])
		i++
	}
	return sb.String()
}
