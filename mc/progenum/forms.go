package progenum

import (
	"fmt"
	"strings"
)

// Form is a list of Go statements placed into a position. Family "core" forms
// use only constructs of the supported subset that goose is known to handle;
// constructs known (or suspected) to be mistranslated live in their own family
// so that a known finding can never hide a failure of a core program.
type Form struct {
	ID      string
	Code    string
	Family  string // "" = core
	WritesM bool   // inserts into / deletes from m (not placed inside `range m`)
	Prims   bool   // needs the machine import
	Decls   string // extra top-level declarations (emitted once per form)
	Sync    bool   // needs the sync import
}

func f(id, code string) Form { return Form{ID: id, Code: code} }

func binopForms() []Form {
	var out []Form
	type opn struct{ name, op string }
	ops := []opn{{"add", "+"}, {"sub", "-"}, {"mul", "*"}, {"and", "&"}, {"or", "|"}, {"xor", "^"}, {"quo", "/"}, {"rem", "%"}}
	for _, o := range ops {
		out = append(out, f("u64_"+o.name, "r = x "+o.op+" y"))
		out = append(out, f("u32_"+o.name, "r32 = w "+o.op+" (w + 3)"))
		out = append(out, f("u8_"+o.name, "r8 = c "+o.op+" (c + 3)"))
	}
	out = append(out,
		f("u64_shl", "r = x << (y % 70)"), f("u64_shr", "r = x >> (y % 70)"),
		f("u32_shl", "r32 = w << (w % 40)"), f("u32_shr", "r32 = w >> (w % 40)"),
		f("u8_shl", "r8 = c << (c % 10)"), f("u8_shr", "r8 = c >> (c % 10)"),
		f("u64_lit_left", "r = 5 - x"), f("u64_lit_right", "r = x + 18446744073709551615"),
		f("u64_nested_arith", "r = (x + y) * (x - y) + x/(y|1)"),
		f("u64_not", "r = ^x"), f("u32_not", "r32 = ^w"), f("u8_not", "r8 = ^c"),
	)
	cmps := []opn{{"lt", "<"}, {"le", "<="}, {"gt", ">"}, {"ge", ">="}, {"eq", "=="}, {"ne", "!="}}
	for _, o := range cmps {
		out = append(out, f("cmp64_"+o.name, "rb = x "+o.op+" y"))
		out = append(out, f("cmp32_"+o.name, "rb = w "+o.op+" 7"))
		out = append(out, f("cmp8_"+o.name, "rb = c "+o.op+" 128"))
	}
	out = append(out,
		f("cmp_str_eq", `rb = s == "ab"`), f("cmp_str_ne", `rb = s != ""`),
		f("cmp_bool_eq", "rb = t == (x < y)"), f("cmp_struct_eq", "rb = sv == *sp"), f("cmp_struct_ne", "rb = sv != *sp"),
		f("cmp_ptr_eq", "p2 := p\nrb = p == p2"), f("cmp_ptr_ne", "p2 := new(uint64)\nrb = p != p2"),
		f("cmp_ptr_nil", "rb = sp == nil"), f("cmp_ptr_notnil", "rb = sp != nil"),
		f("bool_and", "rb = t && x < y"), f("bool_or", "rb = t || x == 0"), f("bool_not", "rb = !t"),
		f("bool_nested", "rb = (t || x < y) && !(y == 0 || t)"),
		f("short_and_effect", "rb = t && bumpRet(p)"), f("short_or_effect", "rb = t || bumpRet(p)"),
	)
	return out
}

func convForms() []Form {
	return []Form{
		// conversions on both sides of one operator (a translator that drops "matching" conversions loses the truncation)
		f("cmp_conv_both_u32_eq", "rb = uint32(x) == uint32(x+4294967296)"), f("cmp_conv_both_u8_eq", "rb = uint8(x) == uint8(x+256)"),
		f("cmp_conv_both_u8_lt", "rb = uint8(x+256) < uint8(y)"), f("cmp_conv_both_u32_ne", "rb = uint32(x) != uint32(y)"),
		f("cmp_conv_both_u32_le", "rb = uint32(x) <= uint32(y)"), f("arith_conv_both_u8", "r = uint64(uint8(x) + uint8(y))"),
		f("cmp_conv_both_byte_gt", "rb = byte(x) > byte(y)"),
		f("conv_32_64", "r = uint64(w)"), f("conv_8_64", "r = uint64(c)"),
		f("conv_64_32", "r32 = uint32(x)"), f("conv_8_32", "r32 = uint32(c)"),
		f("conv_64_8", "r8 = uint8(x)"), f("conv_32_8", "r8 = uint8(w)"),
		f("conv_64_64", "r = uint64(x) + 1"), f("conv_arith", "r = uint64(uint32(x)+w) + uint64(uint8(y))"),
		f("str_concat_lit", `rs = s + "z"`), f("str_concat_self", "rs = s + s"), f("str_len", "r = uint64(len(s))"),
		f("str_to_bytes_len", "bs := []byte(s)\nr = uint64(len(bs))"),
		f("str_roundtrip", "bs := []byte(s)\nrs = string(bs)"),
		f("bytes_to_str", "bs := make([]byte, 2)\nbs[0] = 104\nbs[1] = c\nrs = string(bs)"),
	}
}

func assignForms() []Form {
	out := []Form{
		f("opassign_var_add", "a += x"), f("opassign_var_sub", "a -= y"), f("opassign_var_or", "a |= x"),
		f("opassign_var_and", "a &= y"), f("opassign_var_xor", "a ^= x"),
		f("opassign_deref_add", "*p += x"), f("opassign_deref_sub", "*p -= 1"),
		f("opassign_ptrfield_add", "sp.f += x"), f("opassign_ptrfield_sub", "sp.g -= 1"),
		f("opassign_varfield_add", "sv.f += x"), f("opassign_varfield_or", "sv.g |= y"),
		f("opassign_elem_add", "xs[1] += x"), f("opassign_elem_xor", "xs[2] ^= y"),
		{ID: "opassign_map_add", Code: "m[1] += y", WritesM: true},
		f("opassign_nested_ptrfield", "sp.in.h += x"), f("opassign_nested_varfield", "sv.in.h -= 1"),
		f("opassign_u32", "r32 += w\nr32 -= 1"), f("opassign_u8", "r8 += c\nr8 ^= 255"),
		f("inc_var", "a++"), f("dec_var", "a--"), f("inc_twice", "r++\nr++"),
		f("assign_var", "a = x + y"), f("assign_deref", "*p = y"), f("assign_ptrfield", "sp.g = x"),
		f("assign_varfield", "sv.g = y"), f("assign_elem", "xs[2] = x"),
		{ID: "assign_map", Code: "m[y] = x", WritesM: true},
		f("assign_nested_ptrfield", "sp.in.h = x\nsp.in.k = t"), f("assign_nested_varfield", "sv.in.h = y\nsv.in.k = !t"),
		f("assign_blank", "_ = x + 1"),
		f("define_use", "z := x + 1\nr = z * 2"), f("var_init", "var z uint64 = y\nz = z + x\nr = z"),
		f("var_zero_u64", "var z uint64\nz += x\nr = z"), f("var_zero_bool", "var q bool\nrb = !q"),
		f("var_zero_str", "var zs string\nrs = zs + s"), f("var_zero_ptr", "var zp *uint64\nrb = zp == nil"),
		f("var_zero_slice", "var zsl []uint64\nr = uint64(len(zsl))"), f("var_zero_struct", "var zst S\nr = zst.f + zst.in.h\nrb = zst.in.k"),
		f("multi_assign", "r, rb = two(x)"), f("multi_define2", "q1, q2 := two(y)\nr = q1\nrb = q2"),
		f("multi_define3", "q1, q2, q3 := three(x)\nr = q1 + q2\nrb = q3"),
		f("multi_define4", "q1, q2, q3, q4 := four(x)\nr = q1 + 2*q2 + 3*q3\nrb = q4"),
		f("multi_define_blank", "_, q2 := two(x)\nrb = q2"),
		f("multi_assign_elem", "xs[0], rb = two(x)"), f("multi_assign_ptrfield", "sp.f, rb = two(x)"),
		f("multi_assign_deref", "*p, rb = two(y)"), f("multi_assign_blank", "_, rb = two(x)"),
		{ID: "multi_assign_map", Code: "m[y], rb = two(x)", WritesM: true},
		f("multi_assign3", "r, a, rb = three(y)"),
		f("map_lookup_ok", "v, ok := m[x]\nr = v\nrb = ok"), f("map_lookup_hit", "v, ok := m[1]\nr = v\nrb = ok"),
		f("map_lookup_plain", "r = m[y] + m[1]"), f("map_len", "r = uint64(len(m))"),
		{ID: "map_delete", Code: "delete(m, 1)", WritesM: true}, {ID: "map_delete_missing", Code: "delete(m, y)", WritesM: true},
		{ID: "map_insert_len", Code: "m[2] = y\nm[2] = x\nr = uint64(len(m))", WritesM: true},
		f("map_string_keys", "m2 := make(map[string]uint64)\nm2[s] = x\nm2[\"a\"] = m2[\"a\"] + 1\nr = m2[\"a\"] + uint64(len(m2))"),
	}
	return out
}

func dataForms() []Form {
	return []Form{
		// (round 9) conversions to []byte of byte slices, element op-assignment with an expression index
		{ID: "bytes_of_named_slice_core", Decls: "type NBlkC []byte\n", Code: "bq := make([]byte, 2)\nnb := NBlkC(bq)\nraw := []byte(nb)\nraw[0] = 9\nr = uint64(nb[0]) + uint64(len(raw))"},
		f("bytes_of_byte_slice_core", "bq := make([]byte, 2)\nraw := []byte(bq)\nraw[1] = 7\nr = uint64(bq[1])"),
		f("opassign_elem_idx_core", "idx := uint64(4)\nxs[x%2+1] += idx\nr = xs[x%2+1] + idx"),
		// a[i:len(b)]: the upper bound names another slice (or the same one, which may be emitted as a skip)
		f("slice_to_len_other_field", "sa := &SW{items: mkXs(5)}\nsb := &SW{items: mkXs(3)}\nys := sa.items[1:len(sb.items)]\nr = uint64(len(ys))"),
		f("slice_to_len_other_var", "ya := mkXs(5)\nyb := mkXs(3)\nys := ya[1:len(yb)]\nr = uint64(len(ys))"),
		f("slice_to_len_same", "ya := mkXs(5)\nys := ya[1:len(ya)]\nr = uint64(len(ys))"),
		f("slice_to_len_same_field", "sa := &SW{items: mkXs(5)}\nys := sa.items[2:len(sa.items)]\nr = uint64(len(ys))"),
		f("slice_to_len_minus", "ya := mkXs(5)\nys := ya[1 : len(ya)-1]\nr = uint64(len(ys))"),
		f("slice_to_cap", "ya := make([]uint64, 2, 5)\nys := ya[1:cap(ya)]\nr = uint64(len(ys))"),
		f("slice_to_len_other_elem", "yy := make([][]uint64, 2)\nyy[0] = mkXs(5)\nyy[1] = mkXs(3)\nys := yy[0][1:len(yy[1])]\nr = uint64(len(ys))"),
		f("elided_ptr_literal", "ps := []*S2{{a: 4}}\npq := ps[0]\npq.a = pq.a + x\nr = ps[0].a"),
		f("append_one", "xs = append(xs, x)"), f("append_two", "xs = append(xs, x)\nxs = append(xs, y)"),
		f("append_spread", "ys := make([]uint64, 2)\nys[0] = 7\nxs = append(xs, ys...)"),
		f("append_to_nil", "var zsl []uint64\nzsl = append(zsl, x)\nr = zsl[0] + uint64(len(zsl))"),
		f("copy_value", "ys := make([]uint64, 2)\nr = uint64(copy(ys, xs))\nr += ys[1]"),
		f("copy_stmt", "ys := make([]uint64, 2)\nys[1] = 5\ncopy(xs, ys)"),
		f("copy_to_subslice", "ys := make([]uint64, 5)\ncopy(ys[1:], xs)\nr = ys[1] + ys[4]"),
		f("slice_skip", "ys := xs[1:]\nr = ys[0] + uint64(len(ys))"), f("slice_take", "ys := xs[:2]\nr = uint64(len(ys)) + ys[1]"),
		f("slice_sub", "ys := xs[1:2]\nys[0] = 9\nr = uint64(len(ys))"), f("slice_sub_var", "ys := xs[x%2 : 2]\nr = uint64(len(ys))"),
		f("slice_index", "r = xs[0] + xs[2]"), f("slice_index_var", "r = xs[x%3]"), f("slice_len", "r = uint64(len(xs))"),
		f("slice_make_cap", "zs := make([]uint64, 1, 4)\nr = uint64(cap(zs)) + uint64(len(zs))"),
		f("slice_singleton", "ys := []uint64{x}\nr = ys[0] + uint64(len(ys))"), f("slice_empty_lit", "ys := []uint64{}\nr = uint64(len(ys))"),
		f("slice_struct_elems", "ts[0] = S2{a: x, b: y}\nr = ts[0].a + ts[1].b + ts[0].b"),
		f("slice_struct_ref", "q := &ts[1]\nq.a = x\nr = ts[1].a + ts[1].b"),
		f("slice_struct_sub", "us := ts[1:]\nr = us[0].b + uint64(len(us))"),
		f("slice_struct_append", "us := append(ts, S2{a: x, b: 3})\nr = us[2].a + us[2].b + us[1].b"),
		f("slice_bytes", "bs := make([]byte, 3)\nbs[0] = c\nbs[2] = bs[0] + 1\nr8 = bs[2]"),
		f("slice_ref_elem", "q := &xs[1]\n*q = x\nr = xs[1]"),
		f("struct_assign_full", "sv = S{f: x, g: y}"), f("struct_assign_partial", "sv = S{f: x}"),
		f("struct_store_deref", "*sp = S{g: x}"), f("struct_nested_lit", "q := S{f: x, in: In{h: y, k: t}}\nr = q.in.h + q.f\nrb = q.in.k"),
		f("struct_copy_deref", "q := *sp\nr = q.f + q.g"), f("struct_new_lit", "sp2 := &S{f: x}\nsp2.g = y\nr = sp2.f + sp2.g"),
		f("struct_read_fields", "r = sp.f + sv.g + sp.in.h"), f("struct_set_nested", "sp.in = In{h: x, k: true}"),
		f("struct_copy_is_copy", "q := sv\nsv.f = 77\nr = q.f"), f("struct_ptr_alias", "q := sp\nq.f = x + 5\nr = sp.f"),
		f("struct_new", "ps := new(S)\nps.f = x\nr = ps.f + ps.g"), f("struct_zero_lit", "q := S{}\nr = q.f + q.in.h"),
		f("ptr_to_var_struct", "q := &sv\nq.f = x"), f("ptr_to_ptrfield", "q := &sp.f\n*q = x"),
		f("ptr_to_varfield", "q := &sv.g\n*q = y\nr = *q"), f("ptr_new", "p2 := new(uint64)\n*p2 = x\nr = *p2 + *p"),
		f("ptr_to_ptr", "pp := new(*uint64)\n*pp = p\nr = **pp"), f("ptr_to_var", "q := &a\n*q = x + 1"),
		f("ptr_nested_field", "q := &sp.in.h\n*q = y\nr = sp.in.h"),
	}
}

func callForms() []Form {
	return []Form{
		f("call_ptr_effect", "bump(p)"), f("call_ptr_to_var", "bump(&a)"), f("call_setfield", "setF(sp, x)"),
		f("call_setfield_var", "setF(&sv, y)"), f("call_struct_arg", "r = getG(sv)"), f("call_struct_deref_arg", "r = getG(*sp)"),
		f("method_ptr_recv", "sp.inc()"), f("method_ptr_recv_ret", "r = sp.addTo(x)"), f("method_val_recv", "r = sv.sum()"),
		f("method_on_new", "q := &S{f: x, g: 1}\nq.inc()\nr = q.f"),
		f("recursion", "r = sumTo(3)"), f("recursion_arg", "r = sumTo(x % 5)"), f("method_recursion", "r = sp.countDown(2)"),
		f("closure_capture_read", "fn := func(z uint64) uint64 {\n\treturn z + a\n}\nr = fn(x)"),
		f("closure_capture_write", "fn := func() {\n\ta = a + 1\n}\nfn()\nfn()"),
		f("closure_higher_order", "r = apply(mkAdder(x), y)"),
		f("closure_literal_arg", "r = apply(func(z uint64) uint64 {\n\treturn z * 2\n}, x)"),
		f("closure_early_return", "fn := func(z uint64) uint64 {\n\tif z > 5 {\n\t\treturn 5\n\t}\n\treturn z\n}\nr = fn(x) + fn(2)"),
		f("const_use", "r = K1 + x"), f("const32_use", "r32 = K32 + w"), f("global_use", "r = G1 + 1"),
		f("call_multi_in_expr", "q1, _ := two(x)\nr = q1 + sumTo(2)"),
		{ID: "prim_u64_putget", Code: "bs := make([]byte, 8)\nmachine.UInt64Put(bs, x)\nr = machine.UInt64Get(bs)\nr8 = bs[1]", Prims: true},
		{ID: "prim_u32_putget", Code: "bs := make([]byte, 6)\nmachine.UInt32Put(bs, w)\nr32 = machine.UInt32Get(bs)\nr8 = bs[0] + bs[4]", Prims: true},
		{ID: "prim_tostring", Code: "rs = machine.UInt64ToString(x)", Prims: true},
		{ID: "prim_assume", Code: "machine.Assume(x <= y)\nr = y - x", Prims: true},
		{ID: "prim_assert", Code: "machine.Assert(t || !t)\nr = 1", Prims: true},
	}
}

func compoundForms() []Form {
	return []Form{
		f("if_else", "if x < y {\n\ta = 1\n} else {\n\ta = 2\n}"),
		f("if_no_else", "if t {\n\tr = x\n}"),
		f("if_else_chain", "if t {\n\tr = 1\n} else if x == 0 {\n\tr = 2\n} else {\n\tr = 3\n}"),
		f("if_nested", "if t {\n\tif x < y {\n\t\tr = 1\n\t} else {\n\t\tr = 2\n\t}\n\ta = a + r\n}"),
		f("if_local_shadow", "if t {\n\tz := x + 1\n\tr = z\n} else {\n\tz := y\n\tr = z + 2\n}"),
		f("for_sum", "for i := uint64(0); i < 3; i++ {\n\tr += i\n}"),
		f("for_break_continue", "for i := uint64(0); i < 5; i++ {\n\tif i == 2 {\n\t\tcontinue\n\t}\n\tif i == 4 {\n\t\tbreak\n\t}\n\tr += i\n}"),
		f("for_cond_only", "var i uint64 = 0\nfor i < 3 {\n\ti = i + 1\n}\nr = i"),
		f("for_infinite_break", "var n uint64 = 0\nfor {\n\tif n > 2 {\n\t\tbreak\n\t}\n\tn++\n}\nr = n"),
		f("for_nested", "for i := uint64(0); i < 2; i++ {\n\tfor j := uint64(0); j < 3; j++ {\n\t\tr += i*10 + j\n\t}\n}"),
		f("for_if_else_body", "for i := uint64(0); i < 4; i++ {\n\tif i%2 == 0 {\n\t\tr += i\n\t} else {\n\t\ta += 1\n\t}\n}"),
		f("range_slice_val", "for _, v := range xs {\n\tr += v\n}"), f("range_slice_idx", "for i := range xs {\n\txs[i] = uint64(i) + 1\n}"),
		f("range_slice_both", "for i, v := range xs {\n\tr += uint64(i) * v\n}"),
		f("range_map", "for k, v := range m {\n\tr += k + v\n}"), f("range_map_key", "for k := range m {\n\tr += k\n}"),
		f("range_structs", "for _, e := range ts {\n\tr += e.a + e.b\n}"),
		f("bare_block", "{\n\tz := x\n\tr = z + 1\n}"),
		f("closure_with_loop", "fn := func(n uint64) uint64 {\n\tvar acc uint64 = 0\n\tfor i := uint64(0); i < n; i++ {\n\t\tacc += i\n\t}\n\treturn acc\n}\nr = fn(4)"),
	}
}

// dedicatedForms: constructs with known or suspected translation defects, each in its own family.
func dedicatedForms() []Form {
	d := func(fam, id, code string) Form { return Form{ID: id, Code: code, Family: fam} }
	return []Form{
		d("incdec-narrow", "inc_u32", "r32++"), d("incdec-narrow", "dec_u8", "r8--"),
		d("", "byte_of_u64", "r8 = byte(x)"), d("", "byte_of_u32", "r8 = byte(w)"),
		d("addr-of-define-local", "addr_define_local", "z := x\nq := &z\n*q = y\nr = z"),
		d("method-implicit-addr", "method_ptr_recv_on_var", "sv.inc()"),
		d("method-implicit-deref", "method_val_recv_on_ptr", "r = sp.sum()"),
		d("const-expr-narrow", "const_expr_u32", "r32 = w + (1 << 3)"), d("const-expr-narrow", "const_expr_u8", "r8 = c + (2 * 3)"),
		d("nil-pointer-value", "nil_ptr_assign", "var zp *uint64\nzp = nil\nrb = zp == nil"),
		d("loopvar-shadow", "loopvar_shadows_outer", "for a := uint64(0); a < 2; a++ {\n\tr += a\n}"),
		d("", "bareblock_shadows_outer", "{\n\ta := x + 100\n\tr = a\n}"),
		d("eval-order", "arg_order_effects", "r = addBoth(bumpVal(p), bumpVal(p)*2)"),
		d("loopvar-capture", "loopvar_per_iteration", "var fs []*uint64\nfor i := uint64(0); i < 2; i++ {\n\tfs = append(fs, &i)\n}\nr = *fs[0] + *fs[1]"),
		d("", "var_in_body_per_iteration", "var fs []*uint64\nfor i := uint64(0); i < 2; i++ {\n\tvar j uint64 = i\n\tfs = append(fs, &j)\n}\nr = *fs[0] + *fs[1]*10"),
		d("", "if_shadows_outer", "if t {\n\ta := x + 1\n\tr = a\n}"),
		d("", "closure_param_shadows_outer", "fn := func(a uint64) uint64 {\n\treturn a + 1\n}\nr = fn(x)"),
		d("", "range_var_shadows_outer", "for _, a := range xs {\n\tr += a\n}"),
	}
}

// sliceMatrixForms: every slice operation x element types of different sizes and kinds.
func sliceMatrixForms() []Form {
	type el struct{ id, ty, v0, v1, obs string } // obs: expression turning element `e` into uint64
	els := []el{
		{"u32", "uint32", "w", "w + 1", "uint64($)"},
		{"bool", "bool", "t", "!t", "b2u($)"},
		{"str", "string", "s", "s + \"q\"", "uint64(len($))"},
		{"ptr", "*S2", "&S2{a: x, b: 1}", "&S2{a: y, b: 2}", "$.a + $.b"},
		{"slice", "[]uint64", "xs", "xs[1:]", "uint64(len($)) + $[0]"},
		{"struct", "S2", "S2{a: x, b: 1}", "S2{a: y, b: 2}", "$.a + $.b"},
		{"u64", "uint64", "x", "y", "$"},
	}
	var out []Form
	for _, e := range els {
		mk := "qs := make([]" + e.ty + ", 2)\nqs[0] = " + e.v0 + "\nqs[1] = " + e.v1 + "\n"
		obs := func(x string) string { return strings.ReplaceAll(e.obs, "$", x) }
		add := func(op, code string) { out = append(out, f("slmx_"+e.id+"_"+op, mk+code)) }
		add("index", "e0 := qs[0]\ne1 := qs[1]\nr = "+obs("e0")+" + 3*("+obs("e1")+")")
		add("range", "for i, e := range qs {\n\tr += (uint64(i) + 1) * ("+obs("e")+")\n}")
		add("skip", "us := qs[1:]\ne0 := us[0]\nr = "+obs("e0")+" + uint64(len(us))")
		add("take", "us := qs[:1]\ne0 := us[0]\nr = "+obs("e0")+" + uint64(len(us))")
		add("sub", "us := qs[1:2]\ne0 := us[0]\nr = "+obs("e0")+" + uint64(len(us))")
		add("append", "us := append(qs, "+e.v0+")\ne2 := us[2]\ne1 := us[1]\nr = "+obs("e2")+" + 5*("+obs("e1")+") + uint64(len(us))")
		add("copy", "us := make([]"+e.ty+", 3)\nn := copy(us[1:], qs)\ne2 := us[2]\nr = "+obs("e2")+" + uint64(n)")
		add("appendslice", "us := append(qs, qs...)\ne3 := us[3]\nr = "+obs("e3")+" + uint64(len(us))")
		add("ref", "q := &qs[1]\n*q = "+e.v0+"\ne1 := qs[1]\nr = "+obs("e1"))
		add("set", "qs[0] = qs[1]\ne0 := qs[0]\nr = "+obs("e0"))
	}
	return out
}

// scopeMatrixForms: every way of binding a name x every construct that opens a
// scope; the inner name shadows the environment's `a` (read again by the common
// epilogue after the scope has closed) and is both written and read inside.
func scopeMatrixForms() []Form {
	binders := [][2]string{
		{"define", "a := x + 100"},
		{"varinit", "var a uint64 = x + 100"},
		{"varzero", "var a uint64"},
		{"multidefine", "a, ok := two(x)\nrb = ok"},
	}
	scopes := [][2]string{
		{"block", "{\n$\n}"},
		{"ifbody", "if t || x < 50 {\n$\n}"},
		{"elsebody", "if x > 1000 {\n\tr = 1\n} else {\n$\n}"},
		{"forbody", "for si := uint64(0); si < 2; si++ {\n$\n}"},
		{"rangebody", "for _, sv0 := range xs {\n\tr += sv0\n$\n}"},
		{"closure", "fn := func() {\n$\n}\nfn()"},
		{"block2", "{\n\t{\n\t$\n\t}\n\tr += a\n}"},
	}
	var out []Form
	for _, b := range binders {
		for _, sc := range scopes {
			body := b[1] + "\nr += a"
			if strings.HasPrefix(b[1], "var ") { // only var-declared locals are assignable in the subset
				body = b[1] + "\na = a + 1\nr += a"
			}
			inner := indent(body, 1)
			out = append(out, f("scope_"+b[0]+"_"+sc[0], strings.Replace(sc[1], "$", inner, 1)))
		}
	}
	return out
}

// loopHeaderForms: every combination of init / condition / post being present in a
// three-clause loop (the exit of a condition-less loop is a break nested in an if),
// and copies initialised from every kind of l-value (the copy is written, the source observed).
func loopHeaderForms() []Form {
	var out []Form
	for _, init := range []bool{false, true} {
		for _, cond := range []bool{false, true} {
			for _, post := range []bool{false, true} {
				pre, hdrInit, hdrCond, hdrPost, bodyPost, guard := "", "", "", "", "", ""
				if init {
					hdrInit = "li := uint64(0)"
				} else {
					pre = "var li uint64 = 0\n"
				}
				if cond {
					hdrCond = " li < 3"
				} else {
					guard = "\tif li >= 3 {\n\t\tbreak\n\t}\n"
				}
				if post {
					hdrPost = " li += 1"
				} else {
					bodyPost = "\tli = li + 1\n"
				}
				hdr := "for " + hdrInit + ";" + hdrCond + ";" + hdrPost + " {"
				if !init && !post {
					if cond {
						hdr = "for" + hdrCond + " {"
					} else {
						hdr = "for {"
					}
				}
				id := fmt.Sprintf("loophdr_init%v_cond%v_post%v", init, cond, post)
				code := pre + hdr + "\n" + guard + "\tr += li + 1\n" + bodyPost + "}"
				if post && !cond {
					// continue must still run the post statement
					out = append(out, f(id+"_continue", pre+hdr+"\n"+guard+"\tif li == 1 {\n\t\tcontinue\n\t}\n\tr += li + 1\n}"))
				}
				out = append(out, f(id, code))
			}
		}
	}
	srcs := [][3]string{ // id, declaration of the copy, observation of the source
		{"deref_u64", "var cp uint64 = *p\ncp = cp + 1\nr = cp", ""},
		{"deref_struct", "var cp S = *sp\ncp.f = cp.f + 50\nr = cp.f", ""},
		{"field", "var cp uint64 = sp.g\ncp = cp + 1\nr = cp", ""},
		{"nested_field", "var cp In = sv.in\ncp.h = cp.h + 9\nr = cp.h", ""},
		{"elem", "var cp uint64 = xs[1]\ncp = cp + 1\nr = cp", ""},
		{"struct_elem", "var cp S2 = ts[1]\ncp.a = cp.a + 9\nr = cp.a", ""},
		{"var", "var cp uint64 = a\ncp = cp + 1\nr = cp", ""},
		{"struct_var", "var cp S = sv\ncp.g = cp.g + 3\nr = cp.g", ""},
		{"forinit_deref", "for fi := *p; fi < *p+2; fi++ {\n\tr += 1\n}", ""},
		{"define_deref_struct", "cp := *sp\nsp.f = sp.f + 50\nr = cp.f", ""},
	}
	for _, sc := range srcs {
		out = append(out, f("copyinit_"+sc[0], sc[1]))
	}
	return out
}

// negationForms: every comparison under a negation, for three widths, booleans and strings,
// as a value and as a condition (operands are equal on some of the input vectors); and the
// string / byte-slice conversions in both directions with the source changed afterwards.
func negationForms() []Form {
	var out []Form
	cmps := [][2]string{{"lt", "<"}, {"le", "<="}, {"gt", ">"}, {"ge", ">="}, {"eq", "=="}, {"ne", "!="}}
	for _, c := range cmps {
		out = append(out,
			f("neg_u64_"+c[0], "rb = !(x "+c[1]+" y)"),
			f("neg_u64_lit_"+c[0], "rb = !(x "+c[1]+" 1)"),
			f("neg_u32_"+c[0], "rb = !(w "+c[1]+" K32)"),
			f("neg_u8_"+c[0], "rb = !(c "+c[1]+" 127)"),
			f("neg_cond_"+c[0], "if !(x "+c[1]+" y) {\n\tr = 1\n} else {\n\tr = 2\n}"),
			f("neg_loopcond_"+c[0], "var ni uint64 = 0\nfor !(ni "+c[1]+" 2) && ni < 4 {\n\tni = ni + 1\n}\nr = ni"),
			f("negneg_"+c[0], "rb = !(!(x "+c[1]+" y))"),
		)
	}
	out = append(out,
		f("neg_bool_eq", "rb = !(t == (x < y))"), f("neg_bool_ne", "rb = !(t != (x < y))"),
		f("neg_str_eq", "rb = !(s == \"a\")"), f("neg_str_ne", "rb = !(s != \"\")"),
		f("neg_field_cmp", "rb = !(sp.f < sv.in.h)"), f("neg_len_cmp", "rb = !(uint64(len(xs)) <= x)"),
		// conversions between strings and byte slices copy
		f("bytes_of_string_mutate", "bs := []byte(s + \"ab\")\nbs[0] = 90\nr8 = bs[0] + bs[1]\nrs = s"),
		f("string_of_bytes_then_mutate", "bs := make([]byte, 2)\nbs[0] = 65\nst := string(bs)\nbs[0] = 66\nrs = st\nr8 = bs[0]"),
		f("bytes_roundtrip_is_a_copy", "bs := make([]byte, 2)\nbs[0] = 7\ncp := []byte(string(bs))\ncp[0] = 9\nr8 = bs[0] + cp[0]*3"),
		f("string_roundtrip", "rs = string([]byte(s)) + \"!\""),
		f("len_of_bytes_of_string", "r = uint64(len([]byte(s)))"),
		f("string_len_after_concat", "r = uint64(len(s + \"é\"))"),
	)
	out = append(out,
		// integer literals in every spelling, up to the largest values
		f("lit_max_u64", "r = x ^ 18446744073709551615"), f("lit_hex_max", "r = x ^ 0xFFFFFFFFFFFFFFFF"), f("lit_2_63", "r = x + 9223372036854775808"),
		f("lit_2_63_minus_1", "r = x + 9223372036854775807"), f("lit_hex", "r = x + 0xff"), f("lit_octal", "r = x + 0o17"), f("lit_old_octal", "r = x + 017"),
		f("lit_binary", "r = x + 0b101"), f("lit_underscore", "r = x + 1_000_000"), f("lit_u32_max", "r32 = w ^ 4294967295"), f("lit_u8_max", "r8 = c ^ 255"),
		f("lit_u32_hex", "r32 = w + 0xFFFF0000"), f("lit_const_shift", "r = x + (1 << 63)"),
		// maps whose value type differs from the key type: what a missing key reads as
		f("map_bool_missing", "mb := make(map[uint64]bool)\nmb[1] = true\nrb = mb[7]\nr = b2u(mb[1])"),
		f("map_struct_missing", "ms := make(map[uint64]S2)\nms[1] = S2{a: x, b: 2}\nq := ms[7]\nq1 := ms[1]\nr = q.a + q.b + q1.b"),
		f("map_slice_missing", "ml := make(map[uint64][]uint64)\nml[1] = xs\nr = uint64(len(ml[7])) + uint64(len(ml[1]))"),
		f("map_string_key", "mk := make(map[string]uint64)\nmk[s] = x + 1\nr = mk[s] + mk[\"zz\"]"),
		f("map_u32_value", "m3 := make(map[uint64]uint32)\nm3[1] = w\nr32 = m3[1] + m3[2]"),
		f("map_update_through_copy", "ms := make(map[uint64]S2)\nms[1] = S2{a: x, b: 2}\nq := ms[1]\nms[1] = S2{a: 9, b: 9}\nr = q.a + q.b"),
		f("map_lookup_ok_struct", "ms := make(map[uint64]S2)\nq, ok := ms[3]\nr = q.a\nrb = ok"),
	)
	return out
}

// CoreForms returns every core form.
func CoreForms() []Form {
	var out []Form
	for _, g := range [][]Form{binopForms(), convForms(), assignForms(), dataForms(), callForms(), compoundForms(), sliceMatrixForms(), scopeMatrixForms(), loopHeaderForms(), negationForms()} {
		out = append(out, g...)
	}
	return out
}

func DedicatedForms() []Form { return dedicatedForms() }

func indent(code string, tabs int) string {
	pre := strings.Repeat("\t", tabs)
	lines := strings.Split(code, "\n")
	for i, l := range lines {
		lines[i] = pre + l
	}
	return strings.Join(lines, "\n")
}

// CatalogueForms (C02) is defined in catalogue.go.

// RepresentativeForms: the forms used at depth 3 (position in position): one
// per l-value kind / binder kind / control construct.
func RepresentativeForms() []Form {
	want := map[string]bool{}
	for _, id := range []string{"u64_sub", "u32_add", "cmp64_lt", "bool_and", "short_and_effect", "conv_64_8", "str_concat_lit",
		"opassign_var_add", "opassign_deref_add", "opassign_ptrfield_add", "opassign_varfield_add", "opassign_elem_add", "opassign_map_add", "opassign_nested_ptrfield",
		"inc_var", "assign_varfield", "define_use", "var_init", "var_zero_struct", "multi_assign", "multi_define3", "map_lookup_ok", "map_delete",
		"append_one", "slice_sub", "copy_stmt", "slice_struct_ref", "struct_assign_full", "struct_store_deref", "ptr_to_var", "ptr_to_ptrfield",
		"call_ptr_effect", "method_ptr_recv", "recursion", "closure_capture_write", "closure_early_return",
		"if_else", "if_else_chain", "if_local_shadow", "for_sum", "for_break_continue", "for_cond_only", "range_slice_both", "range_map", "bare_block",
		"if_shadows_outer", "bareblock_shadows_outer", "range_var_shadows_outer", "closure_param_shadows_outer"} {
		want[id] = true
	}
	var out []Form
	for _, f := range append(CoreForms(), DedicatedForms()...) {
		if want[f.ID] && f.Family == "" {
			out = append(out, f)
		}
	}
	return out
}
