//go:build !free

// Package hpar lets harness bodies run either under the controlled scheduler
// (default) or free-running with real goroutines (build tag free, used with -race).
package hpar

import (
	"verif/csched"
	"verif/csched/syncshim"
)

const Free = false

type WaitGroup = syncshim.WaitGroup
type Mutex = syncshim.Mutex

func Go(f func()) { csched.Go(f) }
