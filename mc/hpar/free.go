//go:build free

package hpar

import "sync"

const Free = true

type WaitGroup = sync.WaitGroup
type Mutex = sync.Mutex

func Go(f func()) { go f() }
