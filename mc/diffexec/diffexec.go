// Package diffexec: differential execution of generated Go programs against
// the GooseLang reference interpretation of goose's output (shared by C01, C02, C05).
package diffexec

import (
	"bufio"
	"bytes"
	_ "embed"
	"encoding/json"
	"fmt"
	"os"
	"os/exec"
	"path/filepath"
	"regexp"
	"sort"
	"strconv"
	"strings"
	"sync"

	"verif/ev"
	"verif/gl"
	"verif/progenum"
)

//go:embed rt.go.txt
var rtSource string

type result struct {
	prog   progenum.Prog
	kind   string // "" ok
	msg    string
	vecs   int
	skips  int
	reject string
}

var numRe = regexp.MustCompile(`[0-9]+`)

func normalize(s string) string {
	s = numRe.ReplaceAllString(s, "N")
	if len(s) > 90 {
		s = s[:90]
	}
	return s
}

type Cfg struct {
	Prop    string
	Tier    string
	Goose   string
	Work    string
	Only    string // run only this descriptor (replay)
	Verbose bool
	Bridge  string
	Exclude map[string]string // descriptor -> crash description (declarations on which goose panics)
}

func selectProgs(cfg Cfg) []progenum.Prog {
	var progs []progenum.Prog
	poss := progenum.Positions()
	quickPos := map[string]bool{"P01_tail": true, "P02_nontail": true, "P03_if_then_nontail": true, "P04_if_early_return": true, "P05_else_nontail": true,
		"P06_if_else_returns": true, "P08_for3_body": true, "P14_block_tail": true, "P09_loop_before_control": true, "P13_block_nontail": true, "P15_closure_body": true, "P19_method_ptr": true}
	var forms []progenum.Form
	switch cfg.Prop {
	case "C05":
		forms = progenum.NestingForms(cfg.Tier)
	case "C01":
		forms = append(progenum.CoreForms(), progenum.DedicatedForms()...)
	case "C02":
		forms = progenum.CatalogueForms()
	}
	if cfg.Prop == "C01" && (cfg.Tier == "thorough" || cfg.Only != "") {
		// depth 3: every position nested in every position, for a representative set of forms
		base := progenum.Positions()
		for _, o := range base {
			for _, i := range base {
				if c, ok := progenum.Compose(o, i); ok {
					poss = append(poss, c)
				}
			}
		}
	}
	for _, pos := range poss {
		if strings.Contains(pos.ID, "_x_") {
			for _, fm := range progenum.RepresentativeForms() {
				if pos.InMapLoop && fm.WritesM {
					continue
				}
				if strings.Contains(pos.ID, "P15_closure_body") && strings.Contains(fm.Code, "return a, b, sv") {
					continue
				}
				pr := progenum.Build(pos, fm)
				if cfg.Only != "" && pr.Name != cfg.Only {
					continue
				}
				if _, crashed := cfg.Exclude[pr.Name]; crashed {
					continue
				}
				progs = append(progs, pr)
			}
			continue
		}
		if cfg.Tier == "quick" && !quickPos[pos.ID] && cfg.Only == "" {
			continue
		}
		if cfg.Prop == "C05" && pos.ID != "P01_tail" && pos.ID != "P05_else_nontail" && cfg.Only == "" {
			continue
		}
		for _, fm := range forms {
			if pos.InMapLoop && fm.WritesM {
				continue
			}
			if pos.ID == "P15_closure_body" && strings.Contains(fm.Code, "return a, b, sv") {
				continue // the form returns from the enclosing function
			}
			pr := progenum.Build(pos, fm)
			if cfg.Only != "" && pr.Name != cfg.Only {
				continue
			}
			if _, crashed := cfg.Exclude[pr.Name]; crashed {
				continue
			}
			if _, crashed := cfg.Exclude["DECL:"+fm.ID]; crashed {
				continue
			}
			progs = append(progs, pr)
		}
	}
	return progs
}

func must(err error) {
	if err != nil {
		fmt.Fprintln(os.Stderr, "harness error:", err)
		os.Exit(3)
	}
}

// lineIndex maps (file, line) to the function defined there.
type lineIndex map[string][]struct {
	line int
	name string
}

var funcRe = regexp.MustCompile(`^func (?:\([a-z]+ \*?S\) M)?(F_[A-Za-z0-9_]+)\(`)

func indexFile(path, content string, idx lineIndex) {
	for i, l := range strings.Split(content, "\n") {
		if strings.HasPrefix(l, "// DECLS ") {
			idx[path] = append(idx[path], struct {
				line int
				name string
			}{i + 1, "DECL:" + strings.TrimPrefix(l, "// DECLS ")})
		}
		if l == "// ENDDECLS" {
			idx[path] = append(idx[path], struct {
				line int
				name string
			}{i + 1, ""})
		}
		if m := funcRe.FindStringSubmatch(l); m != nil {
			idx[path] = append(idx[path], struct {
				line int
				name string
			}{i + 1, m[1]})
		}
	}
}

func (idx lineIndex) lookup(file string, line int) string {
	name := ""
	for _, e := range idx[filepath.Base(file)] {
		if e.line <= line {
			name = e.name
		}
	}
	return name
}

var srcRe = regexp.MustCompile(`src: (\S+?):(\d+):\d+`)
var catRe = regexp.MustCompile(`^\[([a-z()\-]+)\]: (.*)$`)

func Run(cfg Cfg, acc *ev.Acc) {
	progs := selectProgs(cfg)
	gen := filepath.Join(cfg.Work, "gen")
	must(os.MkdirAll(gen, 0755))
	pk := progenum.Render(progs, rtSource)
	idx := lineIndex{}
	for rel, c := range pk.Files {
		fp := filepath.Join(gen, rel)
		os.MkdirAll(filepath.Dir(fp), 0755)
		must(os.WriteFile(fp, []byte(c), 0644))
		if strings.HasPrefix(rel, "p/a_") || strings.HasPrefix(rel, "p/b_") {
			indexFile(filepath.Base(rel), c, idx)
		}
	}
	sum, _ := os.ReadFile("/repo/go.sum")
	os.WriteFile(filepath.Join(gen, "go.sum"), sum, 0644)

	// --- Go side
	var goOut bytes.Buffer
	build := exec.Command("go", "build", "-o", filepath.Join(cfg.Work, "run.bin"), "./cmd/run")
	build.Dir = gen
	if out, err := build.CombinedOutput(); err != nil {
		fmt.Fprintln(os.Stderr, "harness error: generated programs do not compile:\n"+tailStr(string(out), 3000))
		os.Exit(3)
	}
	rc := exec.Command(filepath.Join(cfg.Work, "run.bin"))
	rc.Stdout = &goOut
	var goErr bytes.Buffer
	rc.Stderr = &goErr // println() of generated programs
	must(rc.Run())
	goRes := map[string]map[int]string{}
	sc := bufio.NewScanner(&goOut)
	sc.Buffer(make([]byte, 1<<20), 1<<24)
	for sc.Scan() {
		parts := strings.SplitN(sc.Text(), "|", 3)
		if len(parts) != 3 {
			continue
		}
		vi, _ := strconv.Atoi(parts[1])
		if goRes[parts[0]] == nil {
			goRes[parts[0]] = map[int]string{}
		}
		goRes[parts[0]][vi] = parts[2]
	}

	// --- goose
	outDir := filepath.Join(cfg.Work, "out")
	gc := exec.Command(cfg.Goose, "-out", outDir, "-ignore-errors", "./p")
	gc.Dir = gen
	var gerr bytes.Buffer
	gc.Stderr = &gerr
	gc.Stdout = &gerr
	gerrRun := gc.Run()
	exit := 0
	if ee, ok := gerrRun.(*exec.ExitError); ok {
		exit = ee.ExitCode()
	} else if gerrRun != nil {
		must(gerrRun)
	}
	if exit != 0 && exit != 1 {
		// goose crashed: find the crashing declarations through the bridge, set them aside, start over
		if cfg.Bridge != "" && len(cfg.Exclude) < 400 {
			found := findCrashers(cfg, gen, idx)
			if len(found) > 0 {
				for k, v := range found {
					cfg.Exclude[k] = v
				}
				os.RemoveAll(gen)
				os.RemoveAll(outDir)
				Run(cfg, acc)
				return
			}
		}
		acc.Violate(ev.Violation{Key: cfg.Prop + "/goose-crash", Msg: "goose exited with status " + fmt.Sprint(exit) + ": " + tailStr(gerr.String(), 1500), Replay: map[string]any{"tier": cfg.Tier}})
		return
	}
	rejected := map[string]string{}
	blocks := strings.Split(gerr.String(), "\n\n")
	for _, b := range blocks {
		m := srcRe.FindStringSubmatch(b)
		if m == nil {
			continue
		}
		line, _ := strconv.Atoi(m[2])
		name := idx.lookup(m[1], line)
		cat := "?"
		for _, l := range strings.Split(b, "\n") {
			l = strings.TrimPrefix(strings.TrimSpace(l), "conversion failed: ")
			if cm := catRe.FindStringSubmatch(l); cm != nil {
				cat = cm[1] + ": " + cm[2]
				break
			}
		}
		if name != "" {
			rejected[name] = cat
		}
	}
	vb, err := os.ReadFile(filepath.Join(outDir, "genmod", "p.v"))
	if err != nil {
		acc.Violate(ev.Violation{Key: cfg.Prop + "/no-output", Msg: "goose wrote no file for the generated package: " + tailStr(gerr.String(), 1500)})
		return
	}
	file, perr := gl.ParseFile(string(vb))
	if perr != nil {
		acc.Violate(ev.Violation{Key: cfg.Prop + "/output-does-not-parse/" + normalize(perr.Error()), Msg: "the emitted file is not well-formed: " + perr.Error(), Replay: map[string]any{"tier": cfg.Tier}})
		return
	}
	if cfg.Verbose {
		fmt.Println(string(vb))
	}

	// --- GooseLang side, in parallel
	vecs := progenum.Vectors()
	results := make([]result, len(progs))
	var wg sync.WaitGroup
	sem := make(chan struct{}, 16)
	for i := range progs {
		wg.Add(1)
		sem <- struct{}{}
		go func(i int) {
			defer wg.Done()
			defer func() { <-sem }()
			results[i] = evalProg(progs[i], file, rejected, goRes[progs[i].Name], vecs, cfg)
		}(i)
	}
	wg.Wait()
	report(cfg, results, acc)
}

// findCrashers asks the bridge tool which declarations make the translator panic.
func findCrashers(cfg Cfg, gen string, idx lineIndex) map[string]string {
	c := exec.Command(cfg.Bridge, "./p")
	c.Dir = gen
	out, err := c.Output()
	if err != nil {
		return nil
	}
	var pkgs []struct {
		Decls []struct {
			File     string `json:"file"`
			Line     int    `json:"line"`
			GoName   string `json:"go_name"`
			Panic    string `json:"panic"`
			PanicTop string `json:"panic_top"`
		} `json:"decls"`
	}
	if json.Unmarshal(out, &pkgs) != nil {
		return nil
	}
	found := map[string]string{}
	for _, p := range pkgs {
		for _, d := range p.Decls {
			if d.Panic == "" {
				continue
			}
			name := idx.lookup(d.File, d.Line)
			if name != "" {
				found[name] = d.Panic + " @ " + d.PanicTop
			}
		}
	}
	return found
}

func evalProg(p progenum.Prog, file *gl.File, rejected map[string]string, goRes map[int]string, vecs []progenum.Vector, cfg Cfg) result {
	r := result{prog: p}
	why, ok := rejected[p.Name]
	if hw, hok := rejected["DECL:"+p.Form.ID]; hok && !ok { // read-only: evalProg runs in parallel
		why, ok = "(helper declaration) "+hw, true
	}
	if ok {
		r.reject = why
		r.kind, r.msg = "rejected:"+normalize(why), "goose rejects the declaration: "+why
		return r
	}
	for _, b := range file.Bad {
		if b.Name == p.Name || b.Name == "S__M"+p.Name {
			r.kind, r.msg = "malformed-output:"+normalize(b.Err), "the emitted definition is not well-formed GooseLang: "+b.Err+"\n"+b.Raw
			return r
		}
	}
	if _, ok := file.Defs[p.Name]; !ok {
		r.kind, r.msg = "missing-definition", "no Definition "+p.Name+" in the emitted file and no error reported"
		return r
	}
	for vi, v := range vecs {
		want, ok := goRes[vi]
		if !ok {
			r.kind, r.msg = "HARNESS", fmt.Sprintf("no Go result for vector %d", vi)
			return r
		}
		if want == "PANIC" {
			r.skips++
			continue
		}
		in := gl.New(file)
		in.Fuel = 400000
		val, err := in.Call(p.Name, gl.VInt{W: 64, N: v.X}, gl.VInt{W: 64, N: v.Y}, gl.VInt{W: 32, N: uint64(v.W)}, gl.VInt{W: 8, N: uint64(v.C)}, gl.VBool(v.T), gl.VStr(v.S))
		r.vecs++
		if err != nil {
			kind := "stuck"
			if _, isDiv := err.(*gl.Diverged); isDiv {
				kind = "diverged"
			}
			r.kind = kind + ":" + normalize(strings.TrimPrefix(strings.TrimPrefix(err.Error(), "stuck: "), "diverged: "))
			r.msg = fmt.Sprintf("on input %+v Go returns %s but the emitted GooseLang is %s", v, short(want), err.Error())
			return r
		}
		got := progenum.DumpGLTuple(in, val, p.Ret)
		if got != want {
			r.kind = "value-mismatch:" + diffField(got, want)
			r.msg = fmt.Sprintf("on input %+v Go returns\n   %s\nthe emitted GooseLang returns\n   %s", v, want, got)
			return r
		}
	}
	return r
}

var retNames = strings.Split("a, b, sv, sp, p, xs, ts, m, r, r32, r8, rb, rs", ", ")

func diffField(got, want string) string {
	g, w := strings.Split(got, " ; "), strings.Split(want, " ; ")
	var d []string
	for i := range w {
		if i >= len(g) || g[i] != w[i] {
			n := fmt.Sprint(i)
			if len(w) == len(retNames) {
				n = retNames[i]
			}
			tag := ""
			if i < len(g) && strings.Contains(g[i], "!want-") {
				tag = "(" + g[i][strings.Index(g[i], "!want-"):strings.Index(g[i], "!want-")+min(len(g[i])-strings.Index(g[i], "!want-"), 14)] + ")"
				tag = normalize(tag)
			}
			d = append(d, n+tag)
		}
	}
	return strings.Join(d, ",")
}

func short(s string) string {
	if len(s) > 160 {
		return s[:160] + "…"
	}
	return s
}

func tailStr(s string, n int) string {
	if len(s) > n {
		return "…" + s[len(s)-n:]
	}
	return s
}

func report(cfg Cfg, results []result, acc *ev.Acc) {
	for name, why := range cfg.Exclude {
		acc.Add("declarations_on_which_goose_panics", 1)
		acc.Set("crash_sites", normalize(why))
		if cfg.Prop == "C01" {
			acc.Violate(ev.Violation{Key: "C01/crash/" + name + "/" + normalize(why), Msg: "goose panics on a program of the supported subset: " + name + ": " + why, Replay: map[string]any{"descriptor": name}})
		} else {
			acc.Note("goose panics (neither conversion error nor translation; judged by C07): " + name + ": " + normalize(why))
		}
	}
	for _, r := range results {
		fam := r.prog.Form.Family
		if fam == "" {
			fam = "core"
		}
		acc.Add("programs", 1)
		acc.Add("evaluations", int64(r.vecs))
		acc.Add("inputs_skipped_go_panic", int64(r.skips))
		if r.kind == "HARNESS" {
			fmt.Fprintln(os.Stderr, "harness error:", r.prog.Name, r.msg)
			os.Exit(3)
		}
		if r.reject != "" {
			acc.Add("rejected", 1)
		} else {
			acc.Add("accepted", 1)
		}
		if r.vecs > 0 {
			acc.Set("nontrivial", r.prog.Name)
		}
		acc.Set("forms", r.prog.Form.ID)
		acc.Set("positions", r.prog.Pos)
		bad := r.kind != ""
		if cfg.Prop == "C02" && r.reject != "" {
			bad = false // rejection is always acceptable outside the subset
			acc.Set("rejecting_guards", normalize(r.reject))
		}
		if bad {
			acc.Violate(ev.Violation{
				Key:    fmt.Sprintf("%s/%s/%s/%s/%s", cfg.Prop, fam, r.prog.Form.ID, r.prog.Pos, r.kind),
				Msg:    fmt.Sprintf("form %s at %s: %s\n--- Go source ---\n%s", r.prog.Form.ID, r.prog.Pos, r.msg, r.prog.Form.Code),
				Replay: map[string]any{"descriptor": r.prog.Name, "form": r.prog.Form, "position": r.prog.Pos},
			})
		}
	}
	sort.Slice(results, func(i, j int) bool { return results[i].prog.Name < results[j].prog.Name })
	if len(results) > 0 {
		mid := results[len(results)/2]
		acc.Sample(map[string]any{"descriptor": mid.prog.Name, "go_source": mid.prog.Source, "vectors_compared": mid.vecs}, 1)
		acc.Sample(map[string]any{"descriptor": results[0].prog.Name, "form": results[0].prog.Form.Code}, 2)
	}
}
