package diffexec

import (
	"bytes"
	"fmt"
	"os"
	"os/exec"
	"path/filepath"
	"regexp"
	"sort"
	"strings"

	"verif/ev"
	"verif/gl"
)

// Lookalike is a package in which a user-defined function or a local package
// merely shares its name with a builtin or with an FFI / library package that
// goose recognises by spelling (C02). Each defines func F(x uint64, y uint64) uint64.
type Lookalike struct {
	ID    string
	Files map[string]string // relative to the module root; the user package is la_<ID>/
}

func la(id string, files map[string]string) Lookalike { return Lookalike{ID: id, Files: files} }

func Lookalikes() []Lookalike {
	one := func(id, decls, body string) Lookalike {
		return la(id, map[string]string{"la_" + id + "/a.go": "package la\n\n" + decls + "\nfunc F(x uint64, y uint64) uint64 {\n" + body + "}\n"})
	}
	pkg := func(id, lib, libsrc, body string) Lookalike {
		return la(id, map[string]string{
			"la_" + id + "/" + lib + "/l.go": libsrc,
			"la_" + id + "/a.go":             "package la\n\nimport \"lamod/la_" + id + "/" + lib + "\"\n\nfunc F(x uint64, y uint64) uint64 {\n" + body + "}\n",
		})
	}
	return []Lookalike{
		one("len", "func len(xs []uint64) uint64 {\n\treturn 42\n}\n", "\txs := make([]uint64, 3)\n\treturn len(xs) + x\n"),
		one("cap", "func cap(xs []uint64) uint64 {\n\treturn 42\n}\n", "\txs := make([]uint64, 3)\n\treturn cap(xs) + x\n"),
		one("append", "func append(xs []uint64, v uint64) []uint64 {\n\txs[0] = v + 1\n\treturn xs\n}\n", "\txs := make([]uint64, 1)\n\tys := append(xs, x)\n\treturn ys[0] + y\n"),
		one("copy", "func copy(dst []uint64, src []uint64) uint64 {\n\treturn 7\n}\n", "\ta := make([]uint64, 2)\n\tb := make([]uint64, 2)\n\tb[0] = x\n\tn := copy(a, b)\n\treturn n + a[0]\n"),
		one("delete", "func delete(m map[uint64]uint64, k uint64) {\n\tm[k] = 5\n}\n", "\tm := make(map[uint64]uint64)\n\tm[1] = x\n\tdelete(m, 1)\n\treturn m[1]\n"),
		one("panic", "func panic(msg string) {\n}\n", "\tif x > y {\n\t\tpanic(\"oops\")\n\t}\n\treturn x + y\n"),
		one("new", "func new(v uint64) *uint64 {\n\tp := &S{f: v}\n\treturn &p.f\n}\n\ntype S struct {\n\tf uint64\n}\n", "\tp := new(x)\n\treturn *p + y\n"),
		one("make", "func make(n uint64) []uint64 {\n\tvar xs []uint64\n\txs = append(xs, n)\n\treturn xs\n}\n", "\txs := make(x)\n\treturn xs[0] + y\n"),
		one("method_named_len", "type T struct {\n\tn uint64\n}\n\nfunc (t T) len() uint64 {\n\treturn t.n\n}\n", "\tt := T{n: x}\n\treturn t.len() + y\n"),
		pkg("disk", "disk", "package disk\n\nfunc Read(a uint64) uint64 {\n\treturn a + 1\n}\n\nfunc Size() uint64 {\n\treturn 77\n}\n", "\treturn disk.Read(x) + disk.Size() + y\n"),
		pkg("machine", "machine", "package machine\n\nfunc UInt64Get(b []byte) uint64 {\n\treturn 5\n}\n\nfunc Assume(b bool) {\n}\n", "\tb := make([]byte, 8)\n\tmachine.Assume(x > y)\n\treturn machine.UInt64Get(b) + x\n"),
		pkg("filesys", "filesys", "package filesys\n\nfunc Create(d string, n string) uint64 {\n\treturn 3\n}\n", "\treturn filesys.Create(\"d\", \"n\") + x + y\n"),
		pkg("log", "log", "package log\n\nfunc Println(p *uint64) {\n\t*p = 9\n}\n", "\tp := new(uint64)\n\tlog.Println(p)\n\treturn *p + x + y\n"),
		pkg("fmt", "fmt", "package fmt\n\nfunc Printf(p *uint64, v uint64) {\n\t*p = v\n}\n", "\tp := new(uint64)\n\tfmt.Printf(p, x)\n\treturn *p + y\n"),
		pkg("sync", "sync", "package sync\n\ntype Mutex struct {\n\tn uint64\n}\n\nfunc (m *Mutex) Lock() {\n\tm.n = m.n + 1\n}\n\nfunc (m *Mutex) Unlock() {\n\tm.n = m.n + 10\n}\n\nfunc Count(m *Mutex) uint64 {\n\treturn m.n\n}\n", "\tm := new(sync.Mutex)\n\tm.Lock()\n\tm.Unlock()\n\treturn sync.Count(m) + x + y\n"),
		pkg("sync_newcond", "sync", "package sync\n\nfunc NewCond(v uint64) uint64 {\n\treturn v + 1\n}\n", "\treturn sync.NewCond(x) + y\n"),
		pkg("util", "util", "package util\n\nfunc DPrintf(lvl uint64, p *uint64, v uint64) {\n\t*p = v\n}\n", "\tp := new(uint64)\n\tutil.DPrintf(1, p, x)\n\treturn *p + y\n"),
		pkg("primitive", "primitive", "package primitive\n\nfunc UInt64ToString(v uint64) uint64 {\n\treturn v + 2\n}\n", "\treturn primitive.UInt64ToString(x) + y\n"),
		// user functions named like the GooseLang library identifiers the translation emits unqualified
		one("libname_break", "func Break() uint64 {\n\treturn 1\n}\n", "\tvar i uint64\n\tfor {\n\t\ti = i + 1\n\t\tif i > 2 {\n\t\t\tbreak\n\t\t}\n\t}\n\treturn Break() + i + x + y\n"),
		one("libname_newslice", "func NewSlice(n uint64) uint64 {\n\treturn n\n}\n", "\tys := make([]uint64, 3)\n\treturn uint64(len(ys)) + NewSlice(1) + x + y\n"),
		one("libname_mapget", "func MapGet(n uint64) uint64 {\n\treturn n\n}\n", "\tm := make(map[uint64]uint64)\n\tm[1] = x\n\treturn m[1] + MapGet(y)\n"),
		// the real log / fmt packages: the call becomes a comment, together with the effects of its arguments
		la("log_args_effect", map[string]string{"la_log_args_effect/a.go": "package la\n\nimport \"log\"\n\nfunc bump(p *uint64) uint64 {\n\t*p = *p + 1\n\treturn *p\n}\n\nfunc F(x uint64, y uint64) uint64 {\n\tp := new(uint64)\n\tlog.Println(bump(p))\n\treturn *p + x + y\n}\n"}),
		la("fmt_args_effect", map[string]string{"la_fmt_args_effect/a.go": "package la\n\nimport \"fmt\"\n\nfunc bump(p *uint64) uint64 {\n\t*p = *p + 1\n\treturn *p\n}\n\nfunc F(x uint64, y uint64) uint64 {\n\tp := new(uint64)\n\tfmt.Println(bump(p))\n\treturn *p + x + y\n}\n"}),
		// builtin names taken by user functions of another arity (a translator that trusts the spelling indexes missing arguments)
		one("len0", "func len() uint64 {\n\treturn 42\n}\n", "\treturn len() + x\n"),
		one("cap0", "func cap() uint64 {\n\treturn 42\n}\n", "\treturn cap() + x\n"),
		one("new0", "func new() uint64 {\n\treturn 42\n}\n", "\treturn new() + x\n"),
		one("make0", "func make() uint64 {\n\treturn 42\n}\n", "\treturn make() + x\n"),
		one("append0", "func append() uint64 {\n\treturn 42\n}\n", "\treturn append() + x\n"),
		one("copy0", "func copy() uint64 {\n\treturn 42\n}\n", "\treturn copy() + x\n"),
		one("delete0", "func delete() uint64 {\n\treturn 42\n}\n", "\treturn delete() + x\n"),
		one("panic0", "func panic() uint64 {\n\treturn 42\n}\n", "\treturn panic() + x\n"),
		one("min0", "func min() uint64 {\n\treturn 42\n}\n", "\treturn min() + x\n"),
		one("len3", "func len(a uint64, b uint64, c uint64) uint64 {\n\treturn a + b + c\n}\n", "\treturn len(x, y, 1)\n"),
		one("append1", "func append(a uint64) uint64 {\n\treturn a + 1\n}\n", "\treturn append(x) + y\n"),
		one("delete1", "func delete(a uint64) uint64 {\n\treturn a + 1\n}\n", "\treturn delete(x) + y\n"),
		one("copy1", "func copy(a uint64) uint64 {\n\treturn a + 1\n}\n", "\treturn copy(x) + y\n"),
		one("uint64_func", "func uint32(a uint64) uint64 {\n\treturn a + 1\n}\n", "\treturn uint32(x) + y\n"),
		// packages whose path merely contains a recognised name (suffix, prefix, inner component)
		pkg("fairsync", "fairsync", "package fairsync\n\ntype Mutex struct {\n\tn uint64\n}\n\nfunc (m *Mutex) Lock() {\n\tm.n = m.n + 1\n}\n\nfunc (m *Mutex) Unlock() {\n\tm.n = m.n + 10\n}\n\nfunc Count(m *Mutex) uint64 {\n\treturn m.n\n}\n", "\tm := new(fairsync.Mutex)\n\tm.Lock()\n\tm.Unlock()\n\treturn fairsync.Count(m) + x + y\n"),
		pkg("syncx", "syncx", "package syncx\n\ntype Mutex struct {\n\tn uint64\n}\n\nfunc (m *Mutex) Lock() {\n\tm.n = m.n + 1\n}\n\nfunc Count(m *Mutex) uint64 {\n\treturn m.n\n}\n", "\tm := new(syncx.Mutex)\n\tm.Lock()\n\treturn syncx.Count(m) + x + y\n"),
		pkg("mydisk", "mydisk", "package mydisk\n\nfunc Read(a uint64) uint64 {\n\treturn a + 1\n}\n\nfunc Size() uint64 {\n\treturn 77\n}\n", "\treturn mydisk.Read(x) + mydisk.Size() + y\n"),
		pkg("xmachine", "xmachine", "package xmachine\n\nfunc UInt64Get(b []byte) uint64 {\n\treturn 5\n}\n", "\tb := make([]byte, 8)\n\treturn xmachine.UInt64Get(b) + x + y\n"),
		pkg("logger", "logger", "package logger\n\nfunc Println(p *uint64) {\n\t*p = 9\n}\n", "\tp := new(uint64)\n\tlogger.Println(p)\n\treturn *p + x + y\n"),
		// a struct type with the same package name and type name as a local one, other field order
		la("same_named_struct", map[string]string{
			"la_same_named_struct/lib/config/l.go": "package config\n\ntype Limits struct {\n\tLo uint64\n\tHi uint64\n}\n\nfunc Span(l Limits) uint64 {\n\treturn l.Hi - l.Lo\n}\n",
			"la_same_named_struct/a.go":            "package config\n\nimport \"lamod/la_same_named_struct/lib/config\"\n\ntype Limits struct {\n\tHi uint64\n\tLo uint64\n}\n\nfunc F(x uint64, y uint64) uint64 {\n\tmine := Limits{Hi: x + 100, Lo: y}\n\ttheirs := config.Limits{Lo: y, Hi: x + 7}\n\treturn (mine.Hi - mine.Lo) + config.Span(theirs)*1000 + theirs.Hi\n}\n",
		}),
		la("cross_pkg_struct", map[string]string{
			"la_cross_pkg_struct/store/l.go": "package store\n\nconst Limit uint64 = 10\n\ntype Entry struct {\n\tKey uint64\n\tVal uint64\n}\n\nfunc (e Entry) Sum() uint64 {\n\treturn e.Key + e.Val\n}\n\nfunc Mk(k uint64) Entry {\n\treturn Entry{Key: k, Val: Limit}\n}\n\nfunc Bump(e *Entry) {\n\te.Val = e.Val + 1\n}\n",
			"la_cross_pkg_struct/a.go":       "package la\n\nimport \"lamod/la_cross_pkg_struct/store\"\n\ntype Table struct {\n\tfirst store.Entry\n\trows  []store.Entry\n}\n\nfunc F(x uint64, y uint64) uint64 {\n\te := store.Entry{Key: x, Val: 1}\n\tt := Table{first: e, rows: make([]store.Entry, 1)}\n\tt.rows[0] = store.Mk(y)\n\tp := &store.Entry{Key: 2, Val: store.Limit}\n\tstore.Bump(p)\n\treturn t.first.Key + t.rows[0].Val*3 + e.Sum() + p.Val\n}\n",
		}),
		pkg("plain_pkg_control", "helper", "package helper\n\nfunc Inc(v uint64) uint64 {\n\treturn v + 1\n}\n", "\treturn helper.Inc(x) + y\n"),
	}
}

// CrashCheckLookalikes (C07): the real binary on every look-alike package must end with exit
// status 0 or 1 and without a Go panic, whatever it thinks of the package.
func CrashCheckLookalikes(goose, work string, acc *ev.Acc) {
	mod := filepath.Join(work, "lamod7")
	write := func(rel, c string) {
		p := filepath.Join(mod, rel)
		os.MkdirAll(filepath.Dir(p), 0755)
		os.WriteFile(p, []byte(c), 0644)
	}
	write("go.mod", "module lamod\n\ngo 1.22\n")
	for _, l := range Lookalikes() {
		for rel, c := range l.Files {
			write(rel, c)
		}
	}
	for _, l := range Lookalikes() {
		for _, ign := range []bool{false, true} {
			args := []string{"-out", filepath.Join(work, "laout7")}
			if ign {
				args = append(args, "-ignore-errors")
			}
			gc := exec.Command(goose, append(args, "./la_"+l.ID+"/...")...)
			gc.Dir = mod
			out, err := gc.CombinedOutput()
			code := 0
			if ee, ok := err.(*exec.ExitError); ok {
				code = ee.ExitCode()
			}
			acc.Add("evaluations", 1)
			acc.Add("lookalike_invocations", 1)
			acc.Set("nontrivial", "lookalike:"+l.ID)
			if (code != 0 && code != 1) || strings.Contains(string(out), "goroutine ") {
				var names []string
				for n := range l.Files {
					names = append(names, n)
				}
				sort.Strings(names)
				src := ""
				for _, n := range names {
					src += "--- " + n + "\n" + l.Files[n]
				}
				o := string(out)
				if len(o) > 1500 {
					o = o[:1500]
				}
				acc.Violate(ev.Violation{Key: "C07/lookalike-crash/" + l.ID, Msg: fmt.Sprintf("goose crashes (exit %d) on look-alike package %s: %s\n%s", code, l.ID, o, src), Replay: map[string]any{"part": 4, "descriptor": "lookalike:" + l.ID}})
				break
			}
		}
	}
}

// RunLookalikes: per look-alike package, rejected or faithful on a grid of inputs.
func RunLookalikes(cfg Cfg, acc *ev.Acc) {
	las := Lookalikes()
	mod := filepath.Join(cfg.Work, "lamod")
	write := func(rel, c string) {
		p := filepath.Join(mod, rel)
		os.MkdirAll(filepath.Dir(p), 0755)
		os.WriteFile(p, []byte(c), 0644)
	}
	write("go.mod", "module lamod\n\ngo 1.22\n")
	var imports, calls strings.Builder
	for _, l := range las {
		for rel, c := range l.Files {
			write(rel, c)
		}
		fmt.Fprintf(&imports, "\tla_%s \"lamod/la_%s\"\n", l.ID, l.ID)
		fmt.Fprintf(&calls, "\trun(%q, la_%s.F)\n", l.ID, l.ID)
	}
	write("cmd/run/main.go", "package main\n\nimport (\n\t\"fmt\"\n"+imports.String()+")\n\nvar vals = []uint64{0, 1, 2, 3, 5, 30, 255, 4294967296, 18446744073709551615}\n\nfunc run(id string, f func(uint64, uint64) uint64) {\n\tfor _, x := range vals {\n\t\tfor _, y := range vals[:4] {\n\t\t\tfunc() {\n\t\t\t\tdefer func() {\n\t\t\t\t\tif r := recover(); r != nil {\n\t\t\t\t\t\tfmt.Printf(\"%s|%d|%d|PANIC\\n\", id, x, y)\n\t\t\t\t\t}\n\t\t\t\t}()\n\t\t\t\tfmt.Printf(\"%s|%d|%d|%d\\n\", id, x, y, f(x, y))\n\t\t\t}()\n\t\t}\n\t}\n}\n\nfunc main() {\n"+calls.String()+"}\n")
	build := exec.Command("go", "run", "./cmd/run")
	build.Dir = mod
	var goOut, goErr bytes.Buffer
	build.Stdout, build.Stderr = &goOut, &goErr
	if err := build.Run(); err != nil {
		fmt.Fprintln(os.Stderr, "harness error: look-alike packages do not compile or run:", goErr.String())
		os.Exit(3)
	}
	goRes := map[string]map[string]string{}
	for _, l := range strings.Split(goOut.String(), "\n") {
		p := strings.Split(l, "|")
		if len(p) == 4 {
			if goRes[p[0]] == nil {
				goRes[p[0]] = map[string]string{}
			}
			goRes[p[0]][p[1]+","+p[2]] = p[3]
		}
	}
	outDir := filepath.Join(cfg.Work, "laout")
	for _, l := range las {
		acc.Add("programs", 1)
		acc.Add("lookalike_packages", 1)
		acc.Set("nontrivial", "lookalike:"+l.ID)
		gc := exec.Command(cfg.Goose, "-out", outDir, "./la_"+l.ID+"/...")
		gc.Dir = mod
		out, err := gc.CombinedOutput()
		code := 0
		if ee, ok := err.(*exec.ExitError); ok {
			code = ee.ExitCode()
		}
		viol := func(kind, msg string) {
			var names []string
			for n := range l.Files {
				names = append(names, n)
			}
			sort.Strings(names)
			src := ""
			for _, n := range names {
				src += "--- " + n + "\n" + l.Files[n]
			}
			acc.Violate(ev.Violation{Key: "C02/lookalike/" + l.ID + "/" + kind, Msg: fmt.Sprintf("look-alike %s: %s\n%s", l.ID, msg, src), Replay: map[string]any{"descriptor": "lookalike:" + l.ID}})
		}
		if code != 0 && code != 1 {
			acc.Note("goose panics on look-alike " + l.ID + " (judged by C07)")
			continue
		}
		vb, rerr := os.ReadFile(filepath.Join(outDir, "lamod", "la_"+l.ID+".v"))
		if rerr != nil {
			acc.Add("rejected", 1)
			acc.Set("rejecting_guards", "lookalike:"+normalize(firstCategory(string(out))))
			continue // rejected: acceptable
		}
		acc.Add("accepted", 1)
		file, perr := gl.ParseFile(string(vb))
		if perr != nil || len(file.Bad) > 0 {
			viol("malformed-output", fmt.Sprint(perr, file.Bad))
			continue
		}
		// link the emitted files of the local packages the look-alike imports
		file.Imports = map[string]*gl.File{}
		for rel, src := range l.Files {
			parts := strings.Split(rel, "/")
			if len(parts) >= 3 {
				// the qualifier in the emitted text is the Go package name
				qual := parts[len(parts)-2]
				if m := pkgClauseRe.FindStringSubmatch(src); m != nil {
					qual = m[1]
				}
				if ib, err := os.ReadFile(filepath.Join(append([]string{outDir, "lamod"}, parts[:len(parts)-1]...)...) + ".v"); err == nil {
					if imf, err := gl.ParseFile(string(ib)); err == nil {
						file.Imports[qual] = imf
					}
				}
			}
		}
		keys := make([]string, 0, len(goRes[l.ID]))
		for k := range goRes[l.ID] {
			keys = append(keys, k)
		}
		sort.Strings(keys)
		for _, k := range keys {
			want := goRes[l.ID][k]
			if want == "PANIC" {
				continue
			}
			var x, y uint64
			fmt.Sscanf(k, "%d,%d", &x, &y)
			in := gl.New(file)
			in.Fuel = 200000
			v, err := in.Call("F", gl.VInt{W: 64, N: x}, gl.VInt{W: 64, N: y})
			acc.Add("evaluations", 1)
			if err != nil {
				viol("stuck:"+normalize(strings.TrimPrefix(err.Error(), "stuck: ")), fmt.Sprintf("F(%d,%d): Go returns %s, the emitted GooseLang is %v", x, y, want, err))
				break
			}
			if got := gl.Show(v); got != "#"+want {
				viol("value-mismatch", fmt.Sprintf("F(%d,%d): Go returns %s, the emitted GooseLang returns %s", x, y, want, got))
				break
			}
		}
	}
}

var pkgClauseRe = regexp.MustCompile(`(?m)^package (\w+)`)

func firstCategory(stderr string) string {
	for _, l := range strings.Split(stderr, "\n") {
		l = strings.TrimPrefix(strings.TrimSpace(l), "conversion failed: ")
		if m := catRe.FindStringSubmatch(l); m != nil {
			return m[1] + ": " + m[2]
		}
	}
	return "?"
}
