// Package verifload memoises packages.Load for the schedule exploration of
// TranslatePackages: the loaded packages are read-only for the translator, so
// every explored execution can share one load per pattern list.
package verifload

import (
	"strings"
	"sync"

	"golang.org/x/tools/go/packages"
)

var mu sync.Mutex
var cache = map[string][]*packages.Package{}

func Load(cfg *packages.Config, patterns ...string) ([]*packages.Package, error) {
	key := cfg.Dir + "\x00" + strings.Join(cfg.BuildFlags, " ") + "\x00" + strings.Join(patterns, "\x00")
	mu.Lock()
	if p, ok := cache[key]; ok {
		mu.Unlock()
		return p, nil
	}
	mu.Unlock()
	p, err := packages.Load(cfg, patterns...)
	if err != nil {
		return p, err
	}
	mu.Lock()
	cache[key] = p
	mu.Unlock()
	return p, nil
}
