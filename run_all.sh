#!/bin/bash
# run_all.sh [tier]: run every registered check, summarise.
TIER=${1:-quick}
cd /verif
fail=0
for id in $(python3 -c "import json;print(' '.join(c['property_id'] for c in json.load(open('MANIFEST.json'))['checks']))"); do
  s=$(date +%s)
  out=$(./check.sh $id $TIER 2>&1); code=$?
  e=$(( $(date +%s) - s ))
  echo "$id exit=$code ${e}s $(echo "$out" | tail -1)"
  [ $code -ne 0 ] && { fail=1; echo "$out" | grep -v KNOWN | head -5; }
done
exit $fail
