#!/usr/bin/env python3
# Generates MANIFEST.json from the table below (kept in one place so it stays valid).
import json
BASE = "cd /repo && GOFLAGS=-mod=mod GOPROXY=off GOSUMDB=off GOTOOLCHAIN=local go test -vet=off -count=1 ./..."
checks = {
 "C09": ("model_checking", "explicit-state BFS over operation histories on the real disks vs a register-array reference model; simunix traces replayed on the real kernel",
         "All histories up to the depth bound (fix-point for the small sizes) of the disk API on MemDisk, FileDisk, the async_disk aliases and the global wrappers agree with the reference model after every step, including caller-buffer aliasing.",
         "simunix kernel model for FileDisk (validated by replaying every explored trace on the real kernel); depth/size bounds", "2 C09"),
 "C10": ("model_checking", "stateless exploration of all interleavings up to a preemption bound under a controlled scheduler + porcupine linearizability check; free-running -race complement",
         "Every schedule with <=2 (quick) / <=3 (thorough) preemptions of 2-3 client threads on colliding addresses, with preemption before every statement of mem.go and copies split in halves, is linearizable and never returns a torn block.",
         "preemption points only where instrumented; pread/pwrite atomic in simunix; race pass is not exhaustive over schedules", "2 C10"),
 "C11": ("model_checking", "BFS over write/barrier/reopen histories x prior image lengths; crash-point x post-crash-image enumeration; single-fault enumeration, all on the real FileDisk over simunix",
         "Every explored history, every crash point with every subset of unsynced writes, and every single failing system call satisfies persistence / no-silent-failure.",
         "crash and errno model of simunix (fault-free traces validated on the real kernel)", "2 C11"),
 "C12": ("model_checking", "explicit-state BFS over valid filesystem histories on real MemFs and DirFs (simunix) in lock-step with a reference model; traces replayed on the real kernel",
         "All valid histories up to depth 3 (quick) / 5 (thorough) return what the reference model returns on both implementations, directly and through the wrappers, with full read-back after every transition.",
         "simunix kernel model (validated per history on the real kernel); depth bound", "2 C12"),
 "C13": ("model_checking", "crash-point x post-crash-image enumeration, single-fault and short-write enumeration on the real DirFs.AtomicCreate over simunix; all interleavings up to a preemption bound of creators + reader on DirFs and MemFs",
         "Every prior state x leftover temp file x data size: all-or-nothing at every instant, in every post-crash image and after every single failing system call; flushed before visible; concurrent creators and a reader never observe or leave anything but one caller's complete data.",
         "crash/fault model of simunix; system calls atomic; preemption bound", "2 C13"),
 "C14": ("model_checking", "stateless exploration of all interleavings up to a preemption bound under a controlled scheduler + porcupine linearizability vs the reference filesystem; free-running -race complement",
         "Every schedule with <=2 (quick) / <=3 (thorough) preemptions of 2-3 client programs on colliding names is linearizable w.r.t. the reference filesystem on MemFs (statement-level preemption) and DirFs (system-call-level), with distinct live descriptors.",
         "preemption points only where instrumented; system calls atomic; race pass not exhaustive over schedules", "2 C14"),
 "C15": ("model_checking", "bounded-exhaustive input enumeration (every byte value in every lane, corner values, all buffer lengths 0..12, fills, spare capacity behind the buffer) on the real Put/Get; stateless exploration of all interleavings up to a preemption bound of 2-3 concurrent callers (statement-level preemption in machine/prims.go) + free-running -race complement",
         "Little-endian layout, frame, Get-after-Put, Get's independence of later bytes, refusal-without-partial-write and nothing read or written behind len(buf) hold on the whole lane/corner domain for both widths; concurrent callers on their own buffers never disturb each other in any explored schedule.",
         "values outside the lane/corner domain are covered by the lane-wise argument only; preemption points at statement boundaries of prims.go", "2 C15"),
 "C16": ("model_checking", "stateless exploration of all interleavings (deviation-bounded) of WaitTimeout's caller, helper goroutine, timer event and signaller under a controlled scheduler with a logical clock; bounded-exhaustive input enumeration for the pure primitives",
         "Lock held and exclusive on return, no unlock of an unlocked mutex, return guaranteed on the timer-only and signal-only paths over every explored schedule; canonical decimal rendering on all n<10^5 and all boundaries; MapClear on all small maps; Assume/Assert on both booleans.",
         "wall-clock bounds only in logical form; primitive module instrumented by overlay", "2 C16"),
 "C18": ("exploration", "bounded-exhaustive enumeration of package directories (file-kind alphabet x function-header alphabet) fed to the real test_gen binary in both modes, compared with a go/parser reference extractor; generated Go files compiled",
         "For every enumerated directory both generators emit exactly the reference list of tests in order with correct Fail marking and agree with each other; distinct generated Go files compile against their package.",
         "gofmt-formatted packages whose test functions are func() bool; alphabet bounds", "2 C18"),
 "C17": ("model_checking", "explicit-state BFS over invocations of the real goose binary (flags x pattern sets x -dir) from every reached out-directory state, against a reference model of exit status / files / rewrite; go list -tags goose as ground truth for source selection",
         "Every invocation sequence up to depth 2 from three seed out-dir states satisfies exit status, placement, nothing-written-on-error, partial output == translated declarations, no rewrite of unchanged files, and build-tag/pattern/-dir source selection.",
         "content judged against the binary's own solo translation; load-failure stray file not judged; no permission-based states (root)", "2 C17"),
 "C01": ("exploration", "bounded-exhaustive program enumeration (every statement position x every statement/expression form of a grammar of the supported subset) with differential execution: native Go vs a GooseLang reference interpreter run on the real goose's output, on boundary input vectors",
         "Every program of the grammar (quick: 11 positions, thorough: 20 positions; ~320 forms) is accepted by goose and the emitted GooseLang, interpreted, returns exactly Go's results (whole environment observed, aliasing included) on 28 boundary input vectors, without getting stuck.",
         "GooseLang semantics = reference interpreter in mc/gl, gated by the repository's semantics corpus (86/86 test* functions evaluate to #true); program depth and input domains bounded", "2 C01"),
 "C02": ("exploration", "bounded-exhaustive enumeration of a catalogue of out-of-subset / look-alike constructs x statement positions; per declaration: rejected by the real goose, or accepted and judged by the differential Go vs GooseLang-interpreter oracle of C01",
         "Every catalogue construct (unsupported assignment operators, operators, conversions, slice forms, literals, statement kinds, control-flow shapes, function-value calls, interface/generic/variadic/named-type declarations, goroutine forms ...) at every position is either rejected with a conversion error or translated faithfully on 28 input vectors.",
         "same trusted interpreter as C01; catalogue bounds; constructs whose GooseLang meaning cannot be pinned offline (string ordering, mixed-width shifts) are not judged", "2 C02"),
 "C04": ("exploration", "bounded-exhaustive enumeration of small packages (every reference template x base declaration, chains of two, all permutations of the declaration units, several file layouts) translated by the real goose; structural oracle on the parsed output",
         "For every enumerated package: one definition per declaration under the documented name, names distinct, every same-package identifier a body mentions is defined earlier in the file, self-recursion through the rec binder.",
         "dependencies read off the emitted text; packages of at most 4 units (6 for the interface-conversion shape)", "2 C04"),
 "C03": ("model_checking", "stateless exploration of all interleavings up to a preemption bound on both sides under one controlled scheduler: the generated Go program (sync and go statements routed to the scheduler) and goose's real output on the GooseLang reference interpreter; outcome-set comparison",
         "For every program of the concurrent grammar: every result Go produces within the bound is produced by some explored GooseLang interleaving; schedule-independent Go results are reproduced by every explored GooseLang interleaving with no deadlock, stuck thread or data race.",
         "reference interpreter semantics for locks / condition variables / wait groups / Fork (stutter-free waits); preemption bound; logical time", "2 C03"),
 "C08": ("exploration", "bounded-exhaustive enumeration of import graphs (routes to the FFI packages: direct, through helpers, hidden behind an FFI; one and two routes) and of import paths over a component alphabet, in a generated module with local stub modules, translated by the real goose; compared with a small reference function",
         "For every enumerated client package: the prelude/footer is that of the unique reachable FFI (two FFIs refused), the Require lines are exactly the sorted, de-duplicated, mapped non-builtin imports (trusted namespace for trusted_*), and the file lands at the mapped package path.",
         "component alphabet and route depth bounded; refusal judged as no-file + non-zero exit", "2 C08"),
 "C07": ("exploration", "bounded-exhaustive enumeration of out-of-subset and crash-prone constructs x statement positions, each declaration translated and printed separately by the real translator code through an overlay bridge under recover; plus enumeration of good/bad declaration patterns x file layouts through the real binary",
         "No enumerated declaration makes the translator panic; every error has a documented category and a position inside the offending declaration; k bad declarations give exit 1 and exactly k located errors, nothing written without -ignore-errors and exactly the good declarations with it.",
         "bridge calls declsOrError/CoqDecl like Decls and File.Write do; catalogue bounds", "2 C07"),
 "C05": ("exploration", "bounded-exhaustive enumeration of token strings at every text position, of operator/context nestings, and of flag combinations, through the real goose; a Coq-rules lexer + precedence parser reads the output; nesting judged by interpreting the parsed text and comparing with Go",
         "Every token string up to the length bound at 11 text positions leaves the sentence structure and all bodies unchanged (or the package is rejected); every enumerated nesting evaluates like Go when read with Coq's precedences; all 8 flag combinations give identical bodies.",
         "Coq lexer rules and notation levels as modelled in mc/gl; nesting judged by value on boundary inputs", "2 C05"),
 "C06": ("model_checking", "stateless exploration of all schedules up to a preemption bound of the real TranslatePackages workers under a controlled scheduler (interface.go instrumented by overlay); exhaustive subset/order regrouping through the real binary; free-running -race complement",
         "Every explored schedule of every pair/triple of fixture packages returns, in a schedule-independent order, exactly the solo translation (bytes and errors) of each package; every subset in both orders through the real binary reproduces the solo files, exit status and error lists; the -race build reports no race.",
         "preemption points at declaration granularity only (inside one declaration: race pass); memoised package loading", "2 C06"),
}
todo = {}
man = {
 "version": 1,
 "setup_cmd": "./setup.sh",
 "hooks": {"guard": "verif", "enable": "no guarded code is committed to /repo: instrumentation (sync/unix shims, preemption points) is generated from the current working tree at check time and applied with `go build -overlay`", "baseline_off_cmd": BASE, "source_commits": [], "add_only": True},
 "engines": [
  {"name": "csched", "path": "mc/csched", "serves_properties": ["C03","C06","C10","C13","C14","C16"], "kind_free_text": "cooperative controlled scheduler + deviation-bounded stateless explorer"},
  {"name": "simunix", "path": "mc/simunix", "serves_properties": ["C09","C10","C11","C12","C13","C14"], "kind_free_text": "simulated kernel (faults, crash images, real-kernel trace replay)"},
  {"name": "bfs", "path": "mc/bfs", "serves_properties": ["C09","C11","C12","C17"], "kind_free_text": "explicit-state BFS over real objects by history replay"},
  {"name": "gl", "path": "mc/gl", "serves_properties": ["C01","C02","C03","C04","C05"], "kind_free_text": "Coq-notation lexer/parser and GooseLang reference interpreter"},
  {"name": "progenum", "path": "mc/progenum", "serves_properties": ["C01","C02","C05","C07"], "kind_free_text": "bounded-exhaustive Go program enumerator (positions x forms)"},
  {"name": "instr", "path": "mc/instr", "serves_properties": ["C06","C10","C13","C14","C16"], "kind_free_text": "source rewriter producing go build overlays"},
 ],
 "checks": [], "not_applicable": [],
 "notes": "All checks are bounded exhaustive explorations of the real code; see DESIGN.md.",
}
for pid,(lvl,tech,text,note,ref) in sorted(checks.items()):
    man["checks"].append({"property_id": pid, "quick_cmd": f"./check.sh {pid} quick", "thorough_cmd": f"./check.sh {pid} thorough",
      "evidence_file": f"/verif/evidence/{pid}.json", "replay_cmd_template": f"./check.sh {pid} --replay {{path}}", "engine": "mc",
      "level_claimed": {"category": lvl, "text": text, "design_ref": "DESIGN.md section "+ref}, "level_note": note, "technique": tech})
allp = [json.loads(l)["id"] for l in open("/verif/properties.jsonl")]
for pid in allp:
    if pid not in checks:
        man["not_applicable"].append({"property_id": pid, "reason": todo.get(pid, "check not built yet in this revision (planned: bounded exhaustive exploration, see DESIGN.md); not a claim that the technique cannot apply")})
json.dump(man, open("/verif/MANIFEST.json","w"), indent=1)
print("claimed", sorted(checks), "unclaimed", len(man["not_applicable"]))
